"""C17 — information weights are KL divergences; transform is a fixed column scaling.
Proof gate (Properties/C17.v) + correspondence of Model/K13_InfoWeight.v (binary64 PrimFloat inside vm_compute; ln / exp /
pow = the series of Model/K12_Float.v and Model/K13_Float.v, compared with libm on every run) with
vectorizers/transformers/info_weight.py + property oracle (KL from the definition in float64, layout / permutation
invariance, X @ diag(w), linearity, support) evaluated on the implementation's outputs."""
import math
from . import common as C
from .c18 import sf2float, fcoq, unhex, close

HEADER = """From Coq Require Import ZArith List PrimFloat.
From VZ Require Import Model.K12_Dist Model.K12_Float Model.K13_InfoWeight Model.K13_Float.
Import ListNotations.
Open Scope float_scope.
Definition unopt (l : list (option float)) := map (fun o => match o with Some v => v | None => nan end) l.
Definition outs (l : list (option float)) := map out_opt l.
"""
TOL = {"rel": 1e-9, "abs": 1e-12, "transform_rel": 1e-12, "linear_rel": 1e-9, "nonneg_slack": 1e-12, "degenerate_raw_weight": 1e-9}


def hexf(v):
    return float(v).hex()


# ------------------------------------------------------------------ generators

def gen_matrix(rng, n, m, kind, density):
    M = [[0.0] * m for _ in range(n)]
    for i in range(n):
        for j in range(m):
            if rng.random() < density:
                if kind == "int":
                    M[i][j] = float(rng.randint(1, 9))
                elif kind == "big":
                    M[i][j] = float(rng.randint(1, 10 ** 6))
                else:
                    M[i][j] = rng.uniform(0.01, 5.0) * 10.0 ** rng.choice([0, 0, -3, 3])
    if all(v == 0 for r in M for v in r):
        M[rng.randrange(n)][rng.randrange(m)] = 2.0
    return M


def entries_of(M):
    return [[i, j, hexf(v)] for i, r in enumerate(M) for j, v in enumerate(r) if v != 0]


def gen_case(rng):
    n = rng.choice([1, 2, 2, 3, 4, 5, 6, 7])
    m = rng.choice([1, 2, 3, 3, 4, 5])
    kind = rng.choice(["int", "int", "float", "big"])
    shape = rng.choice(["random", "random", "random", "rank1", "empty_rowcol", "single_cell"])
    M = gen_matrix(rng, n, m, kind, rng.choice([0.3, 0.5, 0.8, 1.0]))
    if shape == "rank1":
        u = [float(rng.randint(0, 4)) for _ in range(n)]
        v = [float(rng.randint(1, 3)) for _ in range(m)]
        if not any(u):
            u[0] = 1.0
        M = [[a * b for b in v] for a in u]
    elif shape == "empty_rowcol":
        i0, j0 = rng.randrange(n), rng.randrange(m)
        M = [[0.0 if (i == i0 or j == j0) else v for j, v in enumerate(r)] for i, r in enumerate(M)]
        if all(v == 0 for r in M for v in r):
            M[(i0 + 1) % n][(j0 + 1) % m] = 3.0
            if n == 1 or m == 1:
                M = [[1.0] * m for _ in range(n)]
    elif shape == "single_cell":
        M = [[0.0] * m for _ in range(n)]
        M[rng.randrange(n)][rng.randrange(m)] = float(rng.randint(1, 5))
    can = entries_of(M)
    zeros = [[i, j, hexf(0.0)] for i in range(n) for j in range(m) if M[i][j] == 0]
    ez = rng.sample(zeros, rng.randint(1, len(zeros))) if zeros else []

    def shuffled(l):
        l = list(l)
        rng.shuffle(l)
        return l
    def split(v, allow_zero):
        """v as 2 or 3 stored parts for the same coordinate (their sum is v exactly, or to 1 ulp for the float kinds)"""
        k = rng.choice([2, 2, 3])
        if kind in ("int", "big"):
            lo = 0 if allow_zero else 1
            if v < k * lo or (v < 2 and not allow_zero):
                return None
            a = rng.randint(lo, int(v) - (k - 1) * lo)
            parts = [a]
            if k == 3:
                b = rng.randint(lo, int(v) - a - lo)
                parts.append(b)
            parts.append(int(v) - sum(parts))
            return [float(x) for x in parts]
        if k == 2:
            a = v / 2 if rng.random() < 0.5 else v * rng.uniform(0.1, 0.9)
            parts = [a, v - a]
        else:
            parts = [v / 4, v / 4, v - v / 2]
        if allow_zero and rng.random() < 0.3:
            parts.append(0.0)
        return parts if all(x > 0 or (allow_zero and x == 0) for x in parts) else None

    def with_dups(entries, allow_zero):
        parts_of = {}
        for idx, e in enumerate(entries):
            v = float.fromhex(e[2])
            parts = split(v, allow_zero) if rng.random() < 0.5 and v != 0 else None
            if parts is None and allow_zero and rng.random() < 0.3:
                parts = [v, 0.0] if rng.random() < 0.5 else [0.0, v]       # a stored zero on top of a stored value (or of a stored zero)
            if parts:
                parts_of[idx] = parts
        if not parts_of:                                                   # at least one repeated coordinate whenever some value can be split
            for idx, e in enumerate(entries):
                parts = split(float.fromhex(e[2]), allow_zero) if float.fromhex(e[2]) != 0 else None
                if parts:
                    parts_of[idx] = parts
                    break
        out = []
        for idx, e in enumerate(entries):
            out += [[e[0], e[1], hexf(x)] for x in parts_of[idx]] if idx in parts_of else [e]
        return out, len(parts_of)
    dup, n_dup = with_dups(can, False)            # repeated coordinates, every stored value non-zero
    dupz, n_dupz = with_dups(can + ez, True)      # repeated coordinates + explicit zeros (also repeated, also on top of a value)
    by_col = lambda l: sorted(l, key=lambda e: (e[1], e[0]))
    encs = [{"fmt": "csr", "entries": can}, {"fmt": "csc", "entries": can}, {"fmt": "coo", "entries": shuffled(can)},
            {"fmt": "coo_dup", "entries": shuffled(dup)}, {"fmt": "csc_unsorted", "entries": shuffled(can)},
            {"fmt": "csr_unsorted", "entries": shuffled(can)}, {"fmt": "csc_explicit_zeros", "entries": shuffled(can + ez)},
            {"fmt": "csr_explicit_zeros", "entries": shuffled(can + ez)}, {"fmt": "lil", "entries": can},
            {"fmt": "dense", "entries": can},
            # non-canonical storage: the same (row, column) stored more than once (has_canonical_format False)
            {"fmt": "csr_dup", "entries": shuffled(dup)},                      # 10: CSR, duplicates, unsorted column indices
            {"fmt": "csc_dup_unsorted", "entries": shuffled(dup)},             # 11: CSC, duplicates, unsorted row indices
            {"fmt": "csc_dup_explicit_zeros", "entries": shuffled(dupz)},      # 12: CSC, duplicates + explicit zeros, unsorted
            {"fmt": "csr_dup_explicit_zeros", "entries": shuffled(dupz)},      # 13
            {"fmt": "csc_dup_sorted", "entries": by_col(dup)},                 # 14: sorted indices, yet not canonical
            {"fmt": "coo_dup_explicit_zeros", "entries": shuffled(dupz)}]      # 15
    other = entries_of(gen_matrix(rng, n, m, "float", 0.6))
    rp, cp = list(range(n)), list(range(m))
    rng.shuffle(rp)
    rng.shuffle(cp)
    case = {"kind": "matrix", "n": n, "m": m, "shape": shape, "values": kind, "M": [[hexf(v) for v in r] for r in M], "encodings": encs,
            "s": hexf(rng.choice([1e-4, 0.1, 0.1, 1.0, 50.0, rng.uniform(0.001, 10)])), "power": hexf(rng.choice([0.5, 1.0, 2.0, 2.0, 3.3])),
            "approx": rng.random() < 0.4, "other": other, "lin": [hexf(rng.uniform(-2, 3)), hexf(rng.uniform(-2, 3))],
            "row_perm": rp, "col_perm": cp, "n_dup_coords": [n_dup, n_dupz]}
    return case


CORPUS_SEEDS = 3


# ------------------------------------------------------------------ the definition (float64), the property's own statement

def definition(M, s):
    n, m = len(M), len(M[0])
    rs = [math.fsum(r) for r in M]
    tot = math.fsum(rs)
    b = [x / tot for x in rs]
    out = []
    for j in range(m):
        C_ = math.fsum(M[i][j] for i in range(n))
        acc = []
        for i in range(n):
            q = (M[i][j] + s * b[i]) / (C_ + s)
            if q > 0:
                acc.append(q * math.log(q / b[i]))
        out.append(math.fsum(acc))
    return out


def finish_definition(w, p):
    mean = math.fsum(w) / len(w)
    return [max(x / mean, 0.0) ** p for x in w]


# ------------------------------------------------------------------ model rendering

def coq_cols(case, enc):
    m = case["m"]
    cols = [[] for _ in range(m)]
    ent = enc["entries"]
    if not enc["fmt"].startswith("csc"):
        ent = sorted(ent, key=lambda e: (e[1], e[0]))          # what tocsc() produces from a row-ordered format
    for r, c, v in ent:
        cols[c].append("(%d%%Z, %s)" % (r, fcoq(v)))
    return "[" + "; ".join("[" + "; ".join(c) + "]" for c in cols) + "]"


def raw_weights(case, res, e=0):
    """the implementation's raw information weights that InformationWeightTransformer.fit post-processes (canonical CSR; encoding 12
    for the transformer fitted on the duplicate-entry CSC input: the approximate prior counts stored entries, explicit zeros included)"""
    try:
        w = res["enc"][e]["approx" if case["approx"] else "exact"]
        return None if isinstance(w, dict) or any(h in ("nan", "inf", "-inf") for h in w) else w
    except Exception:  # noqa
        return None


def coq_case(case, res):
    """the finishing step (mean-normalise, clamp, power) is evaluated on the implementation's raw weights: a raw weight is a
    sum with cancellation (absolute error ~1e-16), and x -> (x / mean) ** p magnifies that without bound for small x"""
    n, s, p = case["n"], fcoq(case["s"]), fcoq(case["power"])
    e = case["encodings"]
    iw = lambda approx, enc: "information_weight float F %s %d%%nat %s %s" % ("true" if approx else "false", n, coq_cols(case, enc), s)
    raw = raw_weights(case, res)
    rawl = "[" + "; ".join(fcoq(h) for h in raw) + "]" if raw else "unopt (%s)" % iw(case["approx"], e[1])
    dup_part = ""
    if len(e) > 12:      # (replays of cases recorded before the duplicate encodings existed have 10 encodings)
        dup_part = ", outs (%s), outs (%s), outs (%s)" % (iw(False, e[10]), iw(False, e[12]), iw(True, e[11]))
    return ("let F := F_ops 0 in (outs (%s), outs (%s), outs (%s), outs (%s), map out (finish_weights float F f_pow %s %s)%s)"
            % (iw(False, e[1]), iw(False, e[4]), iw(False, e[6]), iw(True, e[1]), rawl, p, dup_part))


def model_value(v):
    def ol(l):
        return [None if o is None else sf2float(o[1]) for o in l]
    mv = {"exact_csc": ol(v[0]), "exact_unsorted": ol(v[1]), "exact_explicit_zeros": ol(v[2]), "approx": ol(v[3]),
          "finished": [sf2float(x) for x in v[4]]}
    if len(v) > 5:
        mv.update({"exact_csr_dup": ol(v[5]), "exact_csc_dup_explicit_zeros": ol(v[6]), "approx_csc_dup": ol(v[7])})
    return mv


# ------------------------------------------------------------------ oracle

def fl(h):
    return unhex(h)


def vec(ws):
    return ws if isinstance(ws, dict) else [fl(h) for h in ws]


def oracle(case, res):
    """(failures, known_finding_failures, notes)"""
    bad, known, notes = [], [], {}
    if "err" in res:
        return ["implementation raised %s: %s" % (res["err"], res.get("msg", ""))], known, notes
    M = [[float.fromhex(h) for h in r] for r in case["M"]]
    s, p = float.fromhex(case["s"]), float.fromhex(case["power"])
    ref = definition(M, s)
    w0 = None
    for enc, r in zip(case["encodings"], res["enc"]):
        w = vec(r["exact"])
        name = enc["fmt"]
        if isinstance(w, dict):
            bad.append("information_weight on the %s encoding raised %s" % (name, w["err"]))
            continue
        if w0 is None:
            w0 = w
        for j, (a, d) in enumerate(zip(w, ref)):
            if not math.isfinite(a):
                bad.append("weight of column %d on the %s encoding is %r" % (j, name, a))
            elif a < -TOL["nonneg_slack"]:
                bad.append("weight of column %d on the %s encoding is negative: %r" % (j, name, a))
            elif not close(a, d, TOL["rel"], TOL["abs"]):
                bad.append("weight of column %d on the %s encoding is %r, the KL divergence from the definition is %r" % (j, name, a, d))
        if r.get("caller_modified"):
            notes.setdefault("caller_modified", []).append("%s: %s" % (name, "; ".join(r["caller_modified"])))
        ap = vec(r["approx"])
        if isinstance(ap, dict):
            bad.append("information_weight(approximate_prior=True) on the %s encoding raised %s" % (name, ap["err"]))
        elif not all(math.isfinite(a) for a in ap):
            bad.append("approximate-prior weights on the %s encoding are not finite: %r" % (name, ap))
    if w0 is not None:
        rp, cp = vec(res["row_perm"]), vec(res["col_perm"])
        if isinstance(rp, dict) or any(not close(a, b, TOL["rel"], TOL["abs"]) for a, b in zip(rp, w0)):
            bad.append("weights change under the row permutation %s: %s vs %s" % (case["row_perm"], rp, w0))
        if isinstance(cp, dict) or any(not close(cp[k], w0[case["col_perm"][k]], TOL["rel"], TOL["abs"]) for k in range(len(w0))):
            bad.append("weights do not follow the column permutation %s: %s vs %s" % (case["col_perm"], cp, w0))
    degenerate = max(abs(x) for x in ref) < TOL["degenerate_raw_weight"]
    notes["degenerate"] = degenerate
    t = res["transformer"]
    if "err" in t:
        bad.append("InformationWeightTransformer raised %s: %s" % (t["err"]["err"], t["err"]["msg"]))
    else:
        for name in [k for k in ("sparse", "dense", "dup") if k in t]:
            r = t[name]
            if r.get("caller_modified"):
                notes.setdefault("caller_modified", []).append("transformer(%s input): %s" % (name, "; ".join(r["caller_modified"])))
            w = [fl(h) for h in r["w"]]
            tag = "transformer(%s input)" % name
            if any(x != x for x in w):
                msg = "%s: learned weights are NaN: %r" % (tag, w)
                (known if degenerate else bad).append(msg)
                continue
            if any((not math.isfinite(x)) or x < 0 for x in w):
                bad.append("%s: learned weights are not finite non-negative numbers: %r" % (tag, w))
                continue
            if r["w_after_transform"] != r["w"]:
                bad.append("%s: transform changed the learned weights" % tag)
            raw = raw_weights(case, res, 12 if name == "dup" else 0)
            if raw is not None and not degenerate:
                fd = finish_definition([fl(h) for h in raw], p)
                if any(not close(a, d, TOL["rel"], TOL["abs"]) for a, d in zip(w, fd)):
                    bad.append("%s: learned weights %r differ from (information_weight / mean, clamped at 0, ** %r) = %r" % (tag, w, p, fd))
            X, Z = [[fl(h) for h in row] for row in r["x"]], [[fl(h) for h in row] for row in r["z"]]
            TX, TZ, CB = ([[fl(h) for h in row] for row in r[k]] for k in ("tx", "tz", "comb"))
            a, b = float.fromhex(case["lin"][0]), float.fromhex(case["lin"][1])
            for (A, TA, nm) in ((X, TX, "X"), (Z, TZ, "Z")):
                for i, row in enumerate(A):
                    for j, x in enumerate(row):
                        y = TA[i][j]
                        if x == 0 and y != 0:
                            bad.append("%s: transform(%s)[%d,%d] = %r where the input is 0" % (tag, nm, i, j, y))
                        elif not close(y, x * w[j], TOL["transform_rel"], 0.0):
                            bad.append("%s: transform(%s)[%d,%d] = %r, input * weight = %r" % (tag, nm, i, j, y, x * w[j]))
            # histories: after every refit of the same object, transform still scales by the CURRENT learned weights
            for h in r.get("history", []):
                if "err" in h:
                    continue        # what a refit accepts is not part of the claim
                w2 = [fl(x) for x in h["w"]]
                if any((x != x) or not math.isfinite(x) for x in w2):
                    continue        # degenerate refit (known finding stream)
                T2 = [[fl(x) for x in row] for row in h["tx"]]
                for i, row in enumerate(X):
                    for j, x in enumerate(row):
                        if not close(T2[i][j], x * w2[j], TOL["transform_rel"], 0.0):
                            bad.append("%s: after %s, transform(X)[%d,%d] = %r but input * current weight = %r"
                                       % (tag, h["mode"], i, j, T2[i][j], x * w2[j]))
            for i in range(len(X)):
                for j in range(len(X[0])):
                    exp = a * TX[i][j] + b * TZ[i][j]
                    scale = abs(a * TX[i][j]) + abs(b * TZ[i][j])
                    if abs(CB[i][j] - exp) > TOL["linear_rel"] * scale + 1e-300:
                        bad.append("%s: transform(aX+bZ)[%d,%d] = %r, a*transform(X)+b*transform(Z) = %r" % (tag, i, j, CB[i][j], exp))
    return bad, known, notes


# ------------------------------------------------------------------ correspondence

def correspondence(case, res, m, notes):
    bad = []
    if "err" in res:
        return bad
    pairs = [("exact_csc", 1, "exact"), ("exact_unsorted", 4, "exact"), ("exact_explicit_zeros", 6, "exact"), ("approx", 1, "approx"),
             ("exact_csr_dup", 10, "exact"), ("exact_csc_dup_explicit_zeros", 12, "exact"), ("approx_csc_dup", 11, "approx")]
    for key, e, which in pairs:
        if key not in m:
            continue
        w = vec(res["enc"][e][which])
        if isinstance(w, dict):
            bad.append("%s: impl raised %s, model %r" % (key, w["err"], m[key]))
            continue
        for j, (a, d) in enumerate(zip(w, m[key])):
            if d is None or not close(a, d, TOL["rel"], TOL["abs"]):
                bad.append("%s column %d: impl %r, model %r" % (key, j, a, d))
    t = res["transformer"]
    if "err" not in t and not notes.get("degenerate"):
        w = [fl(h) for h in t["sparse"]["w"]]
        if any(not close(a, d, TOL["rel"], TOL["abs"]) for a, d in zip(w, m["finished"])):
            bad.append("finished weights: impl %r, model %r" % (w, m["finished"]))
    return bad


LN_POINTS = [1e-300, 3.3e-12, 1e-5, 0.1, 0.5, 0.9999999, 1.0, 1.0000001, 2.0, 10.0, 12345.678, 1e40]
EXP_POINTS = [-700.0, -30.25, -1.0, -1e-9, 0.0, 1e-9, 0.3, 1.0, 10.5, 700.0]


def check_transcendentals(ctx):
    vals = C.coq_eval("C17tr", HEADER, ["out (f_ln %s)" % fcoq(hexf(p)) for p in LN_POINTS] + ["out (f_exp %s)" % fcoq(hexf(p)) for p in EXP_POINTS])
    worst = 0.0
    refs = [math.log(p) for p in LN_POINTS] + [math.exp(p) for p in EXP_POINTS]
    for v, ref in zip(vals, refs):
        got = sf2float(v)
        worst = max(worst, abs(got - ref) / abs(ref) if ref != 0 else abs(got))
    ctx.coverage["model_ln_exp_vs_libm_max_rel_err"] = worst
    if worst > 1e-14:
        ctx.report("Model/K12_Float.f_ln / Model/K13_Float.f_exp deviate from libm by %.3g (relative)" % worst,
                   {"stage": "correspondence", "correspondence": "f_ln, f_exp <-> math.log, math.exp"}, found_input=False)


def kind_of(c):
    return "%s:%s:%dx%d%s" % (c["shape"], c["values"], min(c["n"], 3), min(c["m"], 3), ":approx" if c["approx"] else "")


def run(ctx, replay=None):
    C.run_gate(ctx)
    ncases = 220 if ctx.quick else 1800
    cases = [replay["case"]] if replay else [gen_case(ctx.rng) for _ in range(ncases)]
    ctx.coverage["rule"] = ("seeded random non-negative count matrices (1-7 rows, 1-5 columns; small integers, floats over 6 decades, counts up to 1e6; random, rank-1, "
                            "empty row+column, single non-empty cell), each in 16 encodings (canonical CSR / CSC, shuffled COO, COO with duplicate coordinates, CSC and CSR with "
                            "unsorted indices, CSC and CSR with explicit zeros + unsorted, LIL, ndarray; CSR / CSC / COO storing a coordinate 2-4 times: unsorted, sorted-but-not-canonical, "
                            "combined with explicit zeros incl. repeated zeros and a zero on top of a value), random prior_strength / weight_power / approx flag, a row and a column "
                            "permutation, a second matrix and two scalars for linearity; non-trivial = every case; distinct by case hash")
    ctx.coverage["tolerances"] = TOL
    ctx.assumptions += [
        "real-number theorems are tied to the binary64 implementation by running the same model in PrimFloat (vm_compute) under 1e-9 relative + 1e-12 absolute",
        "ln / exp / pow of the executed model are Gallina series (Model/K12_Float.v, Model/K13_Float.v), checked against libm on every run",
        "finished (mean-normalised) weights are only compared when some column carries information (max raw weight >= 1e-9): otherwise the mean is rounding noise",
        "supervised weights (target=...) are not modelled; the approximate prior is modelled and compared on the canonical encoding only (it counts stored entries)",
        "duplicate (row, column) entries denote the sum of the stored values (scipy's meaning); float parts may sum to the generated value only to 1 ulp, far inside the tolerance",
        "every information_weight / fit call is made on the caller's own object and its arrays are compared bytewise before/after (the C13 guarantee kept by the duplicate-entry repair)"]
    out, info = C.run_impl("c17", {"cases": cases})
    results = (out or {}).get("results", [])
    if out is None or len(results) != len(cases):
        done = len(results)
        ctx.report("implementation child died (rc=%s) on case %d: %s" % (info["rc"], done, info["tail"][-400:]),
                   {"stage": "impl-crash", "case": cases[done] if done < len(cases) else None}, found_input=True)
        results = results + [{"err": "crash"}] * (len(cases) - done)
    check_transcendentals(ctx)
    models = [model_value(v) for v in C.coq_eval_sharded("C17", HEADER, [coq_case(c, r) for c, r in zip(cases, results)], 60)]
    n_corr, corr_bad, n_bad, n_deg, n_dup, n_mut = 0, [], 0, 0, 0, 0
    for c, r, m in zip(cases, results, models):
        ctx.count_case(c, nontrivial=True, kind=kind_of(c))
        bad, known, notes = oracle(c, r)
        n_deg += bool(notes.get("degenerate"))
        n_dup += bool(sum(c.get("n_dup_coords", [0])))
        if known:
            ctx.report("; ".join(known[:3]), {"stage": "oracle", "case": c, "failures": known[:10]}, finding_key="transformer-zero-mean-weights")
        if bad:
            n_bad += 1
            ctx.report("property fails on the implementation: " + "; ".join(bad[:4]),
                       {"stage": "oracle", "case": c, "failures": bad[:12], "actual": r})
            continue
        if notes.get("caller_modified"):
            # not part of C17's statement (it is C13's): reported without claiming a C17-level failing input
            n_mut += 1
            ctx.report("information_weight / InformationWeightTransformer.fit changed the caller's matrix in place (property C13): "
                       + " | ".join(notes["caller_modified"][:3]),
                       {"stage": "caller-data", "case": c, "modified": notes["caller_modified"][:10]}, found_input=False)
        n_corr += 1
        cb = correspondence(c, r, m, notes)
        if cb:
            corr_bad.append((c, r, cb))
    ctx.coverage["correspondence"] = {"cases": n_corr, "disagreements": len(corr_bad),
                                      "model": "Model/K13_InfoWeight.v over Model/K12_Float.v + Model/K13_Float.v (binary64) via vm_compute"}
    ctx.coverage["oracle"] = {"cases": len(cases), "failing": n_bad, "zero_information_matrices": n_deg, "cases_with_duplicate_coordinates": n_dup,
                              "cases_where_the_callers_matrix_was_modified": n_mut}
    ctx.coverage["traces_validated_against_impl"] = n_corr
    if corr_bad and not any(v["found_input"] for v in ctx.violations):
        c, r, cb = corr_bad[0]
        ctx.report("model K13 and implementation disagree (no property-level failure found): " + "; ".join(cb[:4]),
                   {"stage": "correspondence", "correspondence": "Model/K13_InfoWeight.v <-> vectorizers/transformers/info_weight.py",
                    "case": c, "disagreements": cb[:10], "actual": r}, found_input=False)
    C.gate_violation(ctx)
    return ctx.finish("proof")
