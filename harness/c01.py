"""C01 — transform returns one row per input item in the fitted column space.
Proof gate: Properties/C01*.v (assembly / shape theorems of the modelled vectorizers).  Search: every row-producing
vectorizer of the zoo, fitted with random parameters, transform applied to a SECOND input X2 that contains unseen
tokens / labels / characters / phrases, empty items and values outside the training range; oracle = the property text:
no exception, one row per item (one per fitted vocabulary entry for the co-occurrence family), fitted width,
unseen vocabulary ignored (transform(X2) == transform(X2 with unseen tokens deleted) when no mask is configured)."""
import glob
import os
from . import common as C
from . import zoo_common as Z

ROW_PRODUCING = ["NgramVectorizer", "SkipgramVectorizer", "EdgeListVectorizer", "LZCompressionVectorizer",
                 "BytePairEncodingVectorizer", "HistogramVectorizer", "KDEVectorizer", "DistributionVectorizer",
                 "WassersteinVectorizer", "SinkhornVectorizer", "ApproximateWassersteinVectorizer",
                 "TokenCooccurrenceVectorizer", "TimedTokenCooccurrenceVectorizer", "MultiSetCooccurrenceVectorizer",
                 "NgramCooccurrenceVectorizer", "LabelledTreeCooccurrenceVectorizer"]


def shape_of(c):
    if c["kind"] in ("sparse", "dense"):
        return c["shape"]
    return [len(c["items"])]


def check_record(ctx, name, seed, r):
    ft, tx = r.get("fit_transform"), r.get("transform_x2")
    case = {"stage": "oracle", "case": [name, seed], "params": r.get("params")}
    if r.get("harness_error"):
        ctx.report("harness error on %s/%d: %s %s" % (name, seed, r.get("err"), r.get("msg")), dict(case, result=r), found_input=False)
        return
    if Z.is_err(ft):
        ctx.dist("fit_raised:" + name)
        return
    if Z.is_err(tx):
        ctx.report("%s(%s).transform(X') raised %s: %s" % (name, r.get("params"), tx["err"], tx["msg"]), dict(case, result=tx))
        return
    sf, st = shape_of(ft), shape_of(tx)
    if r["rowwise"]:
        if st[0] != r["n_x2"]:
            ctx.report("%s: transform returned %d rows for %d items" % (name, st[0], r["n_x2"]), dict(case, shapes=[sf, st]))
            return
    elif st[0] != sf[0]:
        ctx.report("%s: transform returned %d rows, fitted model has %d" % (name, st[0], sf[0]), dict(case, shapes=[sf, st]))
        return
    if len(sf) > 1 and (len(st) < 2 or st[1] != sf[1]):
        ctx.report("%s: transform width %s differs from the fitted width %s" % (name, st[1:], sf[1:]), dict(case, shapes=[sf, st]))
        return
    singles = r.get("transform_singles")
    if singles is not None:
        if Z.is_err(singles):
            ctx.report("%s: transform of a single item raised %s: %s" % (name, singles["err"], singles["msg"]), dict(case, result=singles))
            return
        for i, one in enumerate(singles):
            row = None
            if tx["kind"] == "sparse":
                row = {"kind": "sparse", "shape": [1, tx["shape"][1]], "triples": [[0, j, v] for (ii, j, v) in tx["triples"] if ii == i]}
            elif tx["kind"] == "dense" and len(tx["shape"]) == 2:
                w = tx["shape"][1]
                row = {"kind": "dense", "shape": [1, w], "data": tx["data"][i * w:(i + 1) * w]}
            elif tx["kind"] == "list":
                row = {"kind": "list", "items": [tx["items"][i]]}
            if row is None:
                continue
            d = Z.diff(row, one, r["exact"], max(r["rtol"], 1e-6))
            if d:
                ctx.report("%s: row %d of transform(X') differs from transform([X'[%d]]): %s" % (name, i, i, d),
                           dict(case, batch_row=str(row)[:300], single=str(one)[:300]))
                return
    ts = r.get("transform_stripped")
    if ts is not None:
        d = Z.diff(tx, ts, r["exact"], r["rtol"])
        if d:
            ctx.report("%s: unseen tokens are not ignored: transform(X') != transform(X' without unseen tokens): %s" % (name, d),
                       dict(case, transform=str(tx)[:400], stripped=str(ts)[:400]))


def run(ctx, replay=None):
    extra = sorted(os.path.basename(p)[:-2] for p in glob.glob(os.path.join(C.COQ, "theories", "Properties", "C01_*.v")))
    C.run_gate(ctx, extra_props=extra)
    per = 3 if ctx.quick else 30
    groups = [[tuple(replay["case"])]] if replay else Z.make_groups(ctx, per, only=ROW_PRODUCING, light_factor=2)
    results = Z.run_groups(groups)
    ctx.coverage["rule"] = ("zoo case = (estimator, seed): random parameters, training input X and a second input X' with unseen "
                            "vocabulary / empty items / out-of-range values; non-trivial = transform(X') returned >= 1 row")
    for g, (res, info) in zip(groups, results):
        res = res or []
        if len(res) != len(g):
            ctx.report("implementation child died (rc=%s) on case %s: %s" % (info["rc"], g[len(res)], info["tail"][-500:]),
                       {"stage": "impl-crash", "case": list(g[len(res)])}, found_input=True)
        for (name, seed), r in zip(g, res):
            ctx.count_case([name, seed], nontrivial=not Z.is_err(r.get("transform_x2", {"err": 1})), kind=name)
            check_record(ctx, name, seed, r)
    # per-vectorizer model-level checks contributed with their kernels
    try:
        from . import c06
        if hasattr(c06, "c01_cases_and_check"):
            c06.c01_cases_and_check(ctx)
    except ImportError:
        pass
    C.gate_violation(ctx)
    return ctx.finish("proof")
