"""C01 — transform returns one row per input item in the fitted column space.
Proof gate: Properties/C01*.v (assembly / shape theorems of the modelled vectorizers).  Search: every row-producing
vectorizer of the zoo, fitted with random parameters, transform applied to a SECOND input X2 that contains unseen
tokens / labels / characters / phrases, empty items and values outside the training range; oracle = the property text:
no exception, one row per item (one per fitted vocabulary entry for the co-occurrence family), fitted width,
unseen vocabulary ignored (transform(X2) == transform(X2 with unseen tokens deleted) when no mask is configured).
For the co-occurrence family and NgramVectorizer (Properties/C01_cooc.v, C01_ngram_mask.v) a second stream walks the
enumerated mask x pruning grid of the zoo for every driver (harness/impl/c01_cooc.py): fitted shape from the fitted
dictionaries, unseen tokens deleted / replaced by the mask string give the same matrix, a corpus of unseen tokens only
gives the zero matrix.
For the numeric estimators (Properties/C01_numeric_rows.v) a third stream (harness/impl/c01_numeric.py) fits each of
WassersteinVectorizer (LOT_exact with spmatrix / lil / generator input, LOT_sinkhorn, HeuristicLinearAlgebra),
SinkhornVectorizer and ApproximateWassersteinVectorizer once and transforms X' of 1..11 items under a sweep of block
sizes (memory_size) and chunk sizes on both sides of every divisibility case: no exception, exactly len(X') rows of the
fitted width, every row closest to its own un-blocked row (input order), LOT_exact rows equal to them at 1e-9."""
import glob
import os
from . import common as C
from . import zoo_common as Z

ROW_PRODUCING = ["NgramVectorizer", "SkipgramVectorizer", "EdgeListVectorizer", "LZCompressionVectorizer",
                 "BytePairEncodingVectorizer", "HistogramVectorizer", "KDEVectorizer", "DistributionVectorizer",
                 "WassersteinVectorizer", "SinkhornVectorizer", "ApproximateWassersteinVectorizer",
                 "TokenCooccurrenceVectorizer", "TimedTokenCooccurrenceVectorizer", "MultiSetCooccurrenceVectorizer",
                 "NgramCooccurrenceVectorizer", "LabelledTreeCooccurrenceVectorizer"]


def shape_of(c):
    if c["kind"] in ("sparse", "dense"):
        return c["shape"]
    return [len(c["items"])]


def check_record(ctx, name, seed, r):
    ft, tx = r.get("fit_transform"), r.get("transform_x2")
    case = {"stage": "oracle", "case": [name, seed], "params": r.get("params")}
    if r.get("harness_error"):
        ctx.report("harness error on %s/%d: %s %s" % (name, seed, r.get("err"), r.get("msg")), dict(case, result=r), found_input=False)
        return
    if Z.is_err(ft):
        ctx.dist("fit_raised:" + name)
        return
    if Z.is_err(tx):
        ctx.report("%s(%s).transform(X') raised %s: %s" % (name, r.get("params"), tx["err"], tx["msg"]), dict(case, result=tx))
        return
    sf, st = shape_of(ft), shape_of(tx)
    if r["rowwise"]:
        if st[0] != r["n_x2"]:
            ctx.report("%s: transform returned %d rows for %d items" % (name, st[0], r["n_x2"]), dict(case, shapes=[sf, st]))
            return
    elif st[0] != sf[0]:
        ctx.report("%s: transform returned %d rows, fitted model has %d" % (name, st[0], sf[0]), dict(case, shapes=[sf, st]))
        return
    if len(sf) > 1 and (len(st) < 2 or st[1] != sf[1]):
        ctx.report("%s: transform width %s differs from the fitted width %s" % (name, st[1:], sf[1:]), dict(case, shapes=[sf, st]))
        return
    singles = r.get("transform_singles")
    if singles is not None:
        if Z.is_err(singles):
            ctx.report("%s: transform of a single item raised %s: %s" % (name, singles["err"], singles["msg"]), dict(case, result=singles))
            return
        for i, one in enumerate(singles):
            row = None
            if tx["kind"] == "sparse":
                row = {"kind": "sparse", "shape": [1, tx["shape"][1]], "triples": [[0, j, v] for (ii, j, v) in tx["triples"] if ii == i]}
            elif tx["kind"] == "dense" and len(tx["shape"]) == 2:
                w = tx["shape"][1]
                row = {"kind": "dense", "shape": [1, w], "data": tx["data"][i * w:(i + 1) * w]}
            elif tx["kind"] == "list":
                row = {"kind": "list", "items": [tx["items"][i]]}
            if row is None:
                continue
            d = Z.diff(row, one, r["exact"], max(r["rtol"], 1e-6))
            if d:
                ctx.report("%s: row %d of transform(X') differs from transform([X'[%d]]): %s" % (name, i, i, d),
                           dict(case, batch_row=str(row)[:300], single=str(one)[:300]))
                return
    ts = r.get("transform_stripped")
    if ts is not None:
        d = Z.diff(tx, ts, r["exact"], r["rtol"])
        if d:
            ctx.report("%s: unseen tokens are not ignored: transform(X') != transform(X' without unseen tokens): %s" % (name, d),
                       dict(case, transform=str(tx)[:400], stripped=str(ts)[:400]))


COOC = ["TokenCooccurrenceVectorizer", "TimedTokenCooccurrenceVectorizer", "MultiSetCooccurrenceVectorizer",
        "NgramCooccurrenceVectorizer"]
# harness/impl/zoo.py enumerates mask setting x pruning on 12 consecutive seeds per co-occurrence driver (x 6 (n_iter,
# epsilon) settings on 72), and size x behaviour x mask setting x pruning of NgramVectorizer on 36
COOC_GRID, COOC_EM, NGRAM_GRID = 12, 6, 36


def check_cooc_record(ctx, name, seed, r, interp):
    """Properties/C01_cooc.v / C01_ngram_mask.v evaluated on the implementation (harness/impl/c01_cooc.py)."""
    case = {"stage": "oracle-cooc", "case": [name, seed], "params": r.get("params"),
            "mode": "NUMBA_DISABLE_JIT=1" if interp else "compiled"}
    if r.get("harness_error"):
        ctx.report("harness error on %s/%d: %s %s" % (name, seed, r.get("err"), r.get("msg")), dict(case, result=r), found_input=False)
        return False
    ft, tx = r.get("fit_transform"), r.get("transform_x2")
    if Z.is_err(ft):
        ctx.dist("fit_raised:" + name)
        return False
    if Z.is_err(tx):
        ctx.report("%s(%s).transform(X') raised %s: %s" % (name, r.get("params"), tx["err"], tx["msg"]), dict(case, result=tx))
        return True
    masked = "mask_string" in (r.get("params") or {})
    if name == "NgramVectorizer":
        def want(n_items):
            return [n_items, r["n_columns"]]
    else:
        rows = r.get("n_rows_fitted", r["n_dict"])
        def want(n_items):
            return [rows, r["n_dict"] * r["n_blocks"]]
        if r["n_columns"] != r["n_dict"] * r["n_blocks"]:
            ctx.report("%s: column_label_dictionary_ has %d entries for %d tokens x %d blocks" % (name, r["n_columns"], r["n_dict"], r["n_blocks"]), case)
            return True
    if ft["shape"][1] != want(0)[1]:
        ctx.report("%s: fitted matrix has %d columns, the fitted dictionaries give %d" % (name, ft["shape"][1], want(0)[1]), case)
        return True
    if masked and not r.get("mask_is_last"):
        ctx.report("%s(%s): the mask entry is not the last entry of the fitted dictionary" % (name, r.get("params")), case)
        return True
    if tx["shape"] != want(r["n_items"]):
        ctx.report("%s(%s): transform(X') has shape %s, the fitted space is %s" % (name, r.get("params"), tx["shape"], want(r["n_items"])),
                   dict(case, fitted_shape=ft["shape"]))
        return True
    tv = r.get("transform_variant")
    if tv is not None:
        d = Z.diff(tx, tv, r["exact"], r["rtol"])
        if d:
            ctx.report("%s(%s): transform(X') != transform(X' with the %s): %s" % (name, r.get("params"), r["variant"], d),
                       dict(case, transform=str(tx)[:400], variant=str(tv)[:400]))
            return True
        ctx.dist("cooc-variant:" + ("masked" if masked else "deleted"))
    else:
        ctx.dist("cooc-variant-skipped")
    tu = r.get("transform_all_unseen")
    if Z.is_err(tu):
        ctx.report("%s(%s).transform(unseen tokens only) raised %s: %s" % (name, r.get("params"), tu["err"], tu["msg"]), dict(case, result=tu))
        return True
    if tu["shape"] != want(r.get("n_items_all_unseen", 0)):
        ctx.report("%s(%s): transform(unseen tokens only) has shape %s, the fitted space is %s" % (
            name, r.get("params"), tu["shape"], want(r.get("n_items_all_unseen", 0))), case)
        return True
    if not masked and tu["triples"]:
        ctx.report("%s(%s): a corpus of unseen tokens only produced non-zero cells %s" % (name, r.get("params"), tu["triples"][:5]), case)
    return True


def run_cooc(ctx, replay_case=None):
    """The co-occurrence family and NgramVectorizer over the enumerated grid: all cases interpreted
    (NUMBA_DISABLE_JIT=1, python semantics of the same source), a prefix of each driver's walk also compiled."""
    if replay_case is not None:
        groups = [([tuple(replay_case["case"])], replay_case.get("mode") != "compiled")]
    else:
        n_int = COOC_GRID * 3 if ctx.quick else COOC_GRID * COOC_EM * 3
        # compiled co-occurrence cases of the quick tier are those of the zoo stream above (3 per driver, same oracle for
        # shape and deleted tokens); the thorough tier adds a compiled prefix of this walk
        n_jit = 0 if ctx.quick else 24
        bases = {n: 1000 * ctx.rng.randrange(1000) for n in COOC + ["NgramVectorizer"]}
        groups = [([(n, bases[n] + i) for i in range(n_int)], True) for n in COOC]
        groups += [([(n, bases[n] + i) for i in range(n_jit)], False) for n in COOC if n_jit]
        groups += [([("NgramVectorizer", bases["NgramVectorizer"] + i) for i in range(NGRAM_GRID * (1 if ctx.quick else 4))], False)]
    from concurrent.futures import ThreadPoolExecutor
    with ThreadPoolExecutor(max_workers=10) as ex:
        futs = [ex.submit(C.run_impl, "c01_cooc", [list(c) for c in g], {"NUMBA_DISABLE_JIT": "1"} if interp else None, 2400)
                for g, interp in groups]
        results = [f.result() for f in futs]
    return groups, results


def judge_cooc(ctx, groups, results):
    compiled = set(c for g, interp in groups if not interp for c in g)
    for (g, interp), (res, info) in zip(groups, results):
        res = res or []
        if len(res) != len(g):
            ctx.report("implementation child died (rc=%s) on case %s: %s" % (info["rc"], g[len(res)], info["tail"][-500:]),
                       {"stage": "impl-crash", "case": list(g[len(res)])}, found_input=True)
        ctx.coverage["oracle"].setdefault("cooc_child_wall_s", []).append([g[0][0], "interpreted" if interp else "compiled", info.get("wall_s")])
        for (name, seed), r in zip(g, res):
            if interp and (name, seed) in compiled:
                continue
            p = r.get("params") or {}
            kind = "cooc-grid:%s mask=%s nullify=%s prune=%s%s" % (
                name, "mask_string" in p, p.get("nullify_mask") == "True",
                "+".join(sorted(q for q in p if "occurrences" in q or "unique" in q)) or "none",
                " (NUMBA_DISABLE_JIT=1)" if interp else "")
            nontrivial = check_cooc_record(ctx, name, seed, r, interp)
            ctx.count_case(["cooc", name, seed], nontrivial=bool(nontrivial and r.get("n_unseen_tokens")), kind=kind)


NUMERIC = [["W_exact_spmatrix", "W_sinkhorn_spmatrix", "Sinkhorn", "W_heuristic", "Approx"], ["W_exact_lil", "W_exact_generator"]]
NUMERIC_TOL = {"exact_rel": 1e-9, "exact_abs": 1e-12}


def numeric_cases(ctx):
    out = []
    for grp in NUMERIC:
        g = []
        for seed in [ctx.rng.randrange(10 ** 6) for _ in range(1 if ctx.quick else 4)]:
            for e in grp:
                sweep = [[n2, b, ch] for n2 in (1, 2, 3, 4, 5, 7, 8, 9, 11) for b in (1, 2, 3, 4, 100)
                         for ch in ((1, 2, 3, 32) if "inkhorn" in e else (None,))]
                g.append({"est": e, "seed": seed, "n_components": ctx.rng.choice([2, 4, 5]), "sweep": sweep})
        out.append(g)
    return out


def run_numeric(ctx, groups):
    from concurrent.futures import ThreadPoolExecutor
    with ThreadPoolExecutor(max_workers=len(groups)) as ex:
        futs = [ex.submit(C.run_impl, "c01_numeric", g, None, 1500) for g in groups]
        return [f.result() for f in futs]


def judge_numeric(ctx, groups, results):
    n_calls = 0
    for g, (res, info) in zip(groups, results):
        res = res or []
        if len(res) != len(g):
            ctx.report("implementation child died (rc=%s) on case %s: %s" % (info["rc"], g[len(res)]["est"], info["tail"][-500:]),
                       {"stage": "impl-crash", "case": g[len(res)]}, found_input=True)
        for c, r in zip(g, res):
            ctx.count_case(["numeric", c["est"], c["seed"], c["n_components"]], nontrivial="ok" in r, kind="numeric-rows:" + c["est"])
            if "ok" not in r:
                ctx.report("%s: fit raised %s: %s" % (c["est"], r.get("err"), r.get("msg")),
                           {"stage": "oracle-numeric", "case": c, "result": r}, found_input=True)
                continue
            w = r["ok"]["width"]
            exact = "inkhorn" not in c["est"]
            for call in r["ok"]["calls"]:
                n_calls += 1
                what = "%s.transform(%d items, block_size=%s, chunk_size=%s)" % (c["est"], call["n2"], call["block"], call["chunk"])
                rep = {"stage": "oracle-numeric", "case": dict(c, sweep=[[call["n2"], call["block"], call["chunk"]]]), "call": call}
                if "err" in call:
                    ctx.report("%s raised %s: %s" % (what, call["err"], call["msg"]), rep, found_input=True)
                elif call["shape"] != [call["n2"], w]:
                    ctx.report("%s returned shape %s, expected (%d items, fitted width %d)" % (what, call["shape"], call["n2"], w), rep, found_input=True)
                elif call.get("own_row_closest") is False:
                    ctx.report("%s: rows are not in input order (a row is closer to another item's un-blocked row)" % what, rep, found_input=True)
                elif exact and call.get("max_abs_diff", 0.0) > NUMERIC_TOL["exact_abs"] + NUMERIC_TOL["exact_rel"] * call.get("scale", 0.0):
                    ctx.report("%s: rows differ from the un-blocked transform of the same items by %.3g" % (what, call["max_abs_diff"]), rep, found_input=True)
                else:
                    continue
                break
    ctx.coverage["oracle"]["numeric_rows_calls"] = n_calls
    ctx.coverage["oracle"]["numeric_rows_tolerance"] = NUMERIC_TOL


def run(ctx, replay=None):
    extra = sorted(os.path.basename(p)[:-2] for p in glob.glob(os.path.join(C.COQ, "theories", "Properties", "C01_*.v")))
    C.run_gate(ctx, extra_props=extra)
    per = 3 if ctx.quick else 30
    cooc_replay = replay if (replay and replay.get("stage") == "oracle-cooc") else None
    if cooc_replay:
        judge_cooc(ctx, *run_cooc(ctx, cooc_replay))
        C.gate_violation(ctx)
        return ctx.finish("proof")
    if replay and replay.get("stage") == "oracle-numeric":
        ctx.coverage.setdefault("oracle", {})
        groups = [[replay["case"]]]
        judge_numeric(ctx, groups, run_numeric(ctx, groups))
        C.gate_violation(ctx)
        return ctx.finish("proof")
    groups = [[tuple(replay["case"])]] if replay else Z.make_groups(ctx, per, only=ROW_PRODUCING, light_factor=2)
    from concurrent.futures import ThreadPoolExecutor
    num_groups = None if replay else numeric_cases(ctx)
    with ThreadPoolExecutor(max_workers=3) as ex:
        f_cooc = None if replay else ex.submit(run_cooc, ctx)
        f_num = None if replay else ex.submit(run_numeric, ctx, num_groups)
        results = Z.run_groups(groups)
        cooc = f_cooc.result() if f_cooc else None
        num = f_num.result() if f_num else None
    ctx.coverage["rule"] = ("zoo case = (estimator, seed): random parameters, training input X and a second input X' with unseen "
                            "vocabulary / empty items / out-of-range values; non-trivial = transform(X') returned >= 1 row")
    for g, (res, info) in zip(groups, results):
        res = res or []
        if len(res) != len(g):
            ctx.report("implementation child died (rc=%s) on case %s: %s" % (info["rc"], g[len(res)], info["tail"][-500:]),
                       {"stage": "impl-crash", "case": list(g[len(res)])}, found_input=True)
        for (name, seed), r in zip(g, res):
            ctx.count_case([name, seed], nontrivial=not Z.is_err(r.get("transform_x2", {"err": 1})), kind=name)
            check_record(ctx, name, seed, r)
    if cooc:
        judge_cooc(ctx, *cooc)
    if num:
        judge_numeric(ctx, num_groups, num)
    # per-vectorizer model-level checks contributed with their kernels
    try:
        from . import c06
        if hasattr(c06, "c01_cases_and_check"):
            c06.c01_cases_and_check(ctx)
    except ImportError:
        pass
    C.gate_violation(ctx)
    return ctx.finish("proof")
