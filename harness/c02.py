"""C02 — fit_transform(X) equals fit(X).transform(X), and fit returns the estimator.
Proof gate: Properties/C02.v (SVD round trip, projection, CFC scaling; the BPE / LZ / vocabulary halves are proved
with their kernels in C09 / C16 / C05).  Search: every estimator of the zoo x random non-default parameter settings,
fit_transform(X) vs fit(X).transform(X) on deep copies of the same data, `fit(X) is est`."""
from concurrent.futures import ThreadPoolExecutor
from . import common as C

ESTIMATORS = ["TokenCooccurrenceVectorizer", "TimedTokenCooccurrenceVectorizer", "MultiSetCooccurrenceVectorizer",
              "NgramCooccurrenceVectorizer", "LabelledTreeCooccurrenceVectorizer", "NgramVectorizer", "SkipgramVectorizer",
              "EdgeListVectorizer", "LZCompressionVectorizer", "BytePairEncodingVectorizer", "HistogramVectorizer",
              "KDEVectorizer", "DistributionVectorizer", "WassersteinVectorizer", "SinkhornVectorizer",
              "ApproximateWassersteinVectorizer", "InformationWeightTransformer", "RowDenoisingTransformer",
              "CountFeatureCompressionTransformer", "SlidingWindowTransformer", "SequentialDifferenceTransformer"]
# groups sharing numba compilation, one child process each
GROUPS = [["TokenCooccurrenceVectorizer"], ["TimedTokenCooccurrenceVectorizer"], ["MultiSetCooccurrenceVectorizer"],
          ["NgramCooccurrenceVectorizer"], ["LabelledTreeCooccurrenceVectorizer", "EdgeListVectorizer", "HistogramVectorizer"],
          ["NgramVectorizer", "SkipgramVectorizer", "KDEVectorizer", "DistributionVectorizer"],
          ["LZCompressionVectorizer", "BytePairEncodingVectorizer", "InformationWeightTransformer", "RowDenoisingTransformer"],
          ["WassersteinVectorizer"], ["SinkhornVectorizer", "ApproximateWassersteinVectorizer"],
          ["CountFeatureCompressionTransformer", "SlidingWindowTransformer", "SequentialDifferenceTransformer"]]


def run(ctx, replay=None):
    import glob
    import os
    extra = sorted(os.path.basename(p)[:-2] for p in glob.glob(os.path.join(C.COQ, "theories", "Properties", "C02_*.v")))
    C.run_gate(ctx, extra_props=extra)
    per = 2 if ctx.quick else 25
    if replay:
        groups = [[tuple(replay["case"])]]
    else:
        heavy = {"TokenCooccurrenceVectorizer", "TimedTokenCooccurrenceVectorizer", "MultiSetCooccurrenceVectorizer",
                 "NgramCooccurrenceVectorizer", "DistributionVectorizer"}
        groups = [[(n, base + i) for n in g for base in [1000 * ctx.rng.randrange(1000)]
                   for i in range(per if n in heavy else 3 * per)] for g in GROUPS]
    with ThreadPoolExecutor(max_workers=10) as ex:
        futs = [ex.submit(C.run_impl, "c02", [list(c) for c in g], None, 2400) for g in groups]
        results = [f.result() for f in futs]
    ctx.coverage["rule"] = ("zoo case = (estimator, seed) -> random non-default parameters and small valid training data; "
                            "non-trivial = both paths returned an output with at least one non-zero entry / item")
    ctx.assumptions += ["outputs compared exactly for count / encoding outputs, 1e-5..1e-9 relative for float outputs "
                        "(float32 accumulation, SVD) as set per estimator in harness/impl/zoo.py",
                        "SVD clause: zoo picks n_components >= rank of the uncompressed representation",
                        "inputs are deep-copied per call so that C13 side effects cannot masquerade as C02 failures"]
    for g, (res, info) in zip(groups, results):
        res = res or []
        if len(res) != len(g):
            ctx.report("implementation child died (rc=%s) on case %s: %s" % (info["rc"], g[len(res)], info["tail"][-500:]),
                       {"stage": "impl-crash", "case": list(g[len(res)])}, found_input=True)
        for (name, seed), r in zip(g, res):
            ok = not r.get("err") and not r.get("diff") and r.get("fit_returns_self") and not r.get("refit_diff")
            ctx.count_case([name, seed], nontrivial=bool(r.get("nnz")), kind=name)
            if ok:
                continue
            if r.get("err"):
                what = "%s(seed %d, %s): %s: %s" % (name, seed, r.get("params"), r["err"], r.get("msg"))
            elif not r.get("fit_returns_self"):
                what = "%s.fit(X) does not return the estimator" % name
            elif not r.get("diff"):
                what = ("%s(seed %d, %s): an estimator that was fitted and used before gives different results after "
                        "refitting on X than a fresh one: %s" % (name, seed, r.get("params"), r["refit_diff"]))
            else:
                what = "%s(seed %d, %s): fit_transform(X) != fit(X).transform(X): %s" % (name, seed, r.get("params"), r["diff"])
            ctx.report(what, {"stage": "oracle", "case": [name, seed], "result": r})
    ctx.coverage["oracle"] = {"estimators": len(ESTIMATORS), "cases_per_estimator": per}
    C.gate_violation(ctx)
    return ctx.finish("proof")
