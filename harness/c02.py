"""C02 — fit_transform(X) equals fit(X).transform(X), and fit returns the estimator.
Proof gate: Properties/C02.v (SVD round trip, projection, CFC scaling), C02_two_paths.v (BPE, LZ), C02_cooc.v (the three
hand-duplicated pipelines of the co-occurrence family: re-indexing with the learned dictionary is idempotent in delete
and mask mode, hence fit_transform = fit = transform on the training data for every driver, pruning, kernel and EM
setting) and C02_ngram_vectorizer.v (NgramVectorizer with mask_string / nullify_mask / pruning).
Correspondence: harness/c02_model.py evaluates the Coq models of NgramVectorizer and TokenCooccurrenceVectorizer
(Model/K02_TwoPathsExec.v) and compares them with every code path of the implementation.
Search: every estimator of the zoo x parameter settings (the discrete ones enumerated on consecutive seeds, see
harness/impl/zoo.py grid()), fit_transform(X) vs fit(X).transform(X) on deep copies of the same data, `fit(X) is est`."""
from concurrent.futures import ThreadPoolExecutor
from . import common as C
from . import c02_model

ESTIMATORS = ["TokenCooccurrenceVectorizer", "TimedTokenCooccurrenceVectorizer", "MultiSetCooccurrenceVectorizer",
              "NgramCooccurrenceVectorizer", "LabelledTreeCooccurrenceVectorizer", "NgramVectorizer", "SkipgramVectorizer",
              "EdgeListVectorizer", "LZCompressionVectorizer", "BytePairEncodingVectorizer", "HistogramVectorizer",
              "KDEVectorizer", "DistributionVectorizer", "WassersteinVectorizer", "SinkhornVectorizer",
              "ApproximateWassersteinVectorizer", "InformationWeightTransformer", "RowDenoisingTransformer",
              "CountFeatureCompressionTransformer", "SlidingWindowTransformer", "SequentialDifferenceTransformer"]
# groups sharing numba compilation, one child process each
GROUPS = [["TokenCooccurrenceVectorizer"], ["TimedTokenCooccurrenceVectorizer"], ["MultiSetCooccurrenceVectorizer"],
          ["NgramCooccurrenceVectorizer"], ["LabelledTreeCooccurrenceVectorizer", "EdgeListVectorizer", "HistogramVectorizer"],
          ["NgramVectorizer", "SkipgramVectorizer", "KDEVectorizer", "DistributionVectorizer"],
          ["LZCompressionVectorizer", "BytePairEncodingVectorizer", "InformationWeightTransformer", "RowDenoisingTransformer"],
          ["WassersteinVectorizer"], ["SinkhornVectorizer", "ApproximateWassersteinVectorizer"],
          ["CountFeatureCompressionTransformer", "SlidingWindowTransformer", "SequentialDifferenceTransformer"]]
# sizes of the enumerated grids of harness/impl/zoo.py (COOC_GRID: mask setting x pruning, per driver; NGRAM_GRID:
# size x behaviour x mask setting x pruning): that many CONSECUTIVE seeds cover the grid, whatever the first seed is
COOC = {"TokenCooccurrenceVectorizer", "TimedTokenCooccurrenceVectorizer", "MultiSetCooccurrenceVectorizer",
        "NgramCooccurrenceVectorizer"}
COOC_GRID, COOC_EM, NGRAM_GRID = 12, 6, 36


def n_cases(name, quick):
    """Cases run with the compiled kernels (a fresh numba specialisation per co-occurrence case: 5-15 s each)."""
    per = 2 if quick else 25
    if name == "NgramVectorizer":
        return NGRAM_GRID if quick else 3 * NGRAM_GRID
    return per if name in COOC or name == "DistributionVectorizer" else 3 * per


def n_interpreted(quick):
    """Per co-occurrence driver, run under NUMBA_DISABLE_JIT=1 (python semantics of the same source, ms per case):
    the full mask x pruning x (n_iter, epsilon) product."""
    return COOC_GRID * COOC_EM * (1 if quick else 3)


def run(ctx, replay=None):
    import glob
    import os
    extra = sorted(os.path.basename(p)[:-2] for p in glob.glob(os.path.join(C.COQ, "theories", "Properties", "C02_*.v")))
    C.run_gate(ctx, extra_props=extra)
    model_only = None
    if replay and isinstance(replay.get("case"), dict):
        model_only, groups = replay["case"], []
    elif replay:
        groups = [[tuple(replay["case"])]]
    else:
        groups = [[(n, base + i) for n in g for base in [1000 * ctx.rng.randrange(1000)]
                   for i in range(n_cases(n, ctx.quick))] for g in GROUPS]
        # the interpreted grid walk starts at the first compiled seed of the driver (so the compiled cases are a prefix)
        groups += [[(g[0][0], g[0][1] + i) for i in range(n_interpreted(ctx.quick))] for g in groups[:4]]
    n_compiled_groups = len(GROUPS) if not replay else len(groups)
    with ThreadPoolExecutor(max_workers=16) as ex:
        futs = [ex.submit(C.run_impl, "c02", [list(c) for c in g], None if k < n_compiled_groups else {"NUMBA_DISABLE_JIT": "1"}, 2400)
                for k, g in enumerate(groups)]
        if model_only is not None or not replay:
            f_model = ex.submit(c02_model.run, ctx, 96 if ctx.quick else 480, 54 if ctx.quick else 270, model_only)
            _, deferred = f_model.result()
        else:
            deferred = None
        results = [f.result() for f in futs]
    if deferred:
        deferred.emit(ctx, "oracle")       # property-level failures of the model cases first
    ctx.coverage["rule"] = ("zoo case = (estimator, seed) -> parameters (discrete ones enumerated on consecutive seeds) and small "
                            "valid training data; model case = seeded parameters + integer-token corpora evaluated in Coq and on "
                            "the implementation; non-trivial = the paths returned an output with at least one non-zero entry / item")
    ctx.assumptions += ["outputs compared exactly for count / encoding outputs, 1e-5..1e-9 relative for float outputs "
                        "(float32 accumulation, SVD) as set per estimator in harness/impl/zoo.py",
                        "SVD clause: zoo picks n_components >= rank of the uncompressed representation",
                        "inputs are deep-copied per call so that C13 side effects cannot masquerade as C02 failures",
                        "when fit_transform(X) and fit(X) raise the same exception class (e.g. ValueError: every token pruned) "
                        "the two paths agree; the case is counted as trivial",
                        "model correspondence: integer tokens and an integer mask 'string'; fixed windows, n_iter = 0, "
                        "epsilon = 0 for the co-occurrence model (K04's EM is tied to the code under C10)"]
    grid_seen = {}
    compiled_seen = set(c for g in groups[:n_compiled_groups] for c in g)
    for gi, (g, (res, info)) in enumerate(zip(groups, results)):
        res = res or []
        if len(res) != len(g):
            ctx.report("implementation child died (rc=%s) on case %s: %s" % (info["rc"], g[len(res)], info["tail"][-500:]),
                       {"stage": "impl-crash", "case": list(g[len(res)])}, found_input=True)
        interp = gi >= n_compiled_groups
        ctx.coverage["oracle"].setdefault("child_wall_s", {})[g[0][0] + (" (interpreted)" if interp else "")] = info.get("wall_s")
        for (name, seed), r in zip(g, res):
            if interp and (name, seed) in compiled_seen:
                continue            # already judged with the compiled kernels
            ok = (not r.get("err") and not r.get("diff") and r.get("fit_returns_self") and not r.get("refit_diff")
                  and not r.get("same_object_diff"))
            ctx.count_case([name, seed], nontrivial=bool(r.get("nnz")), kind=name + (" (NUMBA_DISABLE_JIT=1)" if interp else ""))
            if name in COOC or name == "NgramVectorizer":
                p = r.get("params", {})
                key = "%s mask=%s nullify=%s prune=%s" % (name, "mask_string" in p, p.get("nullify_mask") == "True",
                                                          "+".join(sorted(q for q in p if "occurrences" in q or "unique" in q)) or "none")
                grid_seen[key] = grid_seen.get(key, 0) + 1
            if ok or r.get("both_raise"):
                if r.get("both_raise"):
                    ctx.dist("both_paths_raise:%s:%s" % (name, r["both_raise"]))
                continue
            if r.get("err"):
                what = "%s(seed %d, %s): %s: %s" % (name, seed, r.get("params"), r["err"], r.get("msg"))
            elif not r.get("fit_returns_self"):
                what = "%s.fit(X) does not return the estimator" % name
            elif not r.get("diff") and r.get("same_object_diff"):
                what = ("%s(seed %d, %s): fit(X).transform(X) with one input object for both calls differs from "
                        "fit_transform(X): %s" % (name, seed, r.get("params"), r["same_object_diff"]))
            elif not r.get("diff"):
                what = ("%s(seed %d, %s): an estimator that was fitted and used before gives different results after "
                        "refitting on X than a fresh one: %s" % (name, seed, r.get("params"), r["refit_diff"]))
            else:
                what = "%s(seed %d, %s): fit_transform(X) != fit(X).transform(X): %s" % (name, seed, r.get("params"), r["diff"])
            ctx.report(what, {"stage": "oracle", "case": [name, seed], "result": r})
    if deferred:
        deferred.emit(ctx, "corr")         # model/implementation differences last (no failing input of the property)
    ctx.coverage["oracle"].update({"estimators": len(ESTIMATORS),
                                   "cases_per_estimator": {n: n_cases(n, ctx.quick) for n in ESTIMATORS},
                                   "interpreted_cases_per_cooccurrence_driver": n_interpreted(ctx.quick),
                                   "mask_x_pruning_grid": grid_seen})
    C.gate_violation(ctx)
    return ctx.finish("proof")
