"""C16 — LZ compression rows count each string's own parse phrases.
Proof gate (Properties/C16.v) + correspondence of Model/K9_LZ.v with LZCompressionVectorizer (un-hashed and hashed, the
murmur hash recomputed bit-exactly by the model) + property oracle (an independent character-by-character parse)."""
import itertools
from . import common as C

HEADER = """From Coq Require Import ZArith List.
From VZ Require Import Model.K9_LZ.
Import ListNotations.
Open Scope Z_scope.
Fixpoint all_strings_len (alpha : list Z) (n : nat) : list (list Z) :=
  match n with O => [[]] | S n' => flat_map (fun c => map (cons c) (all_strings_len alpha n')) alpha end.
Definition all_strings (alpha : list Z) (n : nat) : list (list Z) := flat_map (all_strings_len alpha) (seq 0 (S n)).
Definition idh (p : list Z) := p.
Definition plain_case CAP BASE X XN :=
  match lz_fit_transform_plain CAP BASE X with
  | LzValueError => None
  | LzOk (cols, m) => Some (cols, m, lz_transform list_eqb idh cols BASE CAP X, lz_transform list_eqb idh cols BASE CAP XN)
  end.
Definition hashed_case CAP MC SEED BASE X XN :=
  match lz_fit_transform_hashed CAP MC SEED BASE X with
  | LzValueError => None
  | LzOk (cols, m) => Some (cols, m, lz_transform Z.eqb (lz_hash MC SEED) cols BASE CAP X,
                            lz_transform Z.eqb (lz_hash MC SEED) cols BASE CAP XN)
  end.
"""


def all_strings(alpha, n):
    return [list(t) for k in range(n + 1) for t in itertools.product(alpha, repeat=k)]


def expand(case):
    return all_strings(case["alpha"], case["maxlen"]) if case.get("alpha") else case["Xnew"]


def kv_plain(items):
    return "[" + "; ".join("(%s, %s)" % (C.coq_list(k), C.z(v)) for k, v in items) + "]"


def kv_int(items):
    return "[" + "; ".join("(%s, %s)" % (C.z(k), C.z(v)) for k, v in items) + "]"


def coq_exprs(case, r):
    """one or two model expressions (plain / hashed) for a case"""
    X = C.coq_list2(case["X"])
    XN = "(all_strings %s %d%%nat)" % (C.coq_list(case["alpha"]), case["maxlen"]) if case.get("alpha") else C.coq_list2(case["Xnew"])
    out = {}
    if r is None:
        return out
    if "plain" in r:
        out["plain"] = "plain_case %s %s %s %s" % (C.z(case["cap"]), kv_plain(case["base"]), X, XN)
    if "hashed" in r:
        out["hashed"] = "hashed_case %s %s %s %s %s %s" % (C.z(case["cap"]), C.z(case["max_columns"]), C.z(r["seed"]),
                                                        kv_int(r.get("base_h", [])), X, XN)
    return out


# ------------------------------------------------------------------ the property's statement, in Python
def parse(s, base_items, cap, key):
    """the LZ parse told character by character (no indices, no slices): dictionary label -> count in insertion order,
    number of dropped queries, the phrases queried"""
    d = {}
    for k, v in base_items:
        d[k] = v
    size, cur, drops, queried = len(d), [], 0, []
    for c in s:
        p = tuple(cur)
        g = key(p)
        queried.append(p)
        if g in d:
            d[g] += 1
            cur.append(c)
        elif size >= cap:
            drops += 1
            cur = [c]
        else:
            d[g] = 1
            size += 1
            cur = [c]
    return d, drops, queried


def canon(row):
    return sorted([int(j), v] for j, v in row if v != 0)


def oracle_variant(case, v, Xn, key, base_items, label_of, name):
    """v: the implementation's results for one estimator; key: phrase -> label; base_items in label space."""
    bad = []
    for k, x in v.items():
        if isinstance(x, dict) and "err" in x:
            bad.append(("%s/%s raised %s: %s" % (name, k, x["err"], x.get("msg", "")[:120]), None))
    if bad:
        return bad
    cols = {}
    for k, j in v["columns"]:
        cols[label_of(k)] = j
    ncols = len(cols)
    if sorted(cols.values()) != list(range(ncols)) or len(v["columns"]) != ncols:
        bad.append(("%s: column_label_dictionary_ is not a numbering 0..n-1 of distinct labels: %r" % (name, v["columns"][:10]), None))
        return bad
    cap = case["cap"]
    base_total = sum(c for _, c in base_items)

    def expect(s, require_all):
        d, drops, _ = parse(s, base_items, cap, key)
        missing = [g for g in d if g not in cols]
        row = sorted([cols[g], n] for g, n in d.items() if g in cols and n != 0)
        return row, d, drops, missing

    ft, tt = v["fit_transform"]["ok"], v["transform_train"]["ok"]
    if ft["shape"] != [len(case["X"]), ncols]:
        bad.append(("%s: fit_transform shape %r, expected %r" % (name, ft["shape"], [len(case["X"]), ncols]), None))
    for i, s in enumerate(case["X"]):
        row, d, drops, missing = expect(s, True)
        got = canon(ft["rows"][i]) if i < len(ft["rows"]) else None
        if missing:
            bad.append(("%s: fit_transform gave no column to phrase label(s) %r of string %r" % (name, missing[:3], s), None))
        elif got != row:
            bad.append(("%s: fit_transform row of %r is %r, its parse counts are %r" % (name, s, got, row), None))
        elif len(d) < cap and sum(n for _, n in got) != len(s) + base_total:
            bad.append(("%s: row total %d of %r != length + base counts = %d although the cap was not reached"
                        % (name, sum(n for _, n in got), s, len(s) + base_total), None))
    if [canon(r) for r in tt["rows"]] != [canon(r) for r in ft["rows"]] or tt["shape"] != ft["shape"]:
        bad.append(("%s: transform(training strings) differs from fit_transform: a phrase changed column" % name, None))
    if Xn:
        tn = v["transform_new"]["ok"]
        if tn["shape"] != [len(Xn), ncols]:
            bad.append(("%s: transform shape %r, expected %r" % (name, tn["shape"], [len(Xn), ncols]), None))
        for i, s in enumerate(Xn):
            row, d, drops, missing = expect(s, False)
            got = canon(tn["rows"][i]) if i < len(tn["rows"]) else None
            if got != row:
                bad.append(("%s: transform row of %r is %r, its parse counts (known phrases) are %r" % (name, s, got, row), i))
        rev = v["transform_new_reversed"]["ok"]
        if [canon(r) for r in rev["rows"]] != [canon(r) for r in tn["rows"]][::-1]:
            bad.append(("%s: transform of the reversed list is not the reversed rows: a row depends on its neighbours" % name, None))
        single = v["transform_new_single"]["ok"]
        if [canon(r) for r in single] != [canon(r) for r in tn["rows"][:len(single)]]:
            bad.append(("%s: transform([s]) differs from the row of s inside a batch" % name, None))
    return bad


def oracle(case, r, Xn):
    bad = []
    base_u = [(tuple(p), c) for p, c in case["base"]]
    if "plain" in r:
        bad += oracle_variant(case, r["plain"], Xn, lambda p: p, base_u, lambda k: tuple(k), "max_columns=None")
    if "hashed" in r:
        hv = r["hashed"]
        if any(isinstance(x, dict) and "err" in x for x in hv.values()):
            return bad + oracle_variant(case, hv, Xn, None, [], None, "max_columns=%d" % case["max_columns"])
        H = {tuple(p): x for p, x in hv["hashes"]}
        mc = case["max_columns"]
        base_h = [(k, c) for k, c in r.get("base_h", [])]
        bad += oracle_variant(case, hv, Xn, lambda p: H[p], base_h, lambda k: k, "max_columns=%d" % mc)
        labels = [k for k, _ in hv["columns"]]
        if len(labels) > mc:      # the label range [0, max_columns) itself is left to the model correspondence
            bad.append(("max_columns=%d but %d columns are used, labels %r" % (mc, len(labels), labels[:12]), None))
        if "plain" in r and not bad:
            # relabelling: only when the hash is injective on every phrase the un-hashed parses query and the base keys
            pv = r["plain"]
            Q = set(p for p, _ in base_u)
            for s in case["X"]:
                Q |= set(parse(s, base_u, case["cap"], lambda p: p)[2])
            inj = len({H[p] for p in Q}) == len(Q)
            if inj:
                inv_p = {j: H[tuple(k)] for k, j in pv["columns"]}
                inv_h = {j: k for k, j in hv["columns"]}
                for i, s in enumerate(case["X"]):
                    a = sorted([inv_p[j], n] for j, n in canon(pv["fit_transform"]["ok"]["rows"][i]))
                    b = sorted([inv_h[j], n] for j, n in canon(hv["fit_transform"]["ok"]["rows"][i]))
                    if a != b:
                        bad.append(("hashed row of %r is not the un-hashed row relabelled although the hash is injective on the "
                                    "phrases: %r vs %r" % (s, b, a), None))
            # row totals are the same under the hash whenever neither parse reached the cap
            for i, s in enumerate(case["X"]):
                du, _, _ = parse(s, base_u, case["cap"], lambda p: p)
                dh, _, _ = parse(s, base_h, case["cap"], lambda p: H[p])
                tu = sum(n for _, n in canon(pv["fit_transform"]["ok"]["rows"][i]))
                th = sum(n for _, n in canon(hv["fit_transform"]["ok"]["rows"][i]))
                if len(du) < case["cap"] and len(dh) < case["cap"] and sum(c for _, c in base_u) == sum(c for _, c in base_h) and tu != th:
                    bad.append(("row total of %r changes under hashing: %d vs %d" % (s, th, tu), None))
            return bad, inj
    return bad


# ------------------------------------------------------------------ generators
ALPHAS = [[97, 98], [97, 98, 99], [97], [97, 233, 20013], [128512, 97, 98], [0, 1, 2], [120, 121, 122, 32]]
LENS = [0, 0, 1, 1, 2, 3, 4, 5, 6, 8, 10, 14, 20]
CAPS = [2, 3, 5, 8, 65536, 65536]
MCS = [2, 3, 8, 65536]


def gen_string(rng, alpha):
    n = rng.choice(LENS)
    r = rng.random()
    if r < 0.4:
        return [rng.choice(alpha) for _ in range(n)]
    if r < 0.75:
        motif = [rng.choice(alpha) for _ in range(rng.randint(1, 3))]
        return (motif * (n // len(motif) + 1))[:n]
    return [rng.choice(alpha)] * n


def gen_case(rng):
    alpha = rng.choice(ALPHAS)
    X = [gen_string(rng, alpha) for _ in range(rng.randint(0, 5) if rng.random() < 0.1 else rng.randint(1, 5))]
    pool = alpha + [rng.choice([99, 122, 48, 233, 20013, 128512, 1114111, 0])]
    Xn = [gen_string(rng, pool if rng.random() < 0.6 else alpha) for _ in range(rng.randint(1, 5))]
    if rng.random() < 0.4:
        Xn += [[], [rng.choice(pool)]]
    base = []
    if rng.random() < 0.35:
        keys = []
        for _ in range(rng.randint(1, 4)):
            k = [rng.choice(alpha) for _ in range(rng.choice([0, 1, 1, 2, 3]))]
            if k not in keys:
                keys.append(k)
        base = [[k, rng.choice([1, 1, 2, 5, 0])] for k in keys]
    cap = rng.choice(CAPS)
    if base and rng.random() < 0.5:
        cap = max(cap, len(base) + rng.choice([0, 1, 2]))
    return {"kind": "lz", "X": X, "Xnew": Xn, "cap": cap, "max_columns": rng.choice(MCS) if rng.random() < 0.4 else None, "base": base,
            "seed": rng.randint(0, 10 ** 6), "prehistory": rng.random() < 0.5}


def gen_invalid(rng):
    c = gen_case(rng)
    if rng.random() < 0.5:
        c["cap"] = rng.choice([0, 1, -3])
    else:
        c["max_columns"] = rng.choice([0, 1, -2])
    c["kind"] = "invalid"
    c["base"] = []
    return c


CORPUS = [
    # D4: unseen phrases at transform
    {"kind": "lz", "X": [[97, 98] * 4, [97, 98, 99] * 2], "Xnew": [[120, 121, 122] * 2, [97, 98, 97, 98], [], [97]],
     "cap": 65536, "max_columns": None, "base": [], "seed": 0},
    {"kind": "lz", "X": [[97, 98] * 4, [97, 98, 99] * 2, [], [97]], "Xnew": [[120, 121, 122] * 2, [97, 98, 97, 98]],
     "cap": 65536, "max_columns": 8, "base": [], "seed": 3},
    {"kind": "lz", "X": [[97, 98] * 4, [97, 98, 99] * 2], "Xnew": [[97] * 9], "cap": 2, "max_columns": None, "base": [], "seed": 0},
    {"kind": "lz", "X": [[97, 98, 97, 98], [98]], "Xnew": [[113]], "cap": 65536, "max_columns": None,
     "base": [[[97], 1], [[98], 2], [[122, 122], 0]], "seed": 0},
    {"kind": "lz", "X": [[97, 98, 97, 98], [98]], "Xnew": [[113], [97, 97, 97]], "cap": 4, "max_columns": 3,
     "base": [[[97], 1], [[98], 2]], "seed": 11},
    {"kind": "lz", "X": [[], []], "Xnew": [[97, 98]], "cap": 65536, "max_columns": None, "base": [], "seed": 0},
]


def exhaustive_cases(rng, maxlen):
    abc = [97, 98, 99]
    out = [
        {"X": [[97, 98] * 4, [97, 98, 99] * 2, [99, 99, 98, 97]], "cap": 65536, "max_columns": None, "base": []},
        {"X": [[97, 98, 99, 97, 98, 99, 98, 97]], "cap": 3, "max_columns": None, "base": []},
        {"X": [[97, 98] * 4, [97, 98, 99] * 2, [99, 99, 98, 97]], "cap": 65536, "max_columns": 8, "base": []},
        {"X": [[97, 98] * 4, [99, 97, 99]], "cap": 5, "max_columns": 3, "base": [[[97], 2]]},
        {"X": all_strings(abc, 4), "cap": 65536, "max_columns": None, "base": []},
    ]
    for c in out:
        c.update({"kind": "lz", "Xnew": [], "alpha": abc, "maxlen": maxlen, "seed": rng.randint(0, 999), "twin": False})
    return out


# ------------------------------------------------------------------ comparison with the model
def impl_mat(v):
    if "ok" not in v:
        return {"err": v.get("err")}
    return {"shape": v["ok"]["shape"], "rows": [canon(r) for r in v["ok"]["rows"]]}


def model_mat(m):
    n, w, rows = m
    return {"shape": [n, w], "rows": [canon(r) for r in rows]}


def correspondence(case, v, m, hashed, has_new):
    diffs = []
    impl_ok = "ok" in v.get("fit_transform", {})
    if m is None or not impl_ok:
        if (m is None) != (not impl_ok):
            diffs.append(("fit_transform validity", v.get("fit_transform"), m))
        return diffs
    _, (cols, mfit, mtx, mtn) = m
    cols_m = [[k if hashed else list(k), j] for k, j in cols]
    for name, a, b in [("column_label_dictionary_", v["columns"], cols_m),
                       ("fit_transform", impl_mat(v["fit_transform"]), model_mat(mfit)),
                       ("transform(train)", impl_mat(v["transform_train"]), model_mat(mtx))] + \
            ([("transform(new)", impl_mat(v["transform_new"]), model_mat(mtn))] if has_new else []):
        if a != b:
            diffs.append((name, a, b))
    return diffs


def payload_of(cases):
    return [dict(c, Xnew=expand(c)) if c.get("alpha") else c for c in cases]


def staggered(k, *args):
    """common.run_impl names its scratch files by pid and millisecond: concurrent calls must not start together"""
    import time
    time.sleep(0.3 * k)
    return C.run_impl(*args)


def strip(r):
    if isinstance(r, dict):
        return {k: strip(v) for k, v in r.items() if k not in ("tb", "msg")}
    if isinstance(r, list):
        return [strip(x) for x in r]
    return r


def shrink_to(case, i):
    c = dict(case)
    if i is not None:
        c["Xnew"] = [expand(case)[i]]
    elif c.get("alpha"):
        c["Xnew"] = []
    c.pop("alpha", None)
    c.pop("maxlen", None)
    return c


def run(ctx, replay=None):
    from concurrent.futures import ThreadPoolExecutor
    C.run_gate(ctx)
    if replay:
        cases = [replay["case"]]
        exh = [c for c in cases if c.get("alpha")]
    else:
        # every hashed fit builds a fresh numba closure (about 1 s of compilation each): this bounds the case count
        n_rand, n_inv = (160, 8) if ctx.quick else (1000, 30)
        exh = exhaustive_cases(ctx.rng, 7 if ctx.quick else 9)
        cases = CORPUS + exh + [gen_case(ctx.rng) for _ in range(n_rand)] + [gen_invalid(ctx.rng) for _ in range(n_inv)]
    ctx.coverage["rule"] = ("lz: random corpus x max_dict_size (caps small enough to be hit) x max_columns in {None,2,3,8,65536} x "
                            "base_dictionary x random_state x new strings with unseen phrases; hashed cases also run the un-hashed "
                            "twin; exhaustive: transform of ALL strings over a 3-letter alphabet up to the length bound for 5 fitted "
                            "models; invalid: max_dict_size/max_columns <= 1 must raise. non-trivial = some phrase counted twice")
    ctx.assumptions += [
        "random_state is an integer (None draws an unreproducible seed); max_columns < 2^31; code points, no surrogates",
        "with max_columns set, base_dictionary is given in hashed key space (the harness hashes the phrase keys with make_hash)",
    ]
    payload = payload_of(cases)
    small = [c for c in cases if not c.get("alpha")]
    plain_only = small          # since the D28 repair the hashed estimator also runs interpreted
    with ThreadPoolExecutor(max_workers=3) as ex:
        f_jit = ex.submit(staggered, 0, "c16", payload)
        f_bc = ex.submit(staggered, 1, "c16", small, {"NUMBA_BOUNDSCHECK": "1"})
        f_py = ex.submit(staggered, 2, "c16", plain_only, {"NUMBA_DISABLE_JIT": "1"})
        (impl, info), (ibc, info_bc), (ipy, info_py) = f_jit.result(), f_bc.result(), f_py.result()
    if impl is None or len(impl) != len(cases):
        done = len(impl) if impl else 0
        ctx.report("implementation child died (rc=%s) on case %d: %s" % (info["rc"], done, info["tail"][-400:]),
                   {"stage": "impl-crash", "case": cases[min(done, len(cases) - 1)]}, found_input=True)
        impl = (impl or []) + [None] * (len(cases) - done)
    ctx.coverage["modes"] = {"compiled": len(cases), "NUMBA_BOUNDSCHECK=1": len(ibc or []), "NUMBA_DISABLE_JIT=1": len(ipy or [])}
    import time
    t_coq = time.time()
    exprs, where = [], []
    for k, (c, r) in enumerate(zip(cases, impl)):
        if r is None or "err" in r:
            continue
        for variant, e in coq_exprs(c, r).items():
            exprs.append(e)
            where.append((k, variant))
    vals = C.coq_eval_sharded("C16", HEADER, exprs, shard=50)
    model = {}
    for (k, variant), v in zip(where, vals):
        model[(k, variant)] = v
    ctx.coverage["wall_s"] = {"compiled": info["wall_s"], "NUMBA_BOUNDSCHECK=1": info_bc["wall_s"],
                              "NUMBA_DISABLE_JIT=1": info_py["wall_s"], "coq_model": round(time.time() - t_coq, 1)}
    n_corr = n_or = n_rel = n_strings = 0
    corr_bad = []
    for k, (c, r) in enumerate(zip(cases, impl)):
        if r is None:
            continue
        if "err" in r:
            ctx.report("implementation failed on a valid case: %s" % str(r)[:300], {"stage": "oracle", "case": shrink_to(c, None)})
            continue
        Xn = expand(c)
        if c["kind"] == "invalid":
            ctx.count_case(c, nontrivial=False, kind="invalid")
            for variant in ("plain", "hashed"):
                if variant in r and "ok" in r[variant]["fit_transform"] and model.get((k, variant)) is None and \
                        (c["cap"] <= 1 or (variant == "hashed" and c["max_columns"] <= 1)):
                    corr_bad.append((c, [("invalid parameters accepted", r[variant]["fit_transform"], None)]))
            continue
        res = oracle(c, r, Xn)
        bad, inj = res if isinstance(res, tuple) else (res, None)
        n_or += 1
        n_rel += bool(inj)
        n_strings += len(Xn) + len(c["X"])
        rows = (r.get("plain") or r.get("hashed") or {}).get("fit_transform", {}).get("ok", {}).get("rows", [])
        kind = "lz:%s:cap%s:%s%s" % ("hashed%s" % c["max_columns"] if c["max_columns"] else "plain", c["cap"] if c["cap"] < 100 else "big",
                                    "base" if c["base"] else "nobase", ":exh" if c.get("alpha") else "")
        ctx.count_case({k2: v for k2, v in c.items() if k2 != "X" or len(v) < 50}, nontrivial=any(n > 1 for row in rows for _, n in row), kind=kind)
        if c.get("alpha"):
            ctx.coverage["evaluations"] += len(Xn)
            ctx.dist("exh:strings", len(Xn))
        else:
            for s in c["X"] + Xn:
                ctx.dist("len%d" % min(len(s), 3) + ("+" if len(s) >= 3 else ""))
            if inj is not None:
                ctx.dist("hash injective on phrases" if inj else "hash collides on phrases")
        for what, i in bad[:2]:
            ctx.report(what, {"stage": "oracle", "case": shrink_to(c, i)})
        if bad:
            continue
        for variant in ("plain", "hashed"):
            if variant in r:
                n_corr += 1
                d = correspondence(c, r[variant], model.get((k, variant)), variant == "hashed", bool(Xn))
                if d:
                    corr_bad.append((c, d))
    # other execution modes: identical result inherits the verdict, a different one is judged by the oracle on its own
    mode_diffs = 0
    ref = {id(c): r for c, r in zip(cases, impl)}
    for name, lst, other, inf in (("NUMBA_BOUNDSCHECK=1", small, ibc, info_bc), ("NUMBA_DISABLE_JIT=1", plain_only, ipy, info_py)):
        if other is None or len(other) != len(lst):
            done = len(other) if other else 0
            if lst:
                ctx.report("%s child died (rc=%s) on case %d: %s" % (name, inf["rc"], done, inf["tail"][-400:]),
                           {"stage": "impl-crash", "mode": name, "case": lst[min(done, len(lst) - 1)]}, found_input=True)
            continue
        for c, ro in zip(lst, other):
            rj = ref.get(id(c))
            if c["kind"] == "invalid" or rj is None or strip(rj) == strip(ro):
                continue
            mode_diffs += 1
            if "err" in ro:
                ctx.report("[%s] implementation failed on a valid case: %s" % (name, str(ro)[:300]), {"stage": "oracle", "mode": name, "case": c})
                continue
            res = oracle(c, ro, expand(c))
            for what, i in (res[0] if isinstance(res, tuple) else res)[:1]:
                ctx.report("[%s] %s" % (name, what), {"stage": "oracle", "mode": name, "case": shrink_to(c, i)})
    ctx.coverage["mode_differences_not_violating"] = mode_diffs
    ctx.coverage["correspondence"] = {"cases": n_corr, "disagreements": len(corr_bad), "model": "Model/K9_LZ.v via vm_compute",
                                      "exhaustive": True, "exhaustive_bound": "transform of all strings over 3 letters up to length %d, %d fitted models"
                                      % (exh[0]["maxlen"] if exh else 0, len(exh))}
    ctx.coverage["oracle"] = {"cases": n_or, "strings": n_strings, "relabel_checked (hash injective)": n_rel}
    ctx.coverage["traces_validated_against_impl"] = n_corr
    if corr_bad and not any(v["found_input"] for v in ctx.violations):
        c, d = corr_bad[0]
        ctx.report("model K9_LZ and implementation disagree (no property-level failure found) on %s: impl %s, model %s"
                   % (d[0][0], str(d[0][1])[:300], str(d[0][2])[:300]),
                   {"stage": "correspondence", "correspondence": "Model/K9_LZ.v <-> mixed_gram_vectorizer.py (LZ)",
                    "case": shrink_to(c, None) if not c.get("alpha") else c, "field": d[0][0]}, found_input=False)
    C.gate_violation(ctx)
    return ctx.finish("proof")
