"""C18 — distances are finite, symmetric, zero on proportional inputs; sparse = dense.
Proof gate (Properties/C18.v) + correspondence of Model/K11_SparseVec.v (exact, Z) and Model/K12_Dist.v (binary64
PrimFloat inside vm_compute; ln = the series of Model/K12_Float.v, itself compared with libm on every run) with
vectorizers/distances.py + property oracle evaluated directly on the implementation's return values."""
import math
import struct
from . import common as C

HEADER_F = """From Coq Require Import ZArith List PrimFloat.
From VZ Require Import Model.K11_SparseVec Model.K12_Dist Model.K12_Float.
Import ListNotations.
Open Scope float_scope.
"""
HEADER_Z = """From Coq Require Import ZArith List.
From VZ Require Import Model.K11_SparseVec.
Import ListNotations.
Open Scope Z_scope.
"""
DENSE = ["hellinger", "total_variation", "kantorovich1", "kantorovich2", "jensen_shannon", "symmetric_kl"]
DENSE_COQ = ["hellinger", "total_variation", "kantorovich1d_p1", "kantorovich1d_p2", "jensen_shannon_divergence",
             "symmetric_kl_divergence"]
SPARSE = ["hellinger", "total_variation", "jensen_shannon", "symmetric_kl"]
SPARSE_COQ = ["sparse_hellinger", "sparse_total_variation", "sparse_jensen_shannon_divergence",
              "sparse_symmetric_kl_divergence"]
METRIC = ["hellinger", "total_variation", "kantorovich1", "kantorovich2"]       # triangle inequality claimed
UNIT = ["hellinger", "total_variation"]                                          # range [0, 1] claimed

# tolerances (stated in evidence)
TOL = {"dense_rel": 1e-9, "dense_abs": 1e-12, "f32_abs": 2e-5, "f32_rel": 2e-5, "prop_zero": 1e-6,
       "nonneg_slack": 1e-12, "triangle_slack": 1e-9, "triangle_slack_hellinger": 1e-7,
       "sparse_vs_dense_hellinger_sq": 1e-5, "sparse_vs_dense_abs": 2e-5, "sparse_vs_dense_rel": 2e-5}


# ------------------------------------------------------------------ numbers

def f32(v):
    return struct.unpack("f", struct.pack("f", v))[0]


def unhex(h):
    if isinstance(h, dict):
        return h
    if h == "nan":
        return float("nan")
    if h in ("inf", "-inf"):
        return float(h)
    return float.fromhex(h)


def sf2float(v):
    """spec_float printed by Coq -> Python float"""
    name = v[0].split(".")[-1]
    if name == "S754_zero":
        return -0.0 if v[1] else 0.0
    if name == "S754_nan":
        return float("nan")
    if name == "S754_infinity":
        return float("-inf") if v[1] else float("inf")
    assert name == "S754_finite", v
    x = math.ldexp(v[2], v[3])
    return -x if v[1] else x


def fcoq(h):
    return h if not h.startswith("-") else "(%s)" % h


def flist(hs):
    return "[" + "; ".join(fcoq(h) for h in hs) + "]"


def zlist(xs):
    return C.coq_list(xs) + "%Z"


# ------------------------------------------------------------------ generators

def gen_vec(rng, dim, scale_exp, density, wide, as32):
    v = []
    for _ in range(dim):
        if rng.random() < density:
            m = rng.uniform(0.05, 1.0) * (10.0 ** rng.uniform(-8, 0) if wide else 1.0)
            x = m * 10.0 ** scale_exp
            v.append(f32(x) if as32 else x)
        else:
            v.append(0.0)
    if not any(a > 0 for a in v):
        x = 0.5 * 10.0 ** scale_exp
        v[rng.randrange(dim)] = f32(x) if as32 else x
    return v


def gen_encodings(rng, vecs):
    dim = len(vecs[0])
    zeros = [i for i in range(dim) if any(v[i] == 0 for v in vecs)]
    ez = sorted(rng.sample(zeros, rng.randint(1, len(zeros)))) if zeros and rng.random() < 0.8 else []
    encs = [["int32", "float32", []], ["int64", "float32", ez], ["int32", "float64", ez if rng.random() < 0.5 else []]]
    return encs


def rand_dim(rng):
    return rng.choice([1, 1, 2, 2, 3, 4, 5, 8, 16, 31, 32, 33, 63, 64, rng.randint(1, 64), rng.randint(1, 64)])


def rand_scale(rng):
    return rng.choice([-30, -30, -20, -11, -6, 0, 0, 0, 5, 19, 30, 30, rng.uniform(-30, 30), rng.uniform(-30, 30)])


def gen_vectors_case(rng):
    fam = rng.choice(["random", "random", "proportional", "proportional", "prop_pow2", "disjoint", "single",
                      "equal", "triple", "triple", "triple_prop"])
    dim = rand_dim(rng)
    as32 = rng.random() < 0.6
    wide = rng.random() < 0.3
    dens = rng.choice([1.0, 0.7, 0.4, 0.15])
    prop = []
    x = gen_vec(rng, dim, rand_scale(rng), dens, wide, as32)
    if fam == "random":
        vecs = [x, gen_vec(rng, dim, rand_scale(rng), rng.choice([1.0, 0.7, 0.4]), wide, as32)]
    elif fam == "proportional":
        c = rng.uniform(1, 10) * 10.0 ** rng.uniform(-6, 6)
        as32 = False                      # c * x is rounded to binary64 only (a float32 rounding is not "proportional")
        x = gen_vec(rng, dim, rng.uniform(-24, 24), dens, wide, False)
        vecs, prop = [x, [c * a for a in x]], [[0, 1]]
    elif fam == "prop_pow2":
        k = rng.randint(-20, 20)
        x = gen_vec(rng, dim, rng.uniform(-24, 24), dens, wide, as32)
        vecs, prop = [x, [math.ldexp(a, k) for a in x]], [[0, 1]]
    elif fam == "disjoint":
        dim = max(dim, 2)
        x = gen_vec(rng, dim, rand_scale(rng), 1.0, wide, as32)
        y = gen_vec(rng, dim, rand_scale(rng), 1.0, wide, as32)
        cut = rng.sample(range(dim), rng.randint(1, dim - 1))
        vecs = [[a if i in cut else 0.0 for i, a in enumerate(x)], [0.0 if i in cut else a for i, a in enumerate(y)]]
    elif fam == "single":
        i, j = rng.randrange(dim), rng.randrange(dim)
        a, b = (gen_vec(rng, 1, rand_scale(rng), 1.0, False, as32)[0] for _ in range(2))
        vecs = [[a if k == i else 0.0 for k in range(dim)], [b if k == j else 0.0 for k in range(dim)]]
        if i == j:
            prop = [[0, 1]]
    elif fam == "equal":
        vecs, prop = [x, list(x)], [[0, 1]]
    elif fam == "triple":
        vecs = [x] + [gen_vec(rng, dim, rand_scale(rng), rng.choice([1.0, 0.7, 0.4]), wide, as32) for _ in range(2)]
    else:  # triple_prop: two proportional vectors and a third one
        as32 = False
        x = gen_vec(rng, dim, rng.uniform(-24, 24), dens, wide, False)
        c = rng.uniform(1, 10) * 10.0 ** rng.uniform(-6, 6)
        vecs = [x, [c * a for a in x], gen_vec(rng, dim, rand_scale(rng), 0.7, wide, False)]
        prop = [[0, 1]]
    return {"kind": "vectors", "family": fam, "as32": as32, "vecs": [[float(a).hex() for a in v] for v in vecs],
            "prop": prop, "encodings": gen_encodings(rng, vecs)}


def gen_helpers_case(rng):
    def vec():
        n = rng.choice([0, 1, 1, 2, 3, 5, 8, 12])
        span = rng.choice([n + 1, 2 * n + 2, 40, 1000])
        idx = sorted(rng.sample(range(span + n), n))
        return idx, [rng.choice([0, 1, 1, 2, 3, -1, -2, 4]) for _ in idx]
    i1, d1 = vec()
    if rng.random() < 0.3:      # share indices, tails on either side
        i2 = sorted(set(rng.sample(i1, rng.randint(0, len(i1))) + [rng.randint(0, 60) for _ in range(rng.randint(0, 4))]))
        d2 = [rng.choice([0, 1, 2, -1, -2, 3]) for _ in i2]
    else:
        i2, d2 = vec()
    return {"kind": "helpers", "itype": rng.choice(["int32", "int64"]), "ind1": i1, "data1": d1, "ind2": i2, "data2": d2}


def hexv(v):
    return [float(a).hex() for a in v]


CORPUS = [
    # D19: proportional pair on which 1 - BC rounds below zero
    {"kind": "vectors", "family": "proportional", "as32": False, "vecs": [hexv([1, 2, 3, 4, 5, 6, 7]), hexv([0.1 * a for a in [1., 2, 3, 4, 5, 6, 7]])],
     "prop": [[0, 1]], "encodings": [["int32", "float32", []]]},
    # sparse_hellinger at float32-overflowing / underflowing scales
    {"kind": "vectors", "family": "random", "as32": True, "vecs": [hexv([f32(1e20), f32(3e20)]), hexv([f32(3e20), f32(1e20)])],
     "prop": [], "encodings": [["int32", "float32", []]]},
    {"kind": "vectors", "family": "random", "as32": True, "vecs": [hexv([f32(1e-25), f32(3e-25), 0.0]), hexv([f32(3e-25), f32(1e-25), f32(2e-25)])],
     "prop": [], "encodings": [["int32", "float32", [2]]]},
    # JS / symmetric KL on proportional vectors of very different scale
    {"kind": "vectors", "family": "proportional", "as32": False, "vecs": [hexv([3., 0., 5.]), hexv([3e-9, 0., 5e-9])],
     "prop": [[0, 1]], "encodings": [["int64", "float64", [1]]]},
    # D20: tails of sparse_sum
    {"kind": "helpers", "itype": "int32", "ind1": [0, 5], "data1": [1, 1], "ind2": [0, 7, 9], "data2": [1, 1, 1]},
    {"kind": "helpers", "itype": "int64", "ind1": [3, 50, 51], "data1": [2, 0, 1], "ind2": [1], "data2": [-1]},
    {"kind": "helpers", "itype": "int32", "ind1": [], "data1": [], "ind2": [3, 7, 9], "data2": [0, 1, 1]},
]


# ------------------------------------------------------------------ model rendering

def encode(v, enc):
    ez = enc[2]
    idx = [i for i, h in enumerate(v) if float.fromhex(h) != 0 or i in ez]
    return idx, [v[i] for i in idx]


def coq_vectors(case, eps_hex, i, j):
    xs, ys = case["vecs"][i], case["vecs"][j]
    parts = ["out (%s float F xs ys)" % f for f in DENSE_COQ]
    encs = []
    for enc in case["encodings"]:
        (i1, d1), (i2, d2) = encode(xs, enc), encode(ys, enc)
        args = "%s %s %s %s" % (zlist(i1), flist(d1), zlist(i2), flist(d2))
        encs.append("(" + ", ".join("out_opt (%s float F %s)" % (f, args) for f in SPARSE_COQ) + ")")
    return "let F := F_ops %s in let xs := %s in let ys := %s in (%s, [%s])" % (
        fcoq(eps_hex), flist(xs), flist(ys), ", ".join(parts), "; ".join(encs))


def coq_helpers(case):
    a = "%s %s %s %s" % (C.coq_list(case["ind1"]), C.coq_list(case["data1"]), C.coq_list(case["ind2"]), C.coq_list(case["data2"]))
    return "(sparse_sum_Z %s, sparse_diff_Z %s, sparse_mul_Z %s, dense_union_Z %s)" % (a, a, a, a)


def model_vectors_value(v):
    """parsed Coq tuple -> {"dense": {name: float}, "sparse": [{name: float|None}]}"""
    dense = {n: sf2float(v[k]) for k, n in enumerate(DENSE)}
    sparse = []
    for t in v[len(DENSE)]:
        sparse.append({n: (None if t[k] is None else sf2float(t[k][1])) for k, n in enumerate(SPARSE)})
    return {"dense": dense, "sparse": sparse}


def model_helpers_value(v):
    out = {}
    for k, n in enumerate(["sum", "diff", "mul", "union"]):
        out[n] = None if v[k] is None else [list(v[k][1][0]), list(v[k][1][1])]
    return out


# ------------------------------------------------------------------ oracle (the property itself, on implementation outputs)

def close(a, b, rel, ab):
    if a != a or b != b:
        return (a != a) and (b != b)
    return abs(a - b) <= ab + rel * max(abs(a), abs(b))


def oracle_vectors(case, res):
    """list of human-readable failures of the property's own statement"""
    bad = []
    if "err" in res:
        return ["implementation raised %s" % res["err"]]
    if res.get("mutated"):
        bad.append("the function(s) %s modified the arrays passed to them (later calls on the same vectors then see other data)"
                   % sorted(set(res["mutated"])))
    n = len(case["vecs"])
    pairs = [(i, j) for i in range(n) for j in range(n) if i != j]
    prop = {tuple(p) for p in case["prop"]} | {(p[1], p[0]) for p in case["prop"]}
    dv = {}
    for name in DENSE:
        for (i, j) in pairs:
            v = unhex(res["dense"]["%s:%d%d" % (name, i, j)])
            key = "%s(v%d, v%d)" % (name, i, j)
            if isinstance(v, dict):
                bad.append("%s raised %s" % (key, v["err"]))
                continue
            dv[(name, i, j)] = v
            if not math.isfinite(v):
                bad.append("%s = %r is not finite" % (key, v))
                continue
            if v < -TOL["nonneg_slack"]:
                bad.append("%s = %r is negative" % (key, v))
            if name in UNIT and v > 1 + 1e-12:
                bad.append("%s = %r exceeds 1" % (key, v))
            if (i, j) in prop and v > TOL["prop_zero"]:
                bad.append("%s = %r on proportional arguments (should vanish to 1e-6)" % (key, v))
    for name in DENSE:
        for (i, j) in pairs:
            if i < j and (name, i, j) in dv and (name, j, i) in dv:
                a, b = dv[(name, i, j)], dv[(name, j, i)]
                if math.isfinite(a) and math.isfinite(b) and not close(a, b, TOL["dense_rel"], TOL["dense_abs"]):
                    bad.append("%s not symmetric: %r vs %r" % (name, a, b))
    if n == 3:
        for name in METRIC:
            slack = TOL["triangle_slack_hellinger"] if name == "hellinger" else TOL["triangle_slack"]
            for (i, j, k) in [(0, 1, 2), (0, 2, 1), (1, 0, 2)]:
                try:
                    a, b, c = dv[(name, i, k)], dv[(name, i, j)], dv[(name, j, k)]
                except KeyError:
                    continue
                if all(math.isfinite(t) for t in (a, b, c)) and a > b + c + slack * max(1.0, a):
                    bad.append("%s violates the triangle inequality: d(v%d,v%d)=%r > d(v%d,v%d)+d(v%d,v%d)=%r+%r"
                               % (name, i, k, a, i, j, j, k, b, c))
    for e, sres in enumerate(res["sparse"]):
        enc = case["encodings"][e]
        sv = {}
        for name in SPARSE:
            for (i, j) in pairs:
                v = unhex(sres["%s:%d%d" % (name, i, j)])
                key = "sparse_%s(v%d, v%d) [encoding %s]" % (name, i, j, enc)
                if isinstance(v, dict):
                    bad.append("%s raised %s" % (key, v["err"]))
                    continue
                sv[(name, i, j)] = v
                if not math.isfinite(v):
                    bad.append("%s = %r is not finite" % (key, v))
                    continue
                if v < -TOL["nonneg_slack"]:
                    bad.append("%s = %r is negative" % (key, v))
                d = dv.get((name, i, j))
                if d is None or not math.isfinite(d):
                    continue
                if name == "hellinger":
                    ok = abs(v * v - d * d) <= TOL["sparse_vs_dense_hellinger_sq"]
                else:
                    ok = close(v, d, TOL["sparse_vs_dense_rel"], TOL["sparse_vs_dense_abs"])
                if not ok:
                    bad.append("%s = %r differs from the dense value %r beyond float32 precision" % (key, v, d))
        for name in SPARSE:
            for (i, j) in pairs:
                if i < j and (name, i, j) in sv and (name, j, i) in sv:
                    a, b = sv[(name, i, j)], sv[(name, j, i)]
                    if math.isfinite(a) and math.isfinite(b):
                        ok = abs(a * a - b * b) <= TOL["f32_abs"] if name == "hellinger" else close(a, b, TOL["f32_rel"], TOL["f32_abs"])
                        if not ok:
                            bad.append("sparse_%s not symmetric: %r vs %r [encoding %s]" % (name, a, b, enc))
    return bad


def dense_arith(case):
    a = dict(zip(case["ind1"], case["data1"]))
    b = dict(zip(case["ind2"], case["data2"]))
    keys = sorted(set(a) | set(b))
    out = {}
    for name, op in [("sum", lambda x, y: x + y), ("diff", lambda x, y: x - y), ("mul", lambda x, y: x * y)]:
        kv = [(k, op(a.get(k, 0), b.get(k, 0))) for k in keys]
        kv = [(k, v) for k, v in kv if v != 0]
        out[name] = [[k for k, _ in kv], [v for _, v in kv]]
    return out


def oracle_helpers(case, res):
    bad = []
    if "err" in res:
        return ["implementation raised %s" % res["err"]]
    exp = dense_arith(case)
    for name in ["sum", "diff", "mul"]:
        got = res[name]
        if isinstance(got, dict):
            bad.append("sparse_%s raised / returned %s" % (name, str(got)[:200]))
        elif got != exp[name]:
            bad.append("sparse_%s returned (indices, values) %s, dense arithmetic gives %s" % (name, got, exp[name]))
    # later calls on the SAME arrays (after sum, diff, mul, union have run on them)
    if "sum_again" in res and not isinstance(res["sum_again"], dict) and res["sum_again"] != exp["sum"]:
        bad.append("a second sparse_sum on the same arrays returned %s, dense arithmetic gives %s (an earlier helper call "
                   "changed its arguments)" % (res["sum_again"], exp["sum"]))
    if "diff_swapped" in res and not isinstance(res["diff_swapped"], dict):
        want = [exp["diff"][0], [-v for v in exp["diff"][1]]]
        if res["diff_swapped"] != want:
            bad.append("sparse_diff(y, x) on the same arrays returned %s, dense arithmetic gives %s" % (res["diff_swapped"], want))
    if res.get("mutated"):
        bad.append("the helper(s) %s modified the index / data arrays passed to them" % sorted(set(res["mutated"])))
    return bad


def oracle(case, res):
    return oracle_helpers(case, res) if case["kind"] == "helpers" else oracle_vectors(case, res)


# ------------------------------------------------------------------ correspondence model <-> implementation

def corr_vectors(case, res, models):
    """models: {(i, j): model value}; returns list of disagreements"""
    bad = []
    if "err" in res:
        return ["implementation raised %s" % res["err"]]
    for (i, j), m in models.items():
        for name in DENSE:
            v = unhex(res["dense"]["%s:%d%d" % (name, i, j)])
            mv = m["dense"][name]
            if isinstance(v, dict):
                bad.append("%s(v%d,v%d): impl raised %s, model %r" % (name, i, j, v["err"], mv))
                continue
            ok = (close(v * v, mv * mv, TOL["dense_rel"], TOL["dense_abs"]) if name == "hellinger"
                  else close(v, mv, TOL["dense_rel"], TOL["dense_abs"]))
            if not ok:
                bad.append("%s(v%d,v%d): impl %r, model %r" % (name, i, j, v, mv))
        for e, sres in enumerate(res["sparse"]):
            for name in SPARSE:
                v = unhex(sres["%s:%d%d" % (name, i, j)])
                mv = m["sparse"][e][name]
                if isinstance(v, dict) or mv is None:
                    if not (isinstance(v, dict) and mv is None):
                        bad.append("sparse_%s(v%d,v%d) enc %d: impl %s, model %r" % (name, i, j, e, v, mv))
                    continue
                ok = (abs(v * v - mv * mv) <= TOL["f32_abs"] or (v != v and mv != mv)) if name == "hellinger" \
                    else close(v, mv, TOL["f32_rel"], TOL["f32_abs"])
                if not ok:
                    bad.append("sparse_%s(v%d,v%d) enc %d: impl %r, model %r" % (name, i, j, e, v, mv))
    return bad


def corr_helpers(case, res, m):
    bad = []
    if "err" in res:
        return ["implementation raised %s" % res["err"]]
    for name in ["sum", "diff", "mul", "union"]:
        got = res[name]
        if isinstance(got, dict):
            if m[name] is not None:
                bad.append("%s: impl %s, model %s" % (name, str(got)[:200], m[name]))
        elif got != m[name]:
            bad.append("%s: impl %s, model %s" % (name, got, m[name]))
    return bad


# ------------------------------------------------------------------ driver

def run_cases(cases):
    """implementation results, EPS, model values"""
    from concurrent.futures import ThreadPoolExecutor
    with ThreadPoolExecutor(max_workers=2) as ex:
        f_impl = ex.submit(C.run_impl, "c18", {"cases": cases})
        out, info = f_impl.result()
    return out, info


def eval_models(cases, eps_hex):
    vec_idx = [k for k, c in enumerate(cases) if c["kind"] == "vectors"]
    hel_idx = [k for k, c in enumerate(cases) if c["kind"] == "helpers"]
    exprs, owners = [], []
    for k in vec_idx:
        for (i, j) in [(0, 1), (1, 0)]:
            exprs.append(coq_vectors(cases[k], eps_hex, i, j))
            owners.append((k, i, j))
    from concurrent.futures import ThreadPoolExecutor
    with ThreadPoolExecutor(max_workers=2) as ex:
        fv = ex.submit(C.coq_eval_sharded, "C18f", HEADER_F, exprs, 120)
        fh = ex.submit(C.coq_eval_sharded, "C18z", HEADER_Z, [coq_helpers(cases[k]) for k in hel_idx], 250)
        vals, hvals = fv.result(), fh.result()
    models = {}
    for (k, i, j), v in zip(owners, vals):
        models.setdefault(k, {})[(i, j)] = model_vectors_value(v)
    for k, v in zip(hel_idx, hvals):
        models[k] = model_helpers_value(v)
    return models


LN_POINTS = [1e-300, 1e-40, 3.3e-12, 1e-5, 0.1, 0.5, 0.70710678, 0.9999999, 1.0, 1.0000001, 1.4142135, 2.0, 2.718281828, 10.0,
             12345.678, 1e11, 1e40, 1e300, 5e-324, 0.3333333333]


def check_ln(ctx):
    """the model's PrimFloat ln against libm (the implementation's np.log)"""
    vals = C.coq_eval("C18ln", HEADER_F, ["out (f_ln %s)" % fcoq(float(p).hex()) for p in LN_POINTS])
    worst = 0.0
    for p, v in zip(LN_POINTS, vals):
        got, ref = sf2float(v), math.log(p)
        err = abs(got - ref) / max(abs(ref), 1e-300) if ref != 0 else abs(got)
        worst = max(worst, err)
    ctx.coverage["model_ln_vs_libm_max_rel_err"] = worst
    if worst > 1e-14:
        ctx.report("Model/K12_Float.f_ln deviates from libm log by %.3g (relative)" % worst,
                   {"stage": "correspondence", "correspondence": "Model/K12_Float.v f_ln <-> math.log"}, found_input=False)


def shrink(case, what):
    """drop coordinates (vectors) / entries (helpers) while the oracle still fails"""
    cur = case
    for _ in range(6):
        cands = []
        if cur["kind"] == "vectors":
            dim = len(cur["vecs"][0])
            if dim <= 1:
                break
            for k in range(dim):
                cand = dict(cur)
                cand["vecs"] = [v[:k] + v[k + 1:] for v in cur["vecs"]]
                if any(all(float.fromhex(h) == 0 for h in v) for v in cand["vecs"]):
                    continue
                cand["encodings"] = [[e[0], e[1], [z - (z > k) for z in e[2] if z != k]] for e in cur["encodings"]]
                cands.append(cand)
        else:
            for side in ("1", "2"):
                for k in range(len(cur["ind" + side])):
                    cand = dict(cur)
                    cand["ind" + side] = cur["ind" + side][:k] + cur["ind" + side][k + 1:]
                    cand["data" + side] = cur["data" + side][:k] + cur["data" + side][k + 1:]
                    cands.append(cand)
        if not cands:
            break
        out, _ = C.run_impl("c18", {"cases": cands}, {"NUMBA_DISABLE_JIT": "1"})   # no compilation: ~10 s per round
        nxt = None
        for cc, r in zip(cands, (out or {}).get("results", [])):
            if oracle(cc, r):
                nxt = cc
                break
        if nxt is None:
            break
        cur = nxt
    return cur


def kind_of(c):
    if c["kind"] == "helpers":
        return "helpers:%s" % c["itype"]
    return "vectors:%s:dim%s:%s" % (c["family"], "1" if len(c["vecs"][0]) == 1 else ("2-8" if len(c["vecs"][0]) <= 8 else "9-64"),
                                    "f32" if c["as32"] else "f64")


def run(ctx, replay=None):
    C.run_gate(ctx)
    nv, nh = (500, 300) if ctx.quick else (6000, 3000)
    if replay:
        cases = [replay["case"]]
    else:
        cases = list(CORPUS) + [gen_vectors_case(ctx.rng) for _ in range(nv)] + [gen_helpers_case(ctx.rng) for _ in range(nh)]
    ctx.coverage["rule"] = ("seeded random pairs / triples of non-negative vectors with positive mass (dimension 1-64, scales 1e-30..1e30, "
                            "proportional pairs with random and power-of-two factors, disjoint supports, single-entry, equal vectors; three sparse "
                            "encodings each: int32/int64 indices, float32/float64 data, explicit zeros) and integer-valued sparse vector pairs for "
                            "the helpers (empty vectors, shared / disjoint indices, explicit zeros, negative values) + corpus of past failures; "
                            "non-trivial = every case; distinct by case hash")
    ctx.coverage["tolerances"] = TOL
    ctx.assumptions += [
        "real-number theorems are tied to the binary64 implementation by running the same model in PrimFloat (vm_compute) under the stated tolerances",
        "ln of the executed model is the series of Model/K12_Float.v (checked against libm on every run, max relative error in evidence)",
        "sparse results are float32 inside the library: sparse vs dense and sparse vs model are compared to float32 precision "
        "(hellinger on its square, the radicand, because sqrt magnifies a float32 rounding of 1 - BC near 0)",
        "valid sparse encodings have strictly increasing indices (explicit zeros allowed); kantorovich1d with p > 2 and circular_kantorovich are not modelled",
        "JS / symmetric KL are zero on proportional inputs because of the 'fix:' commit that makes the EPS smoothing relative to the mass"]
    out, info = run_cases(cases)
    results = (out or {}).get("results", [])
    if out is None or len(results) != len(cases):
        done = len(results)
        ctx.report("implementation child died (rc=%s) on case %d: %s" % (info["rc"], done, info["tail"][-400:]),
                   {"stage": "impl-crash", "case": cases[done] if done < len(cases) else None}, found_input=True)
        results = results + [{"err": "crash"}] * (len(cases) - done)
    eps_hex = (out or {}).get("EPS", float(1e-11).hex())
    ctx.coverage["EPS_read_from_module"] = float.fromhex(eps_hex)
    check_ln(ctx)
    models = eval_models(cases, eps_hex)
    n_oracle_bad, n_corr, corr_bad, n_shrunk, mutated = 0, 0, [], 0, {}
    for k, (c, r) in enumerate(zip(cases, results)):
        ctx.count_case(c, nontrivial=True, kind=kind_of(c))
        for m in r.get("mutated", []) if isinstance(r, dict) else []:
            mutated[m] = mutated.get(m, 0) + 1
        bad = oracle(c, r)
        if bad:
            n_oracle_bad += 1
            small = c
            if not replay and n_shrunk < 1:
                small = shrink(c, bad[0])
                n_shrunk += 1
            ctx.report("property fails on the implementation: " + "; ".join(bad[:4]),
                       {"stage": "oracle", "case": small, "failures": bad[:10], "original_case": c if small is not c else None,
                        "actual": r if small is c else None})
            continue
        n_corr += 1
        cb = corr_helpers(c, r, models[k]) if c["kind"] == "helpers" else corr_vectors(c, r, models[k])
        if cb:
            corr_bad.append((c, r, cb))
    ctx.coverage["correspondence"] = {"cases": n_corr, "disagreements": len(corr_bad),
                                      "model": "Model/K11_SparseVec.v (Z, exact) and Model/K12_Dist.v over Model/K12_Float.v (binary64) via vm_compute"}
    ctx.coverage["oracle"] = {"cases": len(cases), "failing": n_oracle_bad}
    ctx.coverage["traces_validated_against_impl"] = n_corr
    ctx.coverage["caller_arrays_mutated"] = mutated
    if corr_bad and not any(v["found_input"] for v in ctx.violations):
        c, r, cb = corr_bad[0]
        ctx.report("model K11/K12 and implementation disagree (no property-level failure found): " + "; ".join(cb[:4]),
                   {"stage": "correspondence", "correspondence": "Model/K11_SparseVec.v, Model/K12_Dist.v <-> vectorizers/distances.py",
                    "case": c, "disagreements": cb[:10], "actual": r}, found_input=False)
    C.gate_violation(ctx)
    return ctx.finish("proof")
