"""C12 — each output row depends only on its own input item and the fitted model.
Proof gate (Properties/C12.v: the map laws, the batching skeletons, the block/chunk index arithmetic) +
correspondence of Model/K19_RowWise.v (blocks / chunks ranges, LZ per-string reset, BPE per-string encode) with
the implementation + property oracle on EVERY estimator of the property's list: for a fitted estimator and a batch
`items`, transform(items[idx]) must equal the rows idx of transform(items) for sub-batches (A, B with A+B = items),
a permutation, a batch with a duplicated item, and for the whole batch under block / chunk sizes
{1,2,3,n-1,n,n+1}; every run under NUMBA_NUM_THREADS 1 and 16."""
import math

from . import common as C

HEADER = """From Coq Require Import ZArith List Arith.
From VZ Require Import Model.K19_RowWise.
Import ListNotations.
"""

COUNT_ESTS = {"Ngram", "Skipgram", "LZ", "BPE", "Histogram", "SlidingWindow"}   # compared exactly
# the two thread settings run in different processes, each with its own fit; their outputs are compared with each
# other only where fit involves no randomized SVD / GMM (whose thread dependence is not C12's subject)
CROSS_RUN = COUNT_ESTS | {"KDE", "InfoWeight", "RowDenoise"}
REL = 1e-6                                                                       # numeric outputs


# ------------------------------------------------------------------ ops
def block_sizes(n):
    return sorted(set(b for b in (1, 2, 3, n - 1, n, n + 1) if b >= 1))


def make_ops(rng, n, pinned=(), blocks=False, chunks=False):
    """Sub-batches of range(n).  `pinned` indices are appended to every sub-batch that lacks them (generator
    restrictions, see the TODOs)."""
    def pin(idx):
        return list(idx) + [p for p in pinned if p not in idx]
    full = list(range(n))
    ops = [{"tag": "full", "idx": full}]
    k = rng.randint(1, n - 1)
    ops += [{"tag": "A", "idx": pin(full[:k])}, {"tag": "B", "idx": pin(full[k:])}]
    perm = full[:]
    rng.shuffle(perm)
    ops.append({"tag": "perm", "idx": perm})
    j, pos = rng.randrange(n), rng.randint(0, n)
    ops.append({"tag": "dup", "idx": pin(full[:pos] + [j] + full[pos:])})
    ops.append({"tag": "single", "idx": pin([rng.randrange(n)])})
    if blocks or chunks:
        bs = block_sizes(n) if blocks else [None]
        cs = block_sizes(n) if chunks else [None]
        combos = [(b, None) for b in bs if b is not None] + [(None, c) for c in cs if c is not None]
        if blocks and chunks:
            combos += [(rng.choice(bs), rng.choice(cs)) for _ in range(3)] + [(1, 1), (n, n)]
        for b, c in combos:
            ops.append({"tag": "block", "idx": full, "block": b, "chunk": c})
        b, c = rng.choice(combos)
        ops.append({"tag": "block-perm", "idx": perm, "block": b, "chunk": c})
    return ops


# ------------------------------------------------------------------ generators (one per estimator)
LET = "abcde"


def doc(rng, lo, hi, alphabet=LET):
    return [rng.choice(alphabet) for _ in range(rng.randint(lo, hi))]


def gen_ngram(rng):
    fit = [doc(rng, 0, 8) for _ in range(rng.randint(3, 6))] + [list(LET)]
    items = [doc(rng, 0, 7, LET + "z") for _ in range(rng.randint(3, 6))]
    if rng.random() < 0.5:
        items.append([])
    # TODO widen after merge: mask_string is not exercised (D10 is being repaired elsewhere)
    p = {"ngram_size": rng.choice([1, 2, 3]), "ngram_behaviour": rng.choice(["exact", "subgrams"])}
    return {"est": "Ngram", "params": p, "data_kind": "tokens", "fit": fit, "items": items,
            "ops": make_ops(rng, len(items))}


def gen_skipgram(rng):
    fit = [doc(rng, 2, 8) for _ in range(rng.randint(3, 5))]
    # TODO widen after merge: transform infers the matrix shape from its input (D3), so every batch must contain the
    # highest fitted column (the pair (t, t) of the largest token t) and must not end with an item without
    # skip-grams: every sub-batch ends with the document "top" = all training tokens followed by t, t, and items
    # have >= 2 tokens
    tmax = max(t for d in fit for t in d)
    top = [t for d in fit for t in d] + [tmax, tmax]
    items = [doc(rng, 2, 7) for _ in range(rng.randint(3, 5))] + [top]
    p = {"window_radius": rng.choice([1, 2, 3]), "kernel_function": rng.choice(["flat", "harmonic"])}
    fit = fit + [top]
    return {"est": "Skipgram", "params": p, "data_kind": "tokens", "fit": fit, "items": items,
            "ops": make_ops(rng, len(items), pinned=(len(items) - 1,))}


def rstring(rng, lo, hi, alphabet="abc"):
    return "".join(rng.choice(alphabet) for _ in range(rng.randint(lo, hi)))


def gen_lz(rng):
    fit = [rstring(rng, 0, 12, rng.choice(["ab", "abc", "a", "abé"])) for _ in range(rng.randint(3, 6))]
    # TODO widen after merge: items are drawn from the training strings so that no phrase is unseen at transform (D4)
    items = [rng.choice(fit) for _ in range(rng.randint(3, 6))]
    p = {"max_dict_size": rng.choice([2, 3, 5, 1 << 16]), "max_columns": rng.choice([None, None, 8, 64]),
         "random_state": 0}
    return {"est": "LZ", "params": p, "data_kind": "strings", "fit": fit, "items": items,
            "ops": make_ops(rng, len(items))}


def gen_bpe(rng):
    rt = rng.choice(["sequences", "tokens", "matrix"])
    alpha = rng.choice(["ab", "abc"])
    # TODO widen after merge: contract_pair reads uninitialised memory once a string has collapsed to one code (D14,
    # repaired elsewhere).  Every training string ends with its own sentinel character and every item with '#', which
    # never take part in a merge (pairs must occur twice), so no encoding shrinks below two codes.
    fit = [rstring(rng, 2, 12, alpha) + chr(0x100 + i) for i in range(rng.randint(3, 6))]
    p = {"max_vocab_size": rng.choice([2, 4, 8, 50]), "min_token_occurrence": rng.choice([1, 2]), "return_type": rt}
    if rt == "matrix":
        # TODO widen after merge: 'matrix' output raises on unseen codes and infers its width (D5), and the last learned
        # code is missing from the columns when training stops on max_vocab_size (D8): items are training strings,
        # training runs until no pair occurs twice, and every sub-batch contains ALL training strings (pinned), which
        # together carry every fitted column.
        p["max_vocab_size"] = 50
        items = list(fit) + [rng.choice(fit) for _ in range(rng.randint(1, 3))]
        rng.shuffle(items)
        pinned = tuple(sorted(items.index(s) for s in set(fit)))
    else:
        items = [rstring(rng, 1, 10, alpha + "zé") + "#" for _ in range(rng.randint(3, 6))]
        pinned = ()
    return {"est": "BPE", "params": p, "data_kind": "strings", "fit": fit, "items": items,
            "ops": make_ops(rng, len(items), pinned=pinned)}


def nums(rng, lo, hi, k):
    return [rng.randint(lo * 4, hi * 4) / 4.0 for _ in range(k)]


def gen_hist(rng):
    fit = [nums(rng, 0, 10, rng.randint(2, 6)) for _ in range(3)] + [[0.0, 10.0]]
    items = [nums(rng, -3, 13, rng.randint(0, 7)) for _ in range(rng.randint(3, 6))]
    p = {"n_components": rng.choice([2, 3, 5]), "strategy": rng.choice(["uniform", "quantile"]),
         "append_outlier_bins": rng.random() < 0.5}
    if rng.random() < 0.5:
        p["absolute_range"] = [-1.0, 12.0]
    return {"est": "Histogram", "params": p, "data_kind": "numlists", "fit": fit, "items": items,
            "ops": make_ops(rng, len(items))}


def gen_kde(rng):
    fit = [nums(rng, 0, 10, rng.randint(2, 6)) for _ in range(3)] + [[0.0, 10.0]]
    items = [nums(rng, -3, 13, rng.randint(1, 7)) for _ in range(rng.randint(3, 6))]
    p = {"bandwidth": rng.choice([0.3, 1.0, 2.0]), "n_components": rng.choice([3, 6]),
         "evaluation_grid_strategy": rng.choice(["uniform", "density"])}
    return {"est": "KDE", "params": p, "data_kind": "numarrays", "fit": fit, "items": items,
            "ops": make_ops(rng, len(items))}


def cloud(rng, k, d=2):
    c = rng.choice([(0, 0), (4, 4), (0, 5)])
    return [[c[j % 2] + rng.gauss(0, 1) for j in range(d)] for _ in range(k)]


def gen_distribution(rng):
    fit = [cloud(rng, rng.randint(4, 8)) for _ in range(6)]
    items = [cloud(rng, rng.randint(1, 6)) for _ in range(rng.randint(3, 5))]
    p = {"n_components": rng.choice([2, 3]), "random_state": 0}
    return {"est": "Distribution", "params": p, "data_kind": "clouds", "fit": fit, "items": items,
            "ops": make_ops(rng, len(items))}


def dist_matrix(rng, n, v, density=0.6):
    rows = []
    for _ in range(n):
        r = [round(rng.random() + 0.05, 3) if rng.random() < density else 0.0 for _ in range(v)]
        if sum(r) == 0:
            r[rng.randrange(v)] = 1.0
        rows.append(r)
    return rows


def vecs(rng, v, d):
    return [[round(rng.gauss(0, 1), 3) for _ in range(d)] for _ in range(v)]


WASS_COMBOS = [("LOT_exact", "spmatrix"), ("LOT_exact", "lil"), ("LOT_exact", "generator"), ("LOT_sinkhorn", "spmatrix"),
               ("HeuristicLinearAlgebra", "spmatrix")]
_wass_counter = [0]


def gen_wasserstein(rng):
    method, inp = WASS_COMBOS[_wass_counter[0] % len(WASS_COMBOS)]     # every (method, input_method) in turn
    _wass_counter[0] += 1
    v, d = rng.choice([5, 7]), rng.choice([2, 3])
    metric = rng.choice(["euclidean", "cosine"])
    p = {"method": method, "input_method": inp, "n_components": 3, "reference_size": rng.choice([3, 4]),
         "metric": metric, "random_state": 0}
    n = rng.randint(4, 6)
    c = {"est": "Wasserstein", "params": p, "data_kind": inp}
    if inp == "spmatrix":
        c["vectors"] = vecs(rng, v, d)
        c["fit"] = dist_matrix(rng, 8, v)
        c["items"] = dist_matrix(rng, n, v)
    else:
        if inp == "generator":
            p["generator_vector_dim"] = d
            p["generator_n_distributions"] = 8
            c["reference_vectors"] = vecs(rng, p["reference_size"], d)
        # input_method='lil' with a non-cosine metric stacks the per-item vector arrays with np.ascontiguousarray and
        # raises on supports of different sizes (outside C12; reported): equal sizes there
        same = inp == "lil" and metric != "cosine"
        s0 = rng.randint(2, 5)
        sizes = [s0 if same else rng.randint(2, 5) for _ in range(8)]
        c["fit"] = [[round(rng.random() + 0.05, 3) for _ in range(s)] for s in sizes]
        c["fit_vectors"] = [vecs(rng, s, d) for s in sizes]
        sizes = [s0 if same else rng.randint(1, 5) for _ in range(n)]
        c["items"] = [[round(rng.random() + 0.05, 3) for _ in range(s)] for s in sizes]
        c["item_vectors"] = [vecs(rng, s, d) for s in sizes]
    c["ops"] = make_ops(rng, n, blocks=(method != "HeuristicLinearAlgebra"), chunks=(method == "LOT_sinkhorn"))
    return c


def gen_sinkhorn(rng):
    v, d = rng.choice([5, 7]), rng.choice([2, 3])
    n = rng.randint(4, 6)
    p = {"n_components": 3, "reference_size": rng.choice([3, 4]), "metric": rng.choice(["euclidean", "cosine"]),
         "random_state": 0}
    return {"est": "Sinkhorn", "params": p, "data_kind": "spmatrix", "vectors": vecs(rng, v, d),
            "fit": dist_matrix(rng, 8, v), "items": dist_matrix(rng, n, v),
            "ops": make_ops(rng, n, blocks=True, chunks=True)}


def gen_approx(rng):
    v, d = rng.choice([5, 7]), rng.choice([2, 3])
    n = rng.randint(4, 6)
    p = {"n_components": 2, "random_state": 0, "normalization_power": rng.choice([1.0, 0.66])}
    return {"est": "ApproxWasserstein", "params": p, "data_kind": "spmatrix", "vectors": vecs(rng, v, d),
            "fit": dist_matrix(rng, 8, v), "items": dist_matrix(rng, n, v), "ops": make_ops(rng, n)}


def count_matrix(rng, n, f, allow_empty=False):
    rows = []
    for _ in range(n):
        r = [rng.choice([0, 0, 1, 2, 3, 5]) for _ in range(f)]
        if sum(r) == 0 and not allow_empty:
            r[rng.randrange(f)] = 1
        rows.append([float(x) for x in r])
    return rows


def gen_infoweight(rng):
    f = rng.choice([4, 6])
    fit = count_matrix(rng, 8, f) + [[1.0] * f]
    n = rng.randint(3, 6)
    p = {"approx_prior": rng.random() < 0.5, "weight_power": rng.choice([1.0, 2.0])}
    return {"est": "InfoWeight", "params": p, "data_kind": "counts", "fit": fit,
            "items": count_matrix(rng, n, f, allow_empty=True), "ops": make_ops(rng, n)}


def gen_rowdenoise(rng):
    f = rng.choice([4, 6])
    fit = count_matrix(rng, 8, f) + [[1.0] * f]
    n = rng.randint(3, 6)
    p = {"normalize": rng.random() < 0.5}
    return {"est": "RowDenoise", "params": p, "data_kind": "counts", "fit": fit,
            "items": count_matrix(rng, n, f), "ops": make_ops(rng, n)}


def gen_cfc(rng):
    f = rng.choice([5, 6])
    fit = count_matrix(rng, 10, f) + [[1.0] * f]
    n = rng.randint(3, 6)
    p = {"n_components": 2, "random_state": 0, "rescaling_power": rng.choice([0.5, 1.0])}
    return {"est": "CFC", "params": p, "data_kind": "counts", "fit": fit,
            "items": count_matrix(rng, n, f), "ops": make_ops(rng, n)}


def gen_sliding(rng):
    w = rng.randint(1, 4)
    items = [[float(rng.randint(-9, 9)) for _ in range(w + rng.randint(0, 6))] for _ in range(rng.randint(3, 5))]
    p = {"window_width": w, "window_stride": rng.randint(1, 3)}
    if rng.random() < 0.3:
        p["pad_width"], p["pad_value"] = 1, 0
    return {"est": "SlidingWindow", "params": p, "data_kind": "numarrays", "fit": items[:2], "items": items,
            "ops": make_ops(rng, len(items))}


def sinkhorn_far_case(est):
    """the recorded batched-Sinkhorn finding: item 0 (mass on the near points only) shares a chunk with item 1, which
    has mass on a support point at distance 800 whose kernel column exp(-cost) underflows to 0"""
    vectors = [[0.3, -0.2], [1.1, 0.4], [-0.7, 0.9], [0.2, 1.3], [-1.2, -0.5], [800.0, 0.0]]
    fit = [[0.2, 0.1, 0.3, 0.2, 0.2, 0.0], [0.5, 0.1, 0.1, 0.2, 0.1, 0.0], [0.1, 0.4, 0.2, 0.1, 0.2, 0.0],
           [0.3, 0.3, 0.1, 0.1, 0.2, 0.0], [0.2, 0.2, 0.2, 0.2, 0.2, 0.0], [0.1, 0.1, 0.5, 0.2, 0.1, 0.0]]
    items = [[0.2, 0.3, 0.1, 0.4, 0.0, 0.0], [0.1, 0.0, 0.0, 0.0, 0.2, 0.7], [0.3, 0.3, 0.2, 0.1, 0.1, 0.0]]
    p = {"n_components": 3, "reference_size": 3, "metric": "euclidean", "random_state": 0}
    if est == "Wasserstein":
        p.update({"method": "LOT_sinkhorn", "input_method": "spmatrix"})
    ops = [{"tag": "full", "idx": [0, 1, 2]}, {"tag": "A", "idx": [0]}, {"tag": "B", "idx": [1, 2]},
           {"tag": "block", "idx": [0, 1, 2], "block": 1, "chunk": 1}]
    return {"est": est, "params": p, "data_kind": "spmatrix", "vectors": vectors, "fit": fit, "items": items, "ops": ops}


CORPUS = [sinkhorn_far_case("Sinkhorn"), sinkhorn_far_case("Wasserstein")]

GENS = [gen_ngram, gen_skipgram, gen_lz, gen_bpe, gen_hist, gen_kde, gen_distribution, gen_wasserstein, gen_sinkhorn,
        gen_approx, gen_infoweight, gen_rowdenoise, gen_cfc, gen_sliding]
QUICK = {"Ngram": 4, "Skipgram": 3, "LZ": 5, "BPE": 6, "Histogram": 4, "KDE": 3, "Distribution": 3, "Wasserstein": 5,
         "Sinkhorn": 2, "ApproxWasserstein": 2, "InfoWeight": 3, "RowDenoise": 3, "CFC": 2, "SlidingWindow": 3}


# ------------------------------------------------------------------ oracle
def flat(x):
    if isinstance(x, list):
        for y in x:
            yield from flat(y)
    else:
        yield x


def rows_equal(a, b, exact, scale):
    """a, b: one output row each (nested lists of numbers / strings)."""
    fa, fb = list(flat(a)), list(flat(b))
    if len(fa) != len(fb):
        return False
    for x, y in zip(fa, fb):
        if isinstance(x, str) or isinstance(y, str):
            if x != y:
                return False
        elif exact:
            if x != y:
                return False
        else:
            if not (math.isfinite(x) and math.isfinite(y)):
                if not (x == y or (x != x and y != y)):
                    return False
            elif abs(x - y) > REL * max(abs(x), abs(y)) + REL * scale:
                return False
    return True


def check_case(c, outs, ref=None):
    """The property on one case.  Returns list of (message, op).  `ref` = rows of the full batch from another
    thread-count run (cross-run comparison)."""
    bad = []
    full = outs[0]
    if "err" in full:
        return [("transform of the whole batch raised %s: %s" % (full["err"], full.get("msg")), c["ops"][0])]
    R = full["rows"]
    n = len(c["items"])
    if len(R) != n:
        return [("%d rows for %d items" % (len(R), n), c["ops"][0])]
    exact = c["est"] in COUNT_ESTS
    scale = max([abs(v) for v in flat(R) if not isinstance(v, str) and math.isfinite(v)] + [0.0])
    for op, o in zip(c["ops"][1:], outs[1:]):
        if "err" in o:
            bad.append(("transform of sub-batch %s raised %s: %s" % (op["tag"], o["err"], o.get("msg")), op))
            continue
        rows = o["rows"]
        if len(rows) != len(op["idx"]):
            bad.append(("sub-batch %s: %d rows for %d items" % (op["tag"], len(rows), len(op["idx"])), op))
            continue
        for pos, i in enumerate(op["idx"]):
            if not rows_equal(rows[pos], R[i], exact, scale):
                bad.append(("%s: row of item %d in sub-batch '%s'%s differs from its row in the whole batch: %s vs %s"
                            % (c["est"], i, op["tag"],
                               "" if op.get("block") is None and op.get("chunk") is None
                               else " (block=%s, chunk=%s)" % (op.get("block"), op.get("chunk")),
                               str(rows[pos])[:160], str(R[i])[:160]), op))
                break
    if ref is not None and "rows" in ref:
        for i in range(n):
            if not rows_equal(R[i], ref["rows"][i], exact, scale):
                bad.append(("%s: row %d differs between NUMBA_NUM_THREADS=1 and 16: %s vs %s"
                            % (c["est"], i, str(ref["rows"][i])[:160], str(R[i])[:160]), c["ops"][0]))
                break
    return bad


# ------------------------------------------------------------------ model correspondence (block / chunk ranges)
def py_blocks(b, n):
    """the loop of WassersteinVectorizer.transform: n_blocks = n // b + 1; [i*b, min(n, i*b + b))"""
    return [[i * b, min(n, i * b + b)] for i in range(n // b + 1)]


def py_chunks(c, bs, be):
    return [[j * c + bs, min(be, j * c + bs + c)] for j in range((be - bs) // c + 1)]


def run(ctx, replay=None):
    C.run_gate(ctx)
    if replay:
        cases = [replay["case"]]
    else:
        mult = 1 if ctx.quick else 6
        _wass_counter[0] = 0
        cases = list(CORPUS)
        for g in GENS:
            c0 = g(ctx.rng)
            cases.append(c0)
            for _ in range(QUICK[c0["est"]] * mult - 1):
                cases.append(g(ctx.rng))
    ctx.coverage["rule"] = ("for each of the 14 row-wise estimators: random small fitted model + batch; sub-batches A, B "
                            "(A+B = batch), a permutation, a duplicated item, a singleton, and the whole batch under "
                            "block/chunk sizes {1,2,3,n-1,n,n+1} (memory_size / sinkhorn_chunk_size / chunk_size), each "
                            "under NUMBA_NUM_THREADS=1 and 16; non-trivial = batch of >= 3 items; distinct by case hash")
    ctx.assumptions += ["count outputs compared exactly; numeric outputs at |a-b| <= 1e-6*max(|a|,|b|) + 1e-6*max|output|",
                        "generator restrictions while other repairs are pending (TODO widen after merge): LZ and BPE 'matrix' "
                        "items are training strings, Skipgram / BPE 'matrix' sub-batches contain the item(s) carrying the "
                        "highest fitted column, Ngram without mask_string, BPE strings of length >= 2",
                        "thread schedules are not modelled; what is run is NUMBA_NUM_THREADS in {1, 16}"]
    from concurrent.futures import ThreadPoolExecutor
    # the 16-thread run is slow on tiny inputs (thread launch per prange): it gets every third case of each estimator
    # (every Wasserstein (method, input_method) combination) and, of the block / chunk variants, every third one
    seen, in16 = {}, []
    for c in cases:
        seen[c["est"]] = seen.get(c["est"], 0) + 1
        in16.append(seen[c["est"]] % 3 == 1 or c["est"] == "Wasserstein")      # every third case; all Wasserstein combos
    cases16 = [trim16(c) for c, k in zip(cases, in16) if k]
    pos16 = {i: j for j, i in enumerate(i for i, k in enumerate(in16) if k)}
    with ThreadPoolExecutor(max_workers=3) as ex:
        # common.run_impl names its files by pid + millisecond and its numba cache by pid: two children started from
        # one process need distinct start times and distinct cache directories
        import os, time
        cache = os.path.join(C.WORK, "numba_cache_c12_%d_" % os.getpid())
        f1 = ex.submit(C.run_impl, "c12", cases, {"NUMBA_NUM_THREADS": "1", "NUMBA_CACHE_DIR": C.os_makedirs(cache + "t1")})
        time.sleep(0.2)
        f16 = ex.submit(C.run_impl, "c12", cases16, {"NUMBA_NUM_THREADS": "16", "NUMBA_CACHE_DIR": C.os_makedirs(cache + "t16")})
        (r1, info1), (r16, info16) = f1.result(), f16.result()
    results = {}
    ctx.coverage["modes"] = {"NUMBA_NUM_THREADS=1": {"wall_s": info1["wall_s"], "ops": sum(len(c["ops"]) for c in cases)},
                             "NUMBA_NUM_THREADS=16": {"wall_s": info16["wall_s"], "ops": sum(len(c["ops"]) for c in cases16)}}
    case_sets = {"1": cases, "16": cases16}
    for tag, res, info in (("1", r1, info1), ("16", r16, info16)):
        cs = case_sets[tag]
        if res is None or len(res) != len(cs):
            done = len(res) if res else 0
            ctx.report("implementation child (NUMBA_NUM_THREADS=%s) died (rc=%s) on case %d: %s"
                       % (tag, info["rc"], done, info["tail"][-400:]),
                       {"stage": "impl-crash", "case": cs[done] if done < len(cs) else None, "threads": tag},
                       found_input=True)
            res = (res or []) + [{"err": "crash"}] * (len(cs) - done)
        results[tag] = res
    n_oracle = 0
    for i, c in enumerate(cases):
        ctx.count_case({k: c[k] for k in ("est", "params", "items")}, nontrivial=len(c["items"]) >= 3,
                       kind="%s:%s" % (c["est"], c["params"].get("method", c["params"].get("return_type", c["data_kind"]))))
        for tag in ("1", "16"):
            if tag == "16" and i not in pos16:
                continue
            r = results[tag][i if tag == "1" else pos16[i]]
            cc = c if tag == "1" else cases16[pos16[i]]
            if "ok" not in r:
                if r.get("err") != "crash":
                    ctx.report("%s: fit raised %s: %s (NUMBA_NUM_THREADS=%s)" % (c["est"], r.get("err"), r.get("msg"), tag),
                               {"stage": "oracle", "case": c, "actual": r, "threads": tag}, found_input=True)
                continue
            n_oracle += 1
            ref = None
            if tag == "16" and "ok" in results["1"][i] and c["est"] in CROSS_RUN:
                ref = results["1"][i]["ok"][0]
            bad = check_case(cc, r["ok"], ref)
            for msg, op in bad[:1]:
                key = finding_key(c, op)
                ctx.report(msg + " (NUMBA_NUM_THREADS=%s)" % tag,
                           {"stage": "oracle", "case": c, "op": op, "threads": tag}, found_input=True, finding_key=key)
    model_bad = model_eval(cases, results["1"])
    ctx.coverage["oracle"] = {"cases": n_oracle, "ops": sum(len(c["ops"]) for c in cases) + sum(len(c["ops"]) for c in cases16)}
    ctx.coverage["correspondence"] = {"cases": model_bad[1], "disagreements": len(model_bad[0]),
                                      "model": "Model/K19_RowWise.v via vm_compute"}
    ctx.coverage["traces_validated_against_impl"] = model_bad[1]
    if model_bad[0] and not any(v["found_input"] for v in ctx.violations):
        what, detail = model_bad[0][0]
        ctx.report("model K19_RowWise and implementation disagree (no property-level failure found): " + what,
                   {"stage": "correspondence", "correspondence": "Model/K19_RowWise.v", "detail": detail}, found_input=False)
    C.gate_violation(ctx)
    return ctx.finish("proof")


def far_support(c, op):
    """the known batched-Sinkhorn defect: some item of the sub-batch has mass on a support point whose kernel column
    exp(-cost) underflows (euclidean distance to the reference beyond ~700)"""
    if c["est"] not in ("Sinkhorn", "Wasserstein") or c["params"].get("method", "LOT_sinkhorn") != "LOT_sinkhorn":
        return False
    if c["params"].get("metric") != "euclidean":
        return False
    far = [j for j, v in enumerate(c["vectors"]) if math.sqrt(sum(x * x for x in v)) > 700.0]
    return any(c["items"][i][j] > 0 for i in op["idx"] for j in far) or \
        any(c["items"][i][j] > 0 for i in range(len(c["items"])) for j in far)


def trim16(c):
    blk = [op for op in c["ops"] if op["tag"].startswith("block")]
    keep = [op for op in c["ops"] if not op["tag"].startswith("block")] + blk[::3]
    d = dict(c)
    d["ops"] = keep
    return d


def finding_key(c, op):
    if far_support(c, op):
        return "sinkhorn-batch-nonfinite-break:far-support-point"
    return None


def coq_zl(xs):
    return "[" + "; ".join("(%d)%%Z" % x for x in xs) + "]"


def model_eval(cases, results):
    """Correspondence of Model/K19_RowWise.v: (1) sizes of the successive per-block / per-chunk kernel calls of the
    LOT family vs block_sizes / chunk_sizes, (2) unhashed LZ rows vs csr_rows (lz_transform ...), (3) BPE
    'sequences' vs map bpe_encode.  Returns (disagreements, number of compared observations)."""
    exprs, checks = [], []
    for c, r in zip(cases, results):
        if "ok" not in r:
            continue
        outs = r["ok"]
        if c["est"] in ("Wasserstein", "Sinkhorn"):
            method = c["params"].get("method", "LOT_sinkhorn")
            if method == "HeuristicLinearAlgebra":
                continue
            for op, o in zip(c["ops"], outs):
                if "calls" not in o:
                    continue
                n, b = len(op["idx"]), o["b"]
                if method == "LOT_sinkhorn":
                    exprs.append("chunk_sizes %d%%nat %d%%nat %d%%nat" % (b, o["c"], n))
                    want = o["calls"]
                else:
                    exprs.append("block_sizes %d%%nat %d%%nat" % (b, n))
                    # the generator path skips empty blocks; the spmatrix / lil paths call the kernel on them
                    want = o["calls"]
                    if c["data_kind"] == "generator":
                        checks.append((c, "kernel call sizes (op %s)" % op["tag"], want, "nonzero"))
                        continue
                checks.append((c, "kernel call sizes (op %s)" % op["tag"], want, "eq"))
        elif c["est"] == "LZ" and not r["extra"].get("hashed", True):
            cd = "[" + "; ".join("(%s, (%d)%%Z)" % (coq_zl(k), v) for k, v in r["extra"]["coldict"]) + "]"
            X = "[" + "; ".join(coq_zl([ord(ch) for ch in c["items"][i]]) for i in c["ops"][0]["idx"]) + "]"
            ms = min(c["params"]["max_dict_size"], 1000)     # strings are far shorter: the cap value itself is irrelevant above
            exprs.append("csr_rows (lz_transform (list Z) list_eqb (fun p => p) %s [] %d%%nat %s)" % (cd, ms, X))
            rows = [sorted([j, int(v)] for j, v in enumerate(row) if v != 0) for row in outs[0]["rows"]]
            checks.append((c, "LZ rows", rows, "lz"))
        elif c["est"] == "BPE" and c["params"]["return_type"] == "sequences":
            cl = "[" + "; ".join("((%d)%%Z, (%d)%%Z)" % (a, b) for a, b in r["extra"]["code_list"]) + "]"
            X = "[" + "; ".join(coq_zl([ord(ch) for ch in c["items"][i]]) for i in c["ops"][0]["idx"]) + "]"
            exprs.append("map (bpe_encode %s (%d)%%Z) %s" % (cl, r["extra"]["mcc"], X))
            checks.append((c, "BPE sequences", outs[0]["rows"], "eq"))
    vals = C.coq_eval_sharded("C12", HEADER, exprs, shard=120)
    bad = []
    for (c, what, want, mode), got in zip(checks, vals):
        if mode == "nonzero":
            got = [x for x in got if x != 0]
            want = [x for x in want if x != 0]
        elif mode == "lz":
            got = [sorted([int(a), int(b)] for a, b in row) for row in got]
        if got != want:
            bad.append(("%s %s: implementation %s, model %s" % (c["est"], what, str(want)[:200], str(got)[:200]),
                        {"case": c, "impl": want, "model": got}))
    return bad, len(checks)
