"""C12 — each output row depends only on its own input item and the fitted model.
Proof gate (Properties/C12.v: the map laws, the batching skeletons, the block/chunk index arithmetic, the chunk loop
inside the LOT kernels) + correspondence of Model/K19_RowWise.v (blocks / chunks ranges, rows written by the kernels'
chunk loop, LZ per-string rebuild from the base dictionary in phrase or hashed key space, BPE per-string encode) with
the implementation + property oracle on EVERY estimator of the property's list: for a fitted estimator and a batch
`items`, transform(items[idx]) must equal the rows idx of transform(items) for sub-batches (A, B with A+B = items),
a permutation, a batch with a duplicated item, singletons, and for the whole batch under block / chunk sizes
{1,2,3,n-1,n,n+1}; long batches (more than one 256-row chunk in one block of the LOT kernels, several Sinkhorn chunks,
~100 strings for the parallel BPE loop) against their halves, a permutation and block sizes around 256; under
NUMBA_NUM_THREADS 1 and 16."""
import math

from . import common as C

HEADER = """From Coq Require Import ZArith List Arith.
From VZ Require Import Model.K19_RowWise.
Import ListNotations.
"""

COUNT_ESTS = {"Ngram", "Skipgram", "LZ", "BPE", "Histogram", "SlidingWindow"}   # compared exactly
# the two thread settings run in different processes, each with its own fit; their outputs are compared with each
# other only where fit involves no randomized SVD / GMM (whose thread dependence is not C12's subject)
CROSS_RUN = COUNT_ESTS | {"KDE", "InfoWeight", "RowDenoise"}
REL = 1e-6                                                                       # numeric outputs


# ------------------------------------------------------------------ ops
def block_sizes(n):
    return sorted(set(b for b in (1, 2, 3, n - 1, n, n + 1) if b >= 1))


def make_ops(rng, n, blocks=False, chunks=False, singles=(), max_singles=3):
    """Sub-batches of range(n): the whole batch, a split A + B, a permutation, a duplicated item, singletons (a random
    one and every index of `singles` = the boundary items of the case), and the block / chunk size variants."""
    full = list(range(n))
    ops = [{"tag": "full", "idx": full}]
    k = rng.randint(1, n - 1)
    ops += [{"tag": "A", "idx": full[:k]}, {"tag": "B", "idx": full[k:]}]
    perm = full[:]
    rng.shuffle(perm)
    ops.append({"tag": "perm", "idx": perm})
    j, pos = rng.randrange(n), rng.randint(0, n)
    ops.append({"tag": "dup", "idx": full[:pos] + [j] + full[pos:]})
    for i in [rng.randrange(n)] + [i for i in singles][:max_singles]:
        ops.append({"tag": "single", "idx": [i]})
    if blocks or chunks:
        bs = block_sizes(n) if blocks else [None]
        cs = block_sizes(n) if chunks else [None]
        combos = [(b, None) for b in bs if b is not None] + [(None, c) for c in cs if c is not None]
        if blocks and chunks:
            combos += [(rng.choice(bs), rng.choice(cs)) for _ in range(3)] + [(1, 1), (n, n)]
        for b, c in combos:
            ops.append({"tag": "block", "idx": full, "block": b, "chunk": c})
        b, c = rng.choice(combos)
        ops.append({"tag": "block-perm", "idx": perm, "block": b, "chunk": c})
    return ops


def make_long_ops(rng, n, lot=False, chunk=None):
    """A long batch: the whole batch against its two halves and a permutation.  For the LOT family (`lot`) the
    whole batch is ONE block whose size keeps the kernels' chunk size at its floor of 256 rows
    (chunk_size = max(256, block_size // 64)), so that a batch of more than 256 rows runs the chunk loop inside
    lot_vectors_*_internal more than once; further variants: the default memory size (one huge chunk), blocks of
    exactly 256 rows, of 257..n-1 rows (every block but the last has a partial second chunk), of n rows."""
    full = list(range(n))
    h = n // 2
    perm = full[:]
    rng.shuffle(perm)
    b1 = rng.choice([n + 1, 1000, 4096, 16384]) if lot else None
    ops = [{"tag": "full", "idx": full, "block": b1, "chunk": chunk},
           {"tag": "A", "idx": full[:h], "block": b1, "chunk": chunk},
           {"tag": "B", "idx": full[h:], "block": b1, "chunk": chunk},
           {"tag": "perm", "idx": perm, "block": b1, "chunk": chunk}]
    if lot:
        for b in [None, 256, rng.randint(257, n - 1), n] if n > 257 else [None, 256, n]:
            ops.append({"tag": "block", "idx": full, "block": b, "chunk": chunk})
        ops.append({"tag": "block-perm", "idx": perm, "block": rng.choice([256, n - 1]), "chunk": chunk})
    return ops


# ------------------------------------------------------------------ generators (one per estimator)
LET = "abcde"


def doc(rng, lo, hi, alphabet=LET):
    return [rng.choice(alphabet) for _ in range(rng.randint(lo, hi))]


def boundary(items, pred):
    return [i for i, x in enumerate(items) if pred(x)]


def gen_ngram(rng):
    fit = [doc(rng, 0, 8) for _ in range(rng.randint(3, 6))] + [list(LET)]
    items = [doc(rng, 0, 7, LET + "z") for _ in range(rng.randint(3, 6))]
    if rng.random() < 0.5:
        items.append([])
    p = {"ngram_size": rng.choice([1, 2, 3]), "ngram_behaviour": rng.choice(["exact", "subgrams"])}
    if rng.random() < 0.5:
        # unknown tokens become the mask token instead of being dropped
        p["mask_string"] = rng.choice(["MASK", "a"])
        p["nullify_mask"] = rng.random() < 0.5
    if rng.random() < 0.3:
        p["min_occurrences"] = 2                 # prunes the dictionary: training tokens unseen by the fitted model
    return {"est": "Ngram", "params": p, "data_kind": "tokens", "fit": fit, "items": items,
            "ops": make_ops(rng, len(items), singles=boundary(items, lambda d: len(d) < p["ngram_size"]))}


def gen_skipgram(rng):
    fit = [doc(rng, 2, 8) for _ in range(rng.randint(3, 5))]
    # any batch: items without skip-grams (empty, one token, only unknown tokens), batches that do not reach the
    # highest fitted column, batches made of such items only (singletons)
    items = [doc(rng, 0, 7, LET + "z") for _ in range(rng.randint(3, 5))]
    items.append(rng.choice([[], [rng.choice(LET)], ["z", "z"]]))
    rng.shuffle(items)
    p = {"window_radius": rng.choice([1, 2, 3]), "kernel_function": rng.choice(["flat", "harmonic", "geometric"]),
         "window_function": rng.choice(["fixed", "fixed", "variable"])}
    if rng.random() < 0.3:
        p["min_occurrences"] = 2
    return {"est": "Skipgram", "params": p, "data_kind": "tokens", "fit": fit, "items": items,
            "ops": make_ops(rng, len(items), singles=boundary(items, lambda d: len([t for t in d if t != "z"]) < 2))}


def rstring(rng, lo, hi, alphabet="abc"):
    return "".join(rng.choice(alphabet) for _ in range(rng.randint(lo, hi)))


def gen_lz(rng):
    alpha = rng.choice(["ab", "abc", "ab", "a", "ab\u00e9"])
    fit = [rstring(rng, 0, 12, alpha) for _ in range(rng.randint(3, 6))]
    # any strings: unseen phrases, unseen characters (in the base dictionary or not: 'w' never is), empty and
    # 1-character strings, training strings
    wide = alpha + rng.choice(["", "z", "z", "z\u4e2d"])
    items = [rng.choice(fit) if rng.random() < 0.25 else rstring(rng, 0, 12, wide) for _ in range(rng.randint(3, 5))]
    items.append(rstring(rng, 1, 8, alpha + "w"))
    items.append(rng.choice(["", rng.choice(wide), rng.choice(items)]))
    rng.shuffle(items)
    p = {"max_dict_size": rng.choice([2, 3, 5, 8, 1 << 16, 1 << 16, 1 << 16]), "max_columns": rng.choice([None, None, 8, 64]),
         "random_state": rng.choice([0, 1, 7])}
    c = {"est": "LZ", "params": p, "data_kind": "strings", "fit": fit, "items": items}
    if rng.random() < 0.6:
        # base_dictionary: phrase -> initial count (LZW style alphabets, longer phrases, characters that never occur,
        # more entries than max_dict_size); the implementation side puts it in hashed key space when max_columns is set
        kind = rng.choice(["alphabet", "phrases", "mixed"])
        base = {}
        if kind in ("alphabet", "mixed"):
            for ch in (alpha if kind == "alphabet" else wide):
                base[ch] = rng.choice([1, 1, 2])
        if kind in ("phrases", "mixed"):
            for _ in range(rng.randint(1, 4)):
                base[rstring(rng, 1, 3, wide + "q")] = rng.choice([1, 3, 10])
        if rng.random() < 0.3:
            base[""] = rng.choice([1, 4])
        c["base"] = [[k, v] for k, v in base.items()]
    c["ops"] = make_ops(rng, len(items), singles=boundary(items, lambda s: len(s) <= 1))
    return c


def gen_bpe(rng):
    rt = rng.choice(["sequences", "tokens", "matrix"])
    alpha = rng.choice(["ab", "abc"])
    fit = [rstring(rng, 2, 12, alpha) for _ in range(rng.randint(3, 6))]
    if rng.random() < 0.3:
        fit.append(rstring(rng, 2, 5, alpha) + "\u00e9")
    p = {"max_vocab_size": rng.choice([1, 2, 4, 8, 50]), "min_token_occurrence": rng.choice([1, 2]), "return_type": rt,
         "max_char_code": rng.choice([0, 0, "ascii", 300])}
    # any strings, for every return type: unseen codes, characters above max_char_code_, strings that collapse to a
    # single code (powers of the learned tokens), empty and 1-character strings, training strings
    wide = alpha + "z\u00e9\u0142\u4e2d"
    items = []
    for _ in range(rng.randint(3, 6)):
        r = rng.random()
        if r < 0.2:
            items.append(rng.choice(fit))
        elif r < 0.4:
            items.append(rng.choice(alpha) * rng.choice([2, 4, 8]) if rng.random() < 0.5 else rstring(rng, 1, 2, alpha) * rng.choice([1, 2, 4]))
        else:
            items.append(rstring(rng, 0, 10, rng.choice([alpha, wide])))
    items.append(rng.choice(["", rng.choice(wide), rng.choice(alpha) * 2]))
    rng.shuffle(items)
    return {"est": "BPE", "params": p, "data_kind": "strings", "fit": fit, "items": items,
            "ops": make_ops(rng, len(items), singles=boundary(items, lambda s: len(s) <= 1))}


def gen_bpe_long(rng):
    """a batch long enough for the parallel loop of bpe_encode_all to hand several items to every thread"""
    c = gen_bpe(rng)
    alpha = "abc"
    c["items"] = [rstring(rng, 0, 9, alpha + "z") for _ in range(rng.choice([97, 128, 150]))]
    c["ops"] = make_long_ops(rng, len(c["items"]))
    c["long"] = True
    return c


def nums(rng, lo, hi, k):
    return [rng.randint(lo * 4, hi * 4) / 4.0 for _ in range(k)]


def gen_hist(rng):
    fit = [nums(rng, 0, 10, rng.randint(2, 6)) for _ in range(3)] + [[0.0, 10.0]]
    items = [nums(rng, -3, 13, rng.randint(0, 7)) for _ in range(rng.randint(3, 6))]
    p = {"n_components": rng.choice([2, 3, 5]), "strategy": rng.choice(["uniform", "quantile"]),
         "append_outlier_bins": rng.random() < 0.5}
    if rng.random() < 0.5:
        p["absolute_range"] = [-1.0, 12.0]
    return {"est": "Histogram", "params": p, "data_kind": "numlists", "fit": fit, "items": items,
            "ops": make_ops(rng, len(items))}


def gen_kde(rng):
    fit = [nums(rng, 0, 10, rng.randint(2, 6)) for _ in range(3)] + [[0.0, 10.0]]
    items = [nums(rng, -3, 13, rng.randint(1, 7)) for _ in range(rng.randint(3, 6))]
    p = {"bandwidth": rng.choice([0.3, 1.0, 2.0]), "n_components": rng.choice([3, 6]),
         "evaluation_grid_strategy": rng.choice(["uniform", "density"]),
         "kernel": rng.choice(["gaussian", "gaussian", "exponential", "tophat"])}
    return {"est": "KDE", "params": p, "data_kind": "numarrays", "fit": fit, "items": items,
            "ops": make_ops(rng, len(items))}


def cloud(rng, k, d=2):
    c = rng.choice([(0, 0), (4, 4), (0, 5)])
    return [[c[j % 2] + rng.gauss(0, 1) for j in range(d)] for _ in range(k)]


def gen_distribution(rng):
    fit = [cloud(rng, rng.randint(4, 8)) for _ in range(6)]
    items = [cloud(rng, rng.randint(1, 6)) for _ in range(rng.randint(3, 5))]
    p = {"n_components": rng.choice([2, 3]), "random_state": 0}
    return {"est": "Distribution", "params": p, "data_kind": "clouds", "fit": fit, "items": items,
            "ops": make_ops(rng, len(items))}


def dist_matrix(rng, n, v, density=0.6):
    rows = []
    for _ in range(n):
        r = [round(rng.random() + 0.05, 3) if rng.random() < density else 0.0 for _ in range(v)]
        if sum(r) == 0:
            r[rng.randrange(v)] = 1.0
        rows.append(r)
    return rows


def vecs(rng, v, d):
    return [[round(rng.gauss(0, 1), 3) for _ in range(d)] for _ in range(v)]


WASS_COMBOS = [("LOT_exact", "spmatrix"), ("LOT_exact", "lil"), ("LOT_exact", "generator"), ("LOT_sinkhorn", "spmatrix"),
               ("HeuristicLinearAlgebra", "spmatrix")]
_wass_counter = [0]


def lil_data(rng, n, d, lo, hi):
    sizes = [rng.randint(lo, hi) for _ in range(n)]
    return [[round(rng.random() + 0.05, 3) for _ in range(s)] for s in sizes], [vecs(rng, s, d) for s in sizes]


def gen_wasserstein(rng, combo=None, long_n=None, metric=None):
    if combo is None:
        combo = WASS_COMBOS[_wass_counter[0] % len(WASS_COMBOS)]       # every (method, input_method) in turn
        _wass_counter[0] += 1
    method, inp = combo
    v, d = rng.choice([5, 7]), rng.choice([2, 3])
    metric = metric or rng.choice(["euclidean", "cosine"])
    p = {"method": method, "input_method": inp, "n_components": 3, "reference_size": rng.choice([3, 4]),
         "metric": metric, "random_state": 0}
    if method == "LOT_exact" and rng.random() < 0.4:
        p["max_distribution_size"] = rng.choice([2, 3])             # larger supports are truncated, row by row
    n = long_n or rng.randint(4, 6)
    if long_n:
        v, d = rng.choice([5, 6]), 2
    c = {"est": "Wasserstein", "params": p, "data_kind": inp}
    if inp == "spmatrix":
        c["vectors"] = vecs(rng, v, d)
        c["fit"] = dist_matrix(rng, 8, v)
        c["items"] = dist_matrix(rng, n, v)
        deg = degenerate_rows(rng, c, counts=False)
        n = len(c["items"])
    else:
        deg = []
        if inp == "generator":
            p["generator_vector_dim"] = d
            p["generator_n_distributions"] = 8
            c["reference_vectors"] = vecs(rng, p["reference_size"], d)
        # supports of different sizes, for every metric
        c["fit"], c["fit_vectors"] = lil_data(rng, 8, d, 2, 5)
        c["items"], c["item_vectors"] = lil_data(rng, n, d, 1, 5)
    if long_n:
        c["long"] = True
        c["ops"] = make_long_ops(rng, n, lot=(method != "HeuristicLinearAlgebra"),
                                 chunk=(rng.choice([32, 7]) if method == "LOT_sinkhorn" else None))
        if method == "LOT_exact" and inp in ("spmatrix", "lil"):
            # correspondence of the kernels' own chunk loop: the raw kernel is re-run on the whole batch with these
            # chunk sizes and the rows it writes are compared with Model.kernel_written
            c["probe_chunks"] = sorted(set([1, 7, 255, 256, 257, n - 1, n, n + 1, rng.randint(2, n)]))
    else:
        c["ops"] = make_ops(rng, n, blocks=(method != "HeuristicLinearAlgebra"), chunks=(method == "LOT_sinkhorn"),
                            singles=deg, max_singles=4)
    return c


def long_sizes(rng):
    """more than one chunk of 256 rows in one block: just above the chunk size, in the middle, on / around a multiple"""
    return rng.choice([257, 258, 300, 511, 512, 513])


def gen_sinkhorn(rng, long_n=None):
    v, d = rng.choice([5, 7]), rng.choice([2, 3])
    n = long_n or rng.randint(4, 6)
    p = {"n_components": 3, "reference_size": rng.choice([3, 4]), "metric": rng.choice(["euclidean", "cosine"]),
         "random_state": 0}
    c = {"est": "Sinkhorn", "params": p, "data_kind": "spmatrix", "vectors": vecs(rng, v, d),
         "fit": dist_matrix(rng, 8, v), "items": dist_matrix(rng, n, v)}
    deg = degenerate_rows(rng, c, counts=False)
    n = len(c["items"])
    if long_n:
        c["long"] = True
        c["ops"] = make_long_ops(rng, n, lot=False, chunk=rng.choice([32, 32, 13]))
        c["ops"] += [{"tag": "block", "idx": list(range(n)), "block": b, "chunk": 32} for b in (33, n - 1)]
    else:
        c["ops"] = make_ops(rng, n, blocks=True, chunks=True, singles=deg, max_singles=4)
    return c


def gen_approx(rng):
    v, d = rng.choice([5, 7]), rng.choice([2, 3])
    n = rng.randint(4, 6)
    p = {"n_components": 2, "random_state": 0, "normalization_power": rng.choice([1.0, 0.66])}
    c = {"est": "ApproxWasserstein", "params": p, "data_kind": "spmatrix", "vectors": vecs(rng, v, d),
         "fit": dist_matrix(rng, 8, v), "items": dist_matrix(rng, n, v)}
    deg = degenerate_rows(rng, c, counts=False)
    c["ops"] = make_ops(rng, len(c["items"]), singles=deg, max_singles=4)
    return c


def count_matrix(rng, n, f, allow_empty=False):
    rows = []
    for _ in range(n):
        r = [rng.choice([0, 0, 1, 2, 3, 5]) for _ in range(f)]
        if sum(r) == 0 and not allow_empty:
            r[rng.randrange(f)] = 1
        rows.append([float(x) for x in r])
    return rows


def gen_infoweight(rng):
    f = rng.choice([4, 6])
    fit = count_matrix(rng, 8, f) + [[1.0] * f]
    n = rng.randint(3, 6)
    p = {"approx_prior": rng.random() < 0.5, "weight_power": rng.choice([1.0, 2.0]),
         "prior_strength": rng.choice([1e-4, 0.1])}
    c = {"est": "InfoWeight", "params": p, "data_kind": "counts", "fit": fit,
         "items": count_matrix(rng, n, f, allow_empty=True)}
    deg = degenerate_rows(rng, c, counts=True)
    c["ops"] = make_ops(rng, len(c["items"]), singles=deg, max_singles=4)
    if rng.random() < 0.4:
        c["y"] = [i % 3 for i in range(len(fit))]          # supervised weights (fit(X, y))
    return c


_rd_counter = [0]


def gen_rowdenoise(rng):
    f = rng.choice([4, 6])
    fit = count_matrix(rng, 8, f) + [[1.0] * f]
    n = rng.randint(3, 6)
    _rd_counter[0] += 1
    p = {"normalize": _rd_counter[0] % 2 == 0}               # both settings in every run (False first)
    if rng.random() < 0.5:
        p.update({"em_background_prior": rng.choice([1.0, 5.0]), "em_prior_strength": rng.choice([0.3, 0.5, 0.0]),
                  "em_threshold": rng.choice([1e-8, 1e-5, 0.05]), "em_precision": rng.choice([1e-7, 1e-4])})
    c = {"est": "RowDenoise", "params": p, "data_kind": "counts", "fit": fit, "items": count_matrix(rng, n, f)}
    deg = degenerate_rows(rng, c, counts=True)
    c["ops"] = make_ops(rng, len(c["items"]), singles=deg, max_singles=4)
    return c


def gen_cfc(rng):
    f = rng.choice([5, 6])
    fit = count_matrix(rng, 10, f) + [[1.0] * f]
    n = rng.randint(3, 6)
    # n_components >= n_features: the fitted model is the identity (no compression learned)
    p = {"n_components": rng.choice([2, 2, 3, f]), "random_state": 0, "rescaling_power": rng.choice([0.5, 1.0]),
         "algorithm": rng.choice(["randomized", "arpack"])}
    c = {"est": "CFC", "params": p, "data_kind": "counts", "fit": fit, "items": count_matrix(rng, n, f)}
    deg = degenerate_rows(rng, c, counts=True)
    c["ops"] = make_ops(rng, len(c["items"]), singles=deg, max_singles=4)
    return c


def gen_sliding(rng):
    w = rng.randint(1, 4)
    items = [[float(rng.randint(-9, 9)) for _ in range(w + rng.randint(0, 6))] for _ in range(rng.randint(3, 5))]
    p = {"window_width": w, "window_stride": rng.randint(1, 3)}
    if rng.random() < 0.3:
        p["pad_width"], p["pad_value"] = 1, 0
    r = rng.random()
    if r < 0.2 and w >= 2:
        p["window_sample"] = 2                                              # every 2nd entry of the window
    elif r < 0.35 and w >= 2:
        p["window_sample"] = {"pair": [1, 1]}                               # (start, stride)
    elif r < 0.5:
        p["window_sample"] = sorted(rng.sample(range(w), rng.randint(1, w)), reverse=rng.random() < 0.5)
    if rng.random() < 0.4:
        p["kernels"] = [rng.choice(["average", ["gaussian_weight", 1.0]])]
    return {"est": "SlidingWindow", "params": p, "data_kind": "numarrays", "fit": items[:2], "items": items,
            "ops": make_ops(rng, len(items), singles=boundary(items, lambda x: len(x) == w))}


# ------------------------------------------------------------------ rows of degenerate shapes (matrix-input estimators)
def degenerate_rows(rng, c, counts):
    """Adds to the batch of a matrix-input case (RowDenoise, InfoWeight, CFC: counts; Wasserstein spmatrix, Sinkhorn,
    ApproxWasserstein: distributions) rows of degenerate shapes:
      * a row with exactly ONE stored entry,
      * a row with one non-zero entry plus explicitly stored zeros (c["explicit_zeros"] = [[row, column], ...]; the
        implementation side stores them in the CSR matrix),
      * an all-equal row (every feature the same value),
    one of them first, one in the middle, one last (in random assignment), the middle one right after a multi-entry row
    of much larger mass (x256 counts / x1000 for distributions) and followed by a row of much smaller mass and by a
    second one-entry row (so that every batch has a one-entry row preceded by ordinary rows of very different mass).
    Returns the indices of the added degenerate rows (they are also transformed as singletons)."""
    items = c["items"]
    f = len(items[0])

    def val():
        return float(rng.choice([1, 2, 7])) if counts else round(rng.random() + 0.05, 3)

    def one_entry():
        r = [0.0] * f
        r[rng.randrange(f)] = val()
        return r
    multi = [r for r in items if sum(1 for x in r if x != 0) >= 2]
    src = list(rng.choice(multi)) if multi else [val() for _ in range(f)]
    heavy = [x * (256.0 if counts else 1000.0) for x in src]
    src2 = list(rng.choice(multi)) if multi else [val() for _ in range(f)]
    if counts:
        light = [1.0 if x != 0 else 0.0 for x in src2]
    else:
        light = [x * 0.001 for x in src2]
    shapes = [("one", one_entry()), ("one+zeros", one_entry()),
              ("equal", [float(rng.choice([1, 3])) if counts else rng.choice([1.0, 0.25])] * f)]
    rng.shuffle(shapes)
    h = rng.randint(0, len(items))
    new = [shapes[0][1]] + items[:h] + [heavy, shapes[1][1], light, one_entry()] + items[h:] + [shapes[2][1]]
    pos = {shapes[0][0]: 0, shapes[1][0]: h + 2, shapes[2][0]: len(new) - 1}
    second_one = h + 4
    i = pos["one+zeros"]
    nz = [j for j, x in enumerate(new[i]) if x != 0][0]
    zs = rng.sample([j for j in range(f) if j != nz], rng.choice([1, 2]))
    c["items"] = new
    c["explicit_zeros"] = [[i, j] for j in sorted(zs)]
    c["degenerate"] = {"one": pos["one"], "one+zeros": i, "equal": pos["equal"], "one_after_heavy_and_light": second_one,
                       "heavy": h + 1, "light": h + 3}
    return [second_one, pos["one"], i, pos["equal"]]


def sinkhorn_far_case(est):
    """the recorded batched-Sinkhorn finding: item 0 (mass on the near points only) shares a chunk with item 1, which
    has mass on a support point at distance 800 whose kernel column exp(-cost) underflows to 0"""
    vectors = [[0.3, -0.2], [1.1, 0.4], [-0.7, 0.9], [0.2, 1.3], [-1.2, -0.5], [800.0, 0.0]]
    fit = [[0.2, 0.1, 0.3, 0.2, 0.2, 0.0], [0.5, 0.1, 0.1, 0.2, 0.1, 0.0], [0.1, 0.4, 0.2, 0.1, 0.2, 0.0],
           [0.3, 0.3, 0.1, 0.1, 0.2, 0.0], [0.2, 0.2, 0.2, 0.2, 0.2, 0.0], [0.1, 0.1, 0.5, 0.2, 0.1, 0.0]]
    items = [[0.2, 0.3, 0.1, 0.4, 0.0, 0.0], [0.1, 0.0, 0.0, 0.0, 0.2, 0.7], [0.3, 0.3, 0.2, 0.1, 0.1, 0.0]]
    p = {"n_components": 3, "reference_size": 3, "metric": "euclidean", "random_state": 0}
    if est == "Wasserstein":
        p.update({"method": "LOT_sinkhorn", "input_method": "spmatrix"})
    ops = [{"tag": "full", "idx": [0, 1, 2]}, {"tag": "A", "idx": [0]}, {"tag": "B", "idx": [1, 2]},
           {"tag": "block", "idx": [0, 1, 2], "block": 1, "chunk": 1}]
    return {"est": est, "params": p, "data_kind": "spmatrix", "vectors": vectors, "fit": fit, "items": items, "ops": ops}


CORPUS = [sinkhorn_far_case("Sinkhorn"), sinkhorn_far_case("Wasserstein")]

GENS = [gen_ngram, gen_skipgram, gen_lz, gen_bpe, gen_hist, gen_kde, gen_distribution, gen_wasserstein, gen_sinkhorn,
        gen_approx, gen_infoweight, gen_rowdenoise, gen_cfc, gen_sliding]
QUICK = {"Ngram": 4, "Skipgram": 4, "LZ": 6, "BPE": 6, "Histogram": 3, "KDE": 3, "Distribution": 2, "Wasserstein": 5,
         "Sinkhorn": 2, "ApproxWasserstein": 2, "InfoWeight": 3, "RowDenoise": 4, "CFC": 3, "SlidingWindow": 4}
LOT_ESTS = ("Wasserstein", "Sinkhorn", "ApproxWasserstein")


def long_cases(rng, quick):
    """at least one long batch per run for every input path of the LOT family (+ the parallel BPE loop).  The lil
    path converts the batch with typed-list extends of tuples whose compilation time grows quadratically with the
    tuple length (~15 s for 270 items, ~60 s for 512): its sizes are even (both halves compile once) and, in the
    quick tier, stay below 512; the thorough tier also crosses the 512-item conversion loop of the lil path."""
    cs = [gen_wasserstein(rng, ("LOT_exact", "spmatrix"), long_sizes(rng)),
          # generator input with metric='cosine' hands the kernel a TUPLE of normalised arrays: numba compiles the whole
          # kernel once per distinct chunk length (~10 s each), so the quick tier's long generator batch is euclidean
          gen_wasserstein(rng, ("LOT_exact", "generator"), long_sizes(rng), metric="euclidean" if quick else None),
          gen_wasserstein(rng, ("LOT_exact", "lil"), rng.choice([258, 270, 300])),
          gen_wasserstein(rng, ("LOT_sinkhorn", "spmatrix"), rng.choice([65, 70, 97])),
          gen_sinkhorn(rng, rng.choice([65, 70, 97])),
          gen_bpe_long(rng)]
    if not quick:
        cs += [gen_wasserstein(rng, ("LOT_exact", "spmatrix"), n) for n in (257, 512, 513, 700)]
        cs += [gen_wasserstein(rng, ("LOT_exact", "generator"), n) for n in (256, 512, 600)]
        # the two metrics take different conversion loops in the lil path (same compiled extends)
        cs += [gen_wasserstein(rng, ("LOT_exact", "lil"), 514, metric=m) for m in ("euclidean", "cosine")]
        cs += [gen_bpe_long(rng)]
    return cs


# ------------------------------------------------------------------ oracle
def flat(x):
    if isinstance(x, list):
        for y in x:
            yield from flat(y)
    else:
        yield x


def rows_equal(a, b, exact, scale):
    """a, b: one output row each (nested lists of numbers / strings)."""
    fa, fb = list(flat(a)), list(flat(b))
    if len(fa) != len(fb):
        return False
    for x, y in zip(fa, fb):
        if isinstance(x, str) or isinstance(y, str):
            if x != y:
                return False
        elif exact:
            if x != y:
                return False
        else:
            if not (math.isfinite(x) and math.isfinite(y)):
                if not (x == y or (x != x and y != y)):
                    return False
            elif abs(x - y) > REL * max(abs(x), abs(y)) + REL * scale:
                return False
    return True


def with_batch_format(rng, c):
    """Matrix-input estimators: the transform batches are handed over as CSR, CSC or COO (fit stays CSR)."""
    if c.get("data_kind") in ("spmatrix", "counts") and "batch_format" not in c:
        c["batch_format"] = rng.choice(["csr", "csc", "csc", "coo"])
    return c


def check_case(c, outs, ref=None):
    """The property on one case.  Returns list of (message, op).  `ref` = rows of the full batch from another
    thread-count run (cross-run comparison)."""
    bad = []
    full = outs[0]
    if "err" in full:
        return [("transform of the whole batch raised %s: %s" % (full["err"], full.get("msg")), c["ops"][0])]
    R = full["rows"]
    n = len(c["items"])
    if len(R) != n:
        return [("%d rows for %d items" % (len(R), n), c["ops"][0])]
    exact = c["est"] in COUNT_ESTS
    scale = max([abs(v) for v in flat(R) if not isinstance(v, str) and math.isfinite(v)] + [0.0])
    for op, o in zip(c["ops"][1:], outs[1:]):
        if "err" in o:
            bad.append(("transform of sub-batch %s raised %s: %s" % (op["tag"], o["err"], o.get("msg")), op))
            continue
        rows = o["rows"]
        if len(rows) != len(op["idx"]):
            bad.append(("sub-batch %s: %d rows for %d items" % (op["tag"], len(rows), len(op["idx"])), op))
            continue
        for pos, i in enumerate(op["idx"]):
            if not rows_equal(rows[pos], R[i], exact, scale):
                bad.append(("%s: row of item %d in sub-batch '%s'%s differs from its row in the whole batch: %s vs %s"
                            % (c["est"], i, op["tag"],
                               "" if op.get("block") is None and op.get("chunk") is None
                               else " (block=%s, chunk=%s)" % (op.get("block"), op.get("chunk")),
                               str(rows[pos])[:160], str(R[i])[:160]), op))
                break
    if ref is not None and "rows" in ref:
        for i in range(n):
            if not rows_equal(R[i], ref["rows"][i], exact, scale):
                bad.append(("%s: row %d differs between NUMBA_NUM_THREADS=1 and 16: %s vs %s"
                            % (c["est"], i, str(ref["rows"][i])[:160], str(R[i])[:160]), c["ops"][0]))
                break
    return bad


# ------------------------------------------------------------------ model correspondence (block / chunk ranges)
def py_blocks(b, n):
    """the loop of WassersteinVectorizer.transform: n_blocks = n // b + 1; [i*b, min(n, i*b + b))"""
    return [[i * b, min(n, i * b + b)] for i in range(n // b + 1)]


def py_chunks(c, bs, be):
    return [[j * c + bs, min(be, j * c + bs + c)] for j in range((be - bs) // c + 1)]


def run(ctx, replay=None):
    import time
    t_start = time.time()
    C.run_gate(ctx)
    t_gate = time.time()
    if replay:
        cases = [replay["case"]]
    else:
        mult = 1 if ctx.quick else 6
        _wass_counter[0] = 0
        _rd_counter[0] = 0
        cases = list(CORPUS)
        for g in GENS:
            c0 = g(ctx.rng)
            cases.append(c0)
            for _ in range(QUICK[c0["est"]] * mult - 1):
                cases.append(g(ctx.rng))
        cases += long_cases(ctx.rng, ctx.quick)
        fr = __import__("random").Random(ctx.seed * 7919 + 12)      # separate stream: leaves the case stream unchanged
        cases = [with_batch_format(fr, c) for c in cases]
    ctx.coverage["rule"] = ("for each of the 14 row-wise estimators: random small fitted model + batch (any items: unseen tokens / "
                            "phrases / codes / characters, empty and 1-element items, items without output entries; for the "
                            "matrix-input estimators (RowDenoise with normalize False and True, InfoWeight, CFC, Wasserstein "
                            "spmatrix, Sinkhorn, ApproxWasserstein) every batch also holds a row with exactly one stored entry, a "
                            "row with one entry plus explicitly stored zeros, an all-equal row -- first / middle / last, after a "
                            "row of x256 (x1000) mass and before one of tiny mass -- and a second one-entry row after those); "
                            "sub-batches A, B (A+B = batch), a permutation, a duplicated item, singletons (a random one and the "
                            "boundary items), and the whole batch under block/chunk sizes {1,2,3,n-1,n,n+1} (memory_size / "
                            "sinkhorn_chunk_size / chunk_size); long batches (> 256 rows in one block of the LOT kernels, "
                            "> 2 Sinkhorn chunks, ~100 strings for the parallel BPE loop) against their halves, a permutation "
                            "and block sizes 256 / 257..n-1 / n / default; each under NUMBA_NUM_THREADS=1 and (a third of the "
                            "cases) 16; non-trivial = batch of >= 3 items; distinct by case hash")
    ctx.assumptions += ["count outputs compared exactly; numeric outputs at |a-b| <= 1e-6*max(|a|,|b|) + 1e-6*max|output|",
                        "with max_columns set the LZ base_dictionary is given in hashed key space (keys hashed by the harness "
                        "with the library's murmurhash and the seed the estimator derives from random_state)",
                        "a block size larger than the batch is passed to the model as n+1 (C12_blocks_larger)",
                        "quick tier: the 512-item conversion loop of WassersteinVectorizer input_method='lil' is not crossed "
                        "(numba needs ~2 min to compile the 512-tuple extends); the thorough tier crosses it",
                        "thread schedules are not modelled; what is run is NUMBA_NUM_THREADS in {1, 16}"]
    from concurrent.futures import ThreadPoolExecutor
    # three children: NUMBA_NUM_THREADS=1 for the LOT family and for the other estimators, and a 16-thread run that is
    # slow on tiny inputs (thread launch per prange): it gets every third small case of each estimator, every small
    # Wasserstein (method, input_method) combination, of the block / chunk variants every third one, and the long
    # batches except the LOT_exact ones (their kernels are sequential but start one tiny parallel region per row)
    seen, in16 = {}, []
    for c in cases:
        if c.get("long"):
            in16.append(c["params"].get("method", "") != "LOT_exact")
            continue
        seen[c["est"]] = seen.get(c["est"], 0) + 1
        in16.append(seen[c["est"]] % 3 == 1 or c["est"] == "Wasserstein")
    groups = {"1:lot": [i for i, c in enumerate(cases) if c["est"] in LOT_ESTS],
              "1:other": [i for i, c in enumerate(cases) if c["est"] not in LOT_ESTS],
              "16": [i for i, k in enumerate(in16) if k]}
    groups = {g: ix for g, ix in groups.items() if ix}
    payload = {g: [trim16(cases[i]) if g == "16" else cases[i] for i in ix] for g, ix in groups.items()}
    with ThreadPoolExecutor(max_workers=len(groups)) as ex:
        futs = {g: ex.submit(C.run_impl, "c12", payload[g], {"NUMBA_NUM_THREADS": g.split(":")[0]}) for g in groups}
        raw = {g: f.result() for g, f in futs.items()}
    t_impl = time.time()
    ctx.coverage["modes"] = {"NUMBA_NUM_THREADS=" + g: {"wall_s": raw[g][1]["wall_s"], "cases": len(groups[g]),
                                                        "ops": sum(len(c["ops"]) for c in payload[g])} for g in groups}
    results = {"1": {}, "16": {}}                    # thread setting -> case index -> (case as run, result)
    for g, ix in groups.items():
        res, info = raw[g]
        cs = payload[g]
        if res is None or len(res) != len(cs):
            done = len(res) if res else 0
            ctx.report("implementation child (NUMBA_NUM_THREADS=%s) died (rc=%s) on case %d: %s"
                       % (g, info["rc"], done, info["tail"][-400:]),
                       {"stage": "impl-crash", "case": cs[done] if done < len(cs) else None, "threads": g},
                       found_input=True)
            res = (res or []) + [{"err": "crash"}] * (len(cs) - done)
        for i, cc, r in zip(ix, cs, res):
            results[g.split(":")[0]][i] = (cc, r)
    n_oracle = 0
    per_est, failing = {}, {}
    for i, c in enumerate(cases):
        kind = "%s:%s" % (c["est"], c["params"].get("method", c["params"].get("return_type", c["data_kind"])))
        if c["est"] == "Wasserstein":
            kind += ":" + c["data_kind"]
        if c.get("long"):
            kind += ":long"
        if c["est"] == "LZ":
            kind += (":base" if c.get("base") else "") + (":hashed" if c["params"]["max_columns"] else "")
        ctx.count_case({k: c[k] for k in ("est", "params", "items")}, nontrivial=len(c["items"]) >= 3, kind=kind)
        for tag in ("1", "16"):
            if i not in results[tag]:
                continue
            cc, r = results[tag][i]
            if "ok" not in r:
                if r.get("err") != "crash":
                    ctx.report("%s: fit raised %s: %s (NUMBA_NUM_THREADS=%s)" % (c["est"], r.get("err"), r.get("msg"), tag),
                               {"stage": "oracle", "case": c, "actual": r, "threads": tag}, found_input=True)
                continue
            n_oracle += 1
            if tag == "1":
                t = per_est.setdefault(c["est"], [0, 0.0])
                t[0] += 1
                t[1] += r["t"][1]
            ref = None
            if tag == "16" and i in results["1"] and "ok" in results["1"][i][1] and c["est"] in CROSS_RUN:
                ref = results["1"][i][1]["ok"][0]
            bad = check_case(cc, r["ok"], ref)
            for msg, op in bad[:1]:
                key = finding_key(c, op)
                if key is None:
                    failing[kind] = failing.get(kind, 0) + 1           # ctx.report keeps the first five replays only
                ctx.report(msg + " (NUMBA_NUM_THREADS=%s)" % tag,
                           {"stage": "oracle", "case": c, "op": op, "threads": tag}, found_input=True, finding_key=key)
    t_oracle = time.time()
    one = [results["1"].get(i, (None, {}))[1] for i in range(len(cases))]
    model_bad = model_eval(cases, one)
    ctx.coverage["oracle"] = {"cases": n_oracle, "ops": sum(len(c["ops"]) for g in payload for c in payload[g]),
                              "failing_cases_by_kind": failing}
    ctx.coverage["correspondence"] = {"cases": model_bad[1], "disagreements": len(model_bad[0]),
                                      "model": "Model/K19_RowWise.v via vm_compute", "by_kind": model_bad[2]}
    ctx.coverage["traces_validated_against_impl"] = model_bad[1]
    ctx.coverage["timing_s"] = {"gate": round(t_gate - t_start, 1), "implementation": round(t_impl - t_gate, 1),
                                "oracle": round(t_oracle - t_impl, 1), "model": round(time.time() - t_oracle, 1),
                                "per_estimator_1thread": {k: [v[0], round(v[1], 1)] for k, v in per_est.items()}}
    if model_bad[0] and not any(v["found_input"] for v in ctx.violations):
        what, detail = model_bad[0][0]
        ctx.report("model K19_RowWise and implementation disagree (no property-level failure found): " + what,
                   {"stage": "correspondence", "correspondence": "Model/K19_RowWise.v", "detail": detail}, found_input=False)
    C.gate_violation(ctx)
    return ctx.finish("proof")


def far_support(c, op):
    """the known batched-Sinkhorn defect: some item of the sub-batch has mass on a support point whose kernel column
    exp(-cost) underflows (euclidean distance to the reference beyond ~700)"""
    if c["est"] not in ("Sinkhorn", "Wasserstein") or c["params"].get("method", "LOT_sinkhorn") != "LOT_sinkhorn":
        return False
    if c["params"].get("metric") != "euclidean":
        return False
    far = [j for j, v in enumerate(c["vectors"]) if math.sqrt(sum(x * x for x in v)) > 700.0]
    return any(c["items"][i][j] > 0 for i in op["idx"] for j in far) or \
        any(c["items"][i][j] > 0 for i in range(len(c["items"])) for j in far)


def trim16(c):
    blk = [op for op in c["ops"] if op["tag"].startswith("block")]
    keep = [op for op in c["ops"] if not op["tag"].startswith("block")] + blk[::3]
    d = dict(c)
    d["ops"] = keep
    return d


def finding_key(c, op):
    if far_support(c, op):
        return "sinkhorn-batch-nonfinite-break:far-support-point"
    return None


def coq_zl(xs):
    return "[" + "; ".join("(%d)%%Z" % x for x in xs) + "]"


def coq_str(st):
    return coq_zl([ord(ch) for ch in st])


def lot_chunk_size(b):
    """chunk_size = max(256, block_size // 64) of the LOT_exact paths"""
    return max(256, b // 64)


def model_eval(cases, results):
    """Correspondence of Model/K19_RowWise.v: (1) sizes of the successive per-block / per-chunk kernel calls of the
    LOT family vs block_sizes / chunk_sizes, (2) rows written by the chunk loop inside the LOT kernels for a range of
    chunk sizes vs kernel_written, (3) LZ rows (phrase keys, or hashed keys with the hash given as a table; with and
    without base dictionary) vs csr_rows (lz_transform ...), (4) BPE 'sequences' vs map bpe_encode.
    Returns (disagreements, number of compared observations, observations by kind)."""
    exprs, checks = [], []
    for c, r in zip(cases, results):
        if "ok" not in r:
            continue
        outs = r["ok"]
        if c["est"] in ("LZ", "BPE") and "rows" not in outs[0]:
            continue                                         # the whole batch raised: reported by the oracle
        if c["est"] in ("Wasserstein", "Sinkhorn"):
            method = c["params"].get("method", "LOT_sinkhorn")
            if method == "HeuristicLinearAlgebra":
                continue
            for op, o in zip(c["ops"], outs):
                if "calls" not in o:
                    continue
                n, b = len(op["idx"]), o["b"]
                bm = min(b, n + 1)                           # blocks b n = [(0, n)] for every b > n (C12_blocks_larger)
                if method == "LOT_sinkhorn":
                    exprs.append("chunk_sizes %d%%nat %d%%nat %d%%nat" % (bm, min(o["c"], n + 1), n))
                    checks.append((c, "kernel call sizes (op %s)" % op["tag"], o["calls"], "eq", "sinkhorn chunk calls"))
                elif c["data_kind"] == "generator":
                    # the generator path feeds the kernel chunk by chunk and skips empty blocks / chunks
                    exprs.append("chunk_sizes %d%%nat %d%%nat %d%%nat" % (bm, min(lot_chunk_size(b), n + 1), n))
                    checks.append((c, "kernel call sizes (op %s)" % op["tag"], o["calls"], "nonzero", "generator chunk calls"))
                else:
                    exprs.append("block_sizes %d%%nat %d%%nat" % (bm, n))
                    checks.append((c, "kernel call sizes (op %s)" % op["tag"], o["calls"], "eq", "block calls"))
            for cs, n, written in r.get("extra", {}).get("kernel_written", []):
                exprs.append("kernel_written %d%%nat %d%%nat" % (cs, n))
                checks.append((c, "rows written by the kernel's chunk loop (chunk_size=%d, %d rows)" % (cs, n), written,
                               "eq", "kernel chunk loop"))
        elif c["est"] == "LZ":
            ex = r["extra"]
            ms = min(c["params"]["max_dict_size"], 1000)     # strings are far shorter: the cap value itself is irrelevant above
            X = "[" + "; ".join(coq_str(c["items"][i]) for i in c["ops"][0]["idx"]) + "]"
            if not ex["hashed"]:
                cd = "[" + "; ".join("(%s, (%d)%%Z)" % (coq_zl(k), v) for k, v in ex["coldict"]) + "]"
                base = "[" + "; ".join("(%s, (%d)%%Z)" % (coq_zl(k), v) for k, v in ex["base"]) + "]"
                exprs.append("csr_rows (lz_transform (list Z) list_eqb (fun p => p) %s %s %d%%nat %s)" % (cd, base, ms, X))
            elif ex.get("hashes") is not None:
                tbl = "[" + "; ".join("(%s, (%d)%%Z)" % (coq_zl(k), v) for k, v in ex["hashes"]) + "]"
                cd = "[" + "; ".join("((%d)%%Z, (%d)%%Z)" % (k, v) for k, v in ex["coldict"]) + "]"
                base = "[" + "; ".join("((%d)%%Z, (%d)%%Z)" % (k, v) for k, v in ex["base"]) + "]"
                exprs.append("csr_rows (lz_transform Z Z.eqb (table_hash %s) %s %s %d%%nat %s)" % (tbl, cd, base, ms, X))
            else:
                continue
            rows = [sorted([j, int(v)] for j, v in enumerate(row) if v != 0) for row in outs[0]["rows"]]
            checks.append((c, "LZ rows", rows, "lz", "LZ rows%s%s" % (" hashed" if ex["hashed"] else "", " base" if c.get("base") else "")))
        elif c["est"] == "BPE" and c["params"]["return_type"] == "sequences" and not c.get("long"):
            cl = "[" + "; ".join("((%d)%%Z, (%d)%%Z)" % (a, b) for a, b in r["extra"]["code_list"]) + "]"
            X = "[" + "; ".join(coq_str(c["items"][i]) for i in c["ops"][0]["idx"]) + "]"
            exprs.append("map (bpe_encode %s (%d)%%Z) %s" % (cl, r["extra"]["mcc"], X))
            checks.append((c, "BPE sequences", outs[0]["rows"], "eq", "BPE sequences"))
    vals = C.coq_eval_sharded("C12", HEADER, exprs, shard=60)
    bad, kinds = [], {}
    for (c, what, want, mode, kind), got in zip(checks, vals):
        kinds[kind] = kinds.get(kind, 0) + 1
        if mode == "nonzero":
            got = [x for x in got if x != 0]
            want = [x for x in want if x != 0]
        elif mode == "lz":
            got = [sorted([int(a), int(b)] for a, b in row) for row in got]
        if got != want:
            bad.append(("%s %s: implementation %s, model %s" % (c["est"], what, str(want)[:200], str(got)[:200]),
                        {"case": c, "impl": want, "model": got}))
    return bad, len(checks), kinds
