"""C10 — compiled kernels never access memory outside their arrays.
Proof gate: Properties/C10.v and every Properties/C10_*.v (safety halves of the index-level kernel models;
C10_idx.v: checked-access models of em_update_matrix, window_at_index, the kernels, the radius tables and the token
driver loop, whose own correspondence — direct kernel calls in the three modes vs the models evaluated in Coq — is
harness/c10_idx.py, started below in parallel with the zoo).  End-to-end correspondence for the safety
theorems: every zoo case (estimators steered to kernel edges: length-0/1 sequences and strings, radii larger than the
sequence, pruned EM cells, tiny buffers, unseen token ids) and the distance functions are executed three times —
normal compiled execution, NUMBA_BOUNDSCHECK=1 and NUMBA_DISABLE_JIT=1 — and must raise no IndexError /
UnboundLocalError and return the same result in all three modes.  A dead child is a failure of the case in flight."""
import os
from . import common as C
from . import zoo_common as Z
from . import c10_idx as IDX

MODES = [("compiled", {}), ("boundscheck", {"NUMBA_BOUNDSCHECK": "1"}), ("interpreted", {"NUMBA_DISABLE_JIT": "1"})]
MEMORY_ERRORS = ("IndexError", "UnboundLocalError", "SystemError")


def fields(r):
    if r.get("estimator") == "distances":
        return {k: ({"kind": "scalar", "v": v} if isinstance(v, float) else
                    ({"kind": "list", "items": [{"kind": "dense", "shape": [len(x)], "data": x} for x in v]} if isinstance(v, list) else v))
                for k, v in r.get("res", {}).items()}
    return {k: r[k] for k in ("fit_transform", "transform_x2") if k in r}


def scalar_close(a, b, rtol=1e-5):
    if (a != a and b != b) or a == b:
        return True
    # float32 kernels: compiled (fastmath, fused operations) and interpreted arithmetic differ at float32 level
    # (sparse_hellinger takes a square root of 1 - BC computed in float32: sqrt(float32 eps) = 3.5e-4)
    return abs(a - b) <= 1e-3 + rtol * max(abs(a), abs(b))


def run(ctx, replay=None):
    import glob
    extra = sorted(os.path.basename(p)[:-2] for p in glob.glob(os.path.join(C.COQ, "theories", "Properties", "C10_*.v")))
    C.run_gate(ctx, extra_props=extra)
    per = 3 if ctx.quick else 20
    idx_replay = replay if replay and str(replay.get("stage", "")).startswith("idx") else None
    if idx_replay:
        groups = []
    else:
        groups = [[tuple(replay["case"])]] if replay else Z.make_groups(ctx, per, light_factor=2 if ctx.quick else 1)
    # tiny accumulator buffers for the co-occurrence family are reached through coo_initial_memory in the zoo
    by_mode = {}
    from concurrent.futures import ThreadPoolExecutor
    with ThreadPoolExecutor(max_workers=8) as ex:
        futs = {m: ex.submit(Z.run_groups, groups, env, 3000, 5) for m, env in MODES}
        # index-level correspondence (Properties/C10_idx.v): direct kernel calls in the three modes + models in Coq
        idx = IDX.start(ctx, ex, idx_replay) if (idx_replay or not replay) else None
        for m in futs:
            by_mode[m] = futs[m].result()
    ctx.coverage["rule"] = ("zoo case = (estimator | distances, seed) executed in three modes; non-trivial = compiled run "
                            "returned a value; distinct by (estimator, seed)")
    ctx.assumptions += ["numba's NUMBA_BOUNDSCHECK=1 reports every out-of-range index of the compiled kernels",
                        "NUMBA_DISABLE_JIT=1 executes the same source with Python semantics (unbound variables raise)"]
    n_cmp = 0
    for gi, g in enumerate(groups):
        recs = {}
        for m, _ in MODES:
            res, info = by_mode[m][gi]
            res = res or []
            if len(res) != len(g):
                ctx.report("%s child died (rc=%s) on case %s: %s" % (m, info["rc"], g[len(res)], info["tail"][-400:]),
                           {"stage": "impl-crash", "mode": m, "case": list(g[len(res)])}, found_input=True)
            recs[m] = res + [None] * (len(g) - len(res))
        for i, (name, seed) in enumerate(g):
            base = recs["compiled"][i]
            ctx.count_case([name, seed], nontrivial=base is not None, kind=name)
            for m, _ in MODES:
                r = recs[m][i]
                if r is None:
                    continue
                for k, v in fields(r).items():
                    cv = fields(base).get(k) if base is not None else None
                    same_in_compiled = Z.is_err(cv) and cv["err"] == v.get("err") if Z.is_err(v) else False
                    # an exception raised identically by the compiled run comes from Python-level code (scipy / numpy
                    # argument checks), not from an unchecked kernel access: that is C01's business, not C10's
                    if Z.is_err(v) and v["err"] in MEMORY_ERRORS and not (m != "compiled" and same_in_compiled) \
                            and not (m == "compiled" and all(Z.is_err(fields(recs[mm][i] or {}).get(k)) and
                                                            fields(recs[mm][i] or {}).get(k)["err"] == v["err"]
                                                            for mm in ("boundscheck", "interpreted") if recs[mm][i] is not None)):
                        ctx.report("%s/%d %s in %s mode raised %s: %s" % (name, seed, k, m, v["err"], v["msg"]),
                                   {"stage": "oracle", "mode": m, "case": [name, seed], "params": r.get("params"), "result": v})
            if base is None:
                continue
            fb = fields(base)
            for m in ("boundscheck", "interpreted"):
                r = recs[m][i]
                if r is None:
                    continue
                fm = fields(r)
                for k in fb:
                    if k not in fm:
                        continue
                    if k == "transform_x2" and (base.get("degenerate_svd") or r.get("degenerate_svd")):
                        ctx.dist("skipped:degenerate_svd_transform")
                        continue
                    n_cmp += 1
                    a, b = fb[k], fm[k]
                    if Z.is_err(a) and Z.is_err(b):
                        if a["err"] != b["err"] and (a["err"] in MEMORY_ERRORS or b["err"] in MEMORY_ERRORS):
                            pass  # already reported above
                        continue
                    if isinstance(a, dict) and a.get("kind") == "scalar" and isinstance(b, dict) and b.get("kind") == "scalar":
                        d = None if scalar_close(a["v"], b["v"]) else "%r vs %r" % (a["v"], b["v"])
                    else:
                        d = Z.diff(a, b, False, max(base.get("rtol", 1e-5), 1e-5))
                    if d:
                        ctx.report("%s/%d %s: compiled and %s results differ: %s" % (name, seed, k, m, d),
                                   {"stage": "oracle", "mode": m, "case": [name, seed], "params": base.get("params"),
                                    "compiled": str(a)[:400], m: str(b)[:400]})
    ctx.coverage["oracle"] = {"mode_comparisons": n_cmp, "modes": [m for m, _ in MODES]}
    if idx is not None:
        IDX.finish(ctx, idx)
    C.gate_violation(ctx)
    return ctx.finish("proof")
