"""C05 — the learned vocabulary is exactly the tokens meeting every pruning constraint.
Proof gate (Properties/C05.v) + exhaustive (count, total) sweep of the float32 occurrence-bound comparisons
(implementation vs Model/K5_Float.v, Flocq) + correspondence of Model/K5_Vocab.v / K6_Reindex.v with
preprocessing.py through eleven entry points + property oracle (the statement evaluated directly in integers, for
the token stage and — independently of the model — for the n-gram second stage) on
  * single calls: random corpora x random constraint combinations,
  * a table-driven enumeration of every pattern of the four document bounds x occurrence/frequency bounds,
    for unigram and n-gram vocabularies,
  * histories: two or three successive fits / calls on different corpora that share the parameter OBJECTS
    (the same excluded_tokens set / list / frozenset, the same token_dictionary dict, the same estimator); every
    fit must give the vocabulary of its own corpus under the ORIGINAL parameter values and leave the parameter
    objects unchanged (compared with snapshots taken before each call)."""
import itertools
import re
from fractions import Fraction
from . import common as C

HEADER = """From Coq Require Import ZArith List Bool.
From VZ Require Import Model.K5_Vocab Model.K5_Float Model.K6_Reindex Model.C05_Instance.
Import ListNotations.
Open Scope Z_scope.
Definition mk (ign : list Z) (rx : bool) (mu : option nat) (a b c d e f g h : option Z) : config Z :=
  {| ignored := ign; use_regex := rx; max_unique := mu; min_occ := a; max_occ := b; min_freq := c; max_freq := d;
     min_dococc := e; max_dococc := f; min_docfreq := g; max_docfreq := h |}.
Definition inl_ (l : list Z) (t : Z) : bool := existsb (Z.eqb t) l.
Definition proj (r : res (list (list nat) * dict Z * list Z)) : res (dict Z * list Z) :=
  match r with Ok (s, d, fr) => Ok (d, fr) | Err e => Err e end.
(* preprocess_tree_sequences: no max_unique_tokens; document frequencies only if a tree bound is set *)
Definition tree_vocab (m : Z -> bool) (c : config Z) (docs : list (list Z)) (d0 : option (dict Z)) (mask : option Z) :=
  match learn_gen Z Z.eqb Z.ltb m f32div_fl f64div_fl f64to32_fl one64_fl (need_doc2 Z c) c docs d0 with
  | Ok (d, fr) => Ok (snd (reindex Z Z.eqb mask d []), fr)
  | Err e => Err e
  end.
(* exhaustive sweep: for a total n, the counts c in [1, n] for which, with min_occurrences = max_occurrences = c,
   the kept set among counts (c-1, c, c+1) is not exactly {c}; the comparisons are those of out_of_bounds *)
Fixpoint sweep_aux (c : Z) (fs lo hi : list Z) : list Z :=
  match fs, lo, hi with
  | f0 :: fs', _ :: lo', _ :: hi' =>
      match fs', lo', hi' with
      | f1 :: f2 :: _, l1 :: _, h1 :: _ =>
          let kept (f : Z) := negb ((f <? l1) || (h1 <? f)) in
          (if negb (kept f0) && kept f1 && negb (kept f2) then [] else [c]) ++ sweep_aux (c + 1) fs' lo' hi'
      | _, _, _ => []
      end
  | _, _, _ => []
  end.
Definition sweep_n (n : Z) : Z * list Z :=
  let cs := map Z.of_nat (seq 0 (Z.to_nat n + 2)) in
  let fs := map (fun c => f32div_fl c n) cs in
  let b64 := map (fun c => f64div_fl c n) cs in
  let lo := map f64to32_fl b64 in
  let hi := map (fun b => f64to32_fl (Z.min one64_fl b)) b64 in
  (n, sweep_aux 1 fs lo hi).
(* the same decision through the whole model on the sequence a^c b^(n-c): (kept under min_occ = c, under max_occ = c) *)
Definition e2e (n c : Z) :=
  let docs := [repeat 0 (Z.to_nat c) ++ repeat 1 (Z.to_nat (n - c))] in
  let run a b := match learn_vocab_fl (fun _ => false) (mk [] false None a b None None None None None None) docs None with
                 | Ok (d, _) => map fst d | Err _ => [(-1)] end in
  (run (Some c) None, run None (Some c)).
Definition e2e_bad (n : Z) : list Z :=
  filter (fun c => let '(a, b) := e2e n c in
                   negb (lex_eqb a (0 :: (if (0 <? n - c) && (c <=? n - c) then [1] else []))
                         && lex_eqb b (0 :: (if (0 <? n - c) && (n - c <=? c) then [1] else []))))
         (map Z.of_nat (seq 1 (Z.to_nat n))).
Definition large_probe (c n : Z) : bool * bool :=
  (negb (f64to32_fl (Z.min one64_fl (f64div_fl c n)) <? f32div_fl c n), negb (f32div_fl c n <? f64to32_fl (f64div_fl c n))).
"""

FINDING_LARGE = "C05-equal-bound-above-2p24"
ERR_CLASS = {1: "AssertionError", 2: "ZeroDivisionError"}
BOUNDS = ["min_occ", "max_occ", "min_freq", "max_freq", "min_dococc", "max_dococc", "min_docfreq", "max_docfreq"]
REGEX_POOL = ["a.*", ".", "[ab]+", "c\\d", "zz", ".*b", "a|b|ca", "..", ""]
STR_VOCAB = ["a", "b", "ab", "ba", "c1", "c2", "ca", "d", "B", "aa", "e", "f0"]
NGRAM_ENTRIES = ("ngram2", "ngramcooc", "ngramcooc_fit")       # vocabularies with a second (n-gram) stage
ESTIMATOR_ENTRIES = ("cooc", "ngram1", "ngram2", "skipgram", "ngramcooc", "ngramcooc_fit")
GIVEN_DICT_ENTRIES = ("preprocess", "cooc", "tree", "skipgram", "timed", "multi")
DOC_BOUNDS = ("min_dococc", "max_dococc", "min_docfreq", "max_docfreq")


# ------------------------------------------------------------------------------------------ rendering
def key64(f):
    """python float -> integer multiple of 2^-1074 (exact for every finite double)."""
    v = Fraction(f) * (1 << 1074)
    assert v.denominator == 1
    return int(v)


def case_tokens(case):
    toks = set(t for d in case["docs"] for t in d)
    cfg = case["cfg"]
    if cfg["excluded"]:
        toks |= set(cfg["excluded"])
    if case.get("dict"):
        toks |= set(k for k, _ in case["dict"])
    if case.get("mask") is not None:
        toks.add(case["mask"])
    return sorted(toks)


def ranks(case):
    return {t: i for i, t in enumerate(case_tokens(case))}


def coq_cfg(case, rk, tree=False):
    cfg = case["cfg"]
    ign = C.coq_list([rk[t] for t in (cfg["excluded"] or [])])
    mu = "None" if (cfg["max_unique"] is None or tree) else "(Some %d%%nat)" % cfg["max_unique"]
    parts = []
    for b in BOUNDS:
        v = cfg[b]
        if v is None:
            parts.append("None")
        elif b.endswith("occ"):
            parts.append("(Some %s)" % C.z(v))
        else:
            parts.append("(Some %s)" % C.z(key64(v)))
    return "(mk %s %s %s %s)" % (ign, C.coq_bool(cfg["regex"] is not None), mu, " ".join(parts))


def coq_matches(case, rk):
    rx = case["cfg"]["regex"]
    if rx is None:
        return "(fun _ => false)"
    m = [rk[t] for t in rk if isinstance(t, str) and re.fullmatch(rx, t) is not None]
    return "(inl_ %s)" % C.coq_list(m)


def coq_case(case):
    rk = ranks(case)
    docs = C.coq_list2([[rk[t] for t in d] for d in case["docs"]])
    d0 = "None" if case.get("dict") is None else "(Some %s)" % C.coq_list(
        case["dict"], lambda kv: "(%s, %d%%nat)" % (C.z(rk[kv[0]]), kv[1]))
    mask = "None" if case.get("mask") is None else "(Some %s)" % C.z(rk[case["mask"]])
    m = coq_matches(case, rk)
    e = case["entry"]
    if e == "tree":
        return "tree_vocab %s %s %s %s %s" % (m, coq_cfg(case, rk, tree=True), docs, d0, mask)
    if e in NGRAM_ENTRIES:
        ng = case["ngram"]
        return "ngram_vocab_fl %s %s %s %s %s %d%%nat" % (m, coq_cfg(case, rk), docs, mask,
                                                         C.coq_bool(ng["behaviour"] == "subgrams"), ng["n"])
    if e == "prune":            # prune_token_dictionary on the tables preprocess_token_sequences builds
        return "learn_vocab_fl %s %s %s None" % (m, coq_cfg(case, rk), docs)
    return "proj (preprocess_fl %s %s %s %s %s)" % (m, coq_cfg(case, rk), docs, d0, mask)


# ------------------------------------------------------------------------------------------ property oracle
def lt_decide(c, n, f):
    """Is the frequency c/n below the float bound f?  True / False / None (too close to call at float32 precision;
    equal — also when f is exactly python's c/n — counts as 'not below')."""
    if n == 0:
        return None
    q, F = Fraction(c, n), Fraction(f)
    if q == F or c / n == f:
        return False
    if abs(q - F) <= Fraction(1, 1 << 20) * max(abs(q), abs(F)):
        return None
    return q < F


def invalid_bounds(cfg, n, nd):
    """The configurations the property does not quantify over (the code is only required to raise): an occurrence
    bound on an empty total (the frequency is 0/0), or an occurrence AND a frequency bound on the same side that
    disagree (the docstring: 'if both are provided they must agree')."""
    for occ, frq, tot in (("min_occ", "min_freq", n), ("max_occ", "max_freq", n),
                          ("min_dococc", "min_docfreq", nd), ("max_dococc", "max_docfreq", nd)):
        if cfg[occ] is not None and (tot == 0 or (cfg[frq] is not None and cfg[occ] / tot != cfg[frq])):
            return "zero-total" if tot == 0 else "disagree"
    return None


def judge(item_docs, cfg, excluded=(), regex=None):
    """The constraints of the property statement, evaluated pointwise in exact integer / rational arithmetic on a
    corpus of documents of hashable items (tokens, or n-grams for the second stage).
    Returns ({item: True | False | None}, counts): True = meets every configured constraint, None = a frequency
    bound is too close to the item's exact frequency to be judged at float32 precision."""
    flat = [t for d in item_docs for t in d]
    n, nd = len(flat), len(item_docs)
    counts, dcounts = {}, {}
    for t in flat:
        counts[t] = counts.get(t, 0) + 1
    for d in item_docs:
        for t in set(d):
            dcounts[t] = dcounts.get(t, 0) + 1
    status = {}
    for t in counts:
        conds = [t not in excluded,
                 not (regex is not None and isinstance(t, str) and re.fullmatch(regex, t) is not None)]
        for lo, occ, frq, c, tot in ((True, "min_occ", "min_freq", counts[t], n),
                                     (False, "max_occ", "max_freq", counts[t], n),
                                     (True, "min_dococc", "min_docfreq", dcounts[t], nd),
                                     (False, "max_dococc", "max_docfreq", dcounts[t], nd)):
            if cfg[occ] is not None:
                conds.append(c >= cfg[occ] if lo else c <= cfg[occ])
            elif cfg[frq] is not None:
                r = lt_decide(c, tot, cfg[frq])                      # c/tot < f ?
                if r is None:
                    conds.append(None)
                elif lo:
                    conds.append(not r)
                else:                                                # kept iff c/tot <= f
                    conds.append(r or Fraction(c, tot) == Fraction(cfg[frq]) or c / tot == cfg[frq])
        status[t] = False if any(x is False for x in conds) else None if any(x is None for x in conds) else True
    return status, counts


def spec(case):
    """The property's own statement for the token stage.  Returns
       {"error": reason}                     invalid configuration (malformed stream: must raise)
       {"given": [...pairs]}                 a supplied dictionary is used as given
       {"status": {tok: True|False|None}, "counts":…, "k":…}   per-token verdict of the non-top-k constraints."""
    cfg, docs = case["cfg"], case["docs"]
    if case.get("dict") is not None:
        return {"given": case["dict"]}
    bad = invalid_bounds(cfg, sum(len(d) for d in docs), len(docs))
    if bad:
        return {"error": bad}
    status, counts = judge(docs, cfg, cfg["excluded"] or (), cfg["regex"])
    return {"status": status, "counts": counts, "k": None if case["entry"] == "tree" else cfg["max_unique"]}


def must_keep(sp):
    """The items that are certainly in the vocabulary: those meeting every constraint, unless max_unique_tokens = k
    forces a reduction, in which case those strictly more frequent than the (k+1)-th most frequent of them (there
    are at most k, so nothing in 'reduced to at most k tokens' lets them go).  None = cannot be told (a frequency
    too close to a bound)."""
    st, counts, k = sp["status"], sp["counts"], sp["k"]
    sure = [t for t in st if st[t] is True]
    if k is None:
        return sure
    if any(v is None for v in st.values()):
        return None
    if len(sure) <= k:
        return sure
    cut = sorted((counts[t] for t in sure), reverse=True)[k]
    return [t for t in sure if counts[t] > cut]


def expected_vocab(sp):
    """The vocabulary as a set when the statement determines it (no undecided frequency; with max_unique_tokens
    only when no reduction is needed); None otherwise."""
    st, k = sp["status"], sp["k"]
    if any(v is None for v in st.values()):
        return None
    sure = set(t for t in st if st[t])
    return sure if (k is None or len(sure) <= k) else None


def py_ngrams(seq, n, behaviour):
    """ngrams_of, from its docstring: the windows of exactly n ('exact') or of 1..n ('subgrams') consecutive items."""
    return [tuple(seq[i:i + j]) for i in range(len(seq)) for j in ([n] if behaviour == "exact" else range(1, n + 1))
            if i + j <= len(seq)]


def ngram_spec(case, token_index):
    """The property's statement for the second stage (ngram_size >= 2), independent of the model: given the learned
    token dictionary, the documents are pruned of (or, with a mask string, masked at) the tokens outside it, and the
    kept n-grams are exactly the n-grams of those documents whose occurrence count / frequency among all n-grams
    and whose document count / document frequency meet the configured bounds (each bound alone or combined),
    reduced to the max_unique_tokens most frequent; indexed 0..m-1 in sorted order of their token-index tuples."""
    cfg, mask, ng = case["cfg"], case.get("mask"), case["ngram"]
    vocab = set(token_index) - {mask}
    if mask is None:
        seqs = [[t for t in d if t in vocab] for d in case["docs"]]
    else:
        seqs = [[t if t in vocab else mask for t in d] for d in case["docs"]]
    gram_docs = [py_ngrams(s, ng["n"], ng["behaviour"]) for s in seqs]
    bad = invalid_bounds(cfg, sum(len(g) for g in gram_docs), len(gram_docs))
    status, counts = judge(gram_docs, cfg)
    return {"status": status, "counts": counts, "k": cfg["max_unique"], "error": bad,
            "order": lambda g: tuple(token_index[t] for t in g)}


def check_kept(kept, sp, noun):
    """kept = the learned vocabulary (list of items); sp = status / counts / k of the stage."""
    st, counts, k = sp["status"], sp["counts"], sp["k"]
    fails = []
    for t in kept:
        if t not in st:
            fails.append("%s %r is in the vocabulary but does not occur" % (noun, t))
        elif st[t] is False:
            fails.append("%s %r kept although it violates a constraint (count %d)" % (noun, t, counts[t]))
    if len(set(kept)) != len(kept):
        fails.append("%s listed twice" % noun)
    mk = must_keep(sp)
    for t in mk or []:
        if t not in kept:
            fails.append("%s %r meets every constraint (count %d) but was pruned" % (noun, t, counts[t]))
    if k is not None:
        if len(kept) > k:
            fails.append("%d %ss kept, max_unique_tokens=%d" % (len(kept), noun, k))
        if mk is not None:
            dropped = [t for t in st if st[t] is True and t not in kept]
            if kept and dropped and all(t in counts for t in kept) and \
                    min(counts[t] for t in kept) <= max(counts[t] for t in dropped):
                fails.append("a kept %s is not more frequent than a dropped one: kept %r dropped %r" %
                             (noun, sorted((counts[t], t) for t in kept)[:2], sorted((counts[t], t) for t in dropped)[-2:]))
    return fails


def both_given(cfg):
    return (cfg["min_occ"] is not None and cfg["min_freq"] is not None) or \
        (cfg["max_occ"] is not None and cfg["max_freq"] is not None)


def check_error(case, sp, got):
    """The call raised.  Allowed: invalid configurations; 'vocabulary is empty' ValueErrors of the co-occurrence
    vectorizers when no item is certain to be kept; in the second stage an occurrence bound when there is no
    n-gram at all (k / 0) or an occurrence and a frequency bound on one side (they cannot agree on both stages:
    outside 'occurrence OR frequency bounds')."""
    if sp.get("error"):
        return []
    e, entry = got["err"], case["entry"]
    bad = ["raised %s: %s" % (e, got.get("msg", ""))]
    if "status" not in sp:
        return bad
    if e == "ValueError" and entry == "cooc":
        mk = must_keep(sp)
        return ["ValueError although %r meet every constraint" % mk[:3]] if mk else []
    if entry not in NGRAM_ENTRIES:
        return bad
    if e == "ValueError" and entry == "ngram2":
        return bad
    ev = expected_vocab(sp)
    if ev is None:
        # the token stage is not determined by the statement (a frequency too close to a bound, or a reduction to
        # max_unique_tokens): only the exceptions the second stage can legitimately raise pass, and the model
        # correspondence decides
        cfg = case["cfg"]
        ok = (e == "ZeroDivisionError" and (cfg["min_occ"] is not None or cfg["max_occ"] is not None)) or \
            (e == "AssertionError" and both_given(cfg)) or (e == "ValueError" and entry != "ngram2")
        return [] if ok else bad
    index = {t: i for i, t in enumerate(sorted(ev))}
    if case.get("mask") is not None:
        index[case["mask"]] = len(index)
    sp2 = ngram_spec(case, index)
    if e == "ValueError":                # ngramcooc: 'Token dictionary is empty' / 'ngram dictionary is empty'
        mk = must_keep(sp2)
        if ev and mk and not sp2["error"]:
            return ["ValueError although the n-grams %r meet every constraint" % mk[:3]]
        return []
    if e == "ZeroDivisionError" and sp2["error"] == "zero-total":
        return []
    if e == "AssertionError" and sp2["error"] == "disagree" and both_given(case["cfg"]):
        return []
    return bad


def check_property(case, sp, got):
    """Returns a list of failure descriptions (empty = the property holds on this output)."""
    fails = []
    if "err" in got:
        return check_error(case, sp, got)
    if sp.get("error"):
        return ["invalid configuration (occurrences and frequency disagree / empty corpus) did not raise"]
    d = [(k, v) for k, v in got["dict"]]
    full_index = {k: v for k, v in d}
    mask = case.get("mask")
    if mask is not None:
        if not d or d[-1][0] != mask:
            return ["mask entry is not the last dictionary entry: %r" % d[-3:]]
        if [k for k, _ in d].count(mask) != 1:
            fails.append("mask entry not unique")
        body = d[:-1]
        if "given" not in sp and d[-1][1] != len(body):
            fails.append("mask index %d is not the vocabulary size %d" % (d[-1][1], len(body)))
        d = body
    if "given" in sp:
        exp = [(k, v) for k, v in sp["given"] if k != mask]
        if d != exp:
            fails.append("supplied dictionary not used as given: %r vs %r" % (d[:6], exp[:6]))
        return fails
    kept = [t for t, _ in d]
    fails += check_kept(kept, sp, "token")
    if [v for _, v in d] != list(range(len(d))) or kept != sorted(kept):
        fails.append("indices are not 0..n-1 in sorted token order: %r" % (d[:8],))
    if fails or case["entry"] not in NGRAM_ENTRIES:
        return fails
    # ---- second stage: the n-gram vocabulary, judged against the token dictionary just validated
    sp2 = ngram_spec(case, full_index)
    if sp2["error"]:
        # no n-gram at all under an occurrence bound / both kinds of bound on one side: only an exception or
        # (zero total) an empty vocabulary make sense; nothing else is demanded
        if sp2["error"] == "zero-total" and got["columns"]:
            fails.append("n-grams %r kept although the documents have no n-gram" % got["columns"][:3])
        return fails
    cols = [(tuple(g), i) for g, i in got["columns"]]
    grams = [g for g, _ in cols]
    fails += check_kept(grams, sp2, "n-gram")
    try:
        in_order = grams == sorted(grams, key=sp2["order"])
    except KeyError:
        in_order = True                  # an n-gram over unknown tokens: already reported by check_kept
    if [i for _, i in cols] != list(range(len(cols))) or not in_order:
        fails.append("n-gram indices are not 0..m-1 in sorted order: %r" % (cols[:8],))
    return fails


# ------------------------------------------------------------------------------------------ generators
def gen_docs(rng, ints=False):
    vs = rng.randint(1, 8)
    vocab = rng.sample(range(-3, 20), vs) if ints else rng.sample(STR_VOCAB, vs)
    weights = [rng.choice([1, 1, 2, 3, 5]) for _ in vocab]
    nd = rng.choice([1, 1, 2, 3, 4, 6])
    docs = []
    for _ in range(nd):
        L = rng.choice([0, 1, 2, 3, 5, 8, 12])
        docs.append(rng.choices(vocab, weights, k=L))
    if not any(docs) and rng.random() < 0.9:
        docs[0] = rng.choices(vocab, weights, k=rng.randint(1, 6))
    return docs, vocab


def pick_bound(rng, values, total, allow_freq=True):
    """None / occurrences k / frequency f, concentrated on the boundaries (values = the counts that occur)."""
    r = rng.random()
    if r < 0.55 or total == 0 and r < 0.97:
        return None, None
    base = rng.choice(sorted(values) + [0, total]) if values else 0
    k = max(0, base + rng.choice([-1, 0, 0, 0, 1]))
    if r < 0.8 or not allow_freq or total == 0:
        return k, None
    kind = rng.random()
    if kind < 0.5:
        return None, k / total                                   # exactly python's k/n
    if kind < 0.75:
        return None, (k / total) * rng.choice([0.999, 1.001])    # clearly off the boundary
    if kind < 0.85:
        return k, k / total                                      # both given, consistent
    if kind < 0.9:
        return k, (k + 1) / total                                # both given, inconsistent (malformed stream)
    return None, rng.choice([0.0, 0.1, 0.25, 0.3, 0.5, 0.7, 1.0, 1.5, -0.5])


def count_tables(item_docs):
    counts, dcounts = {}, {}
    for d in item_docs:
        for t in d:
            counts[t] = counts.get(t, 0) + 1
        for t in set(d):
            dcounts[t] = dcounts.get(t, 0) + 1
    return counts, dcounts


def shape_step(rng, entry, docs, vocab):
    """The per-call part of a case: the documents in the form the entry point accepts."""
    step = {"docs": [list(d) for d in docs]}
    if entry in ("tree", "timed", "multi"):
        # tree: a path needs a node; timed: see gen_case; multi: semi_flatten raises IndexError on a document
        # without tokens
        step["docs"] = [d for d in step["docs"] if d] or [[vocab[0]]]
    if entry == "multi":
        md = []
        for d in step["docs"]:
            ms, i = [], 0
            while i < len(d):
                k = rng.randint(1, 3)
                ms.append(d[i:i + k])
                i += k
            md.append(ms)
        step["multi_docs"] = md
    if entry in ESTIMATOR_ENTRIES + ("tree",) and not any(step["docs"]):
        step["docs"][0] = [vocab[0]]
    return step


def gen_case(rng):
    return gen_case_vocab(rng)[0]


def gen_case_vocab(rng):
    ints = rng.random() < 0.15
    docs, vocab = gen_docs(rng, ints)
    counts, dcounts = count_tables(docs)
    n, nd = sum(len(d) for d in docs), len(docs)
    r = rng.random()
    entry = ("preprocess" if r < 0.34 else "prune" if r < 0.42 else "ngram1" if r < 0.48 else "ngram2" if r < 0.6
             else "ngramcooc" if r < 0.66 else "skipgram" if r < 0.72 else "cooc" if r < 0.78 else "tree" if r < 0.86
             else "timed" if r < 0.93 else "multi")
    cfg = {}
    cfg["min_occ"], cfg["min_freq"] = pick_bound(rng, set(counts.values()), n)
    cfg["max_occ"], cfg["max_freq"] = pick_bound(rng, set(counts.values()), n)
    cfg["min_dococc"], cfg["min_docfreq"] = pick_bound(rng, set(dcounts.values()), nd)
    cfg["max_dococc"], cfg["max_docfreq"] = pick_bound(rng, set(dcounts.values()), nd)
    if entry in NGRAM_ENTRIES:
        # an occurrence AND a frequency bound on the same side cannot agree on both stages (the totals differ): the
        # n-gram stage asserts.  The property speaks of 'occurrence or frequency bounds': one kind per side here
        for occ, frq in (("min_occ", "min_freq"), ("max_occ", "max_freq")):
            if cfg[occ] is not None and cfg[frq] is not None and cfg[occ] / max(n, 1) == cfg[frq]:
                cfg[rng.choice([occ, frq])] = None
    cfg["max_unique"] = rng.randint(0, len(counts) + 1) if rng.random() < 0.35 else None
    cfg["excluded"] = None
    if rng.random() < 0.3:
        pool = list(vocab) + ([99] if ints else ["zzz"])
        cfg["excluded"] = rng.sample(pool, rng.randint(0, min(3, len(pool))))
    cfg["regex"] = rng.choice(REGEX_POOL) if (not ints and rng.random() < 0.25) else None
    case = {"kind": "vocab", "entry": entry, "docs": docs, "cfg": cfg, "dict": None, "mask": None,
            "excl_type": rng.choice(["set", "set", "list", "frozenset"])}
    if rng.random() < 0.25 and entry not in ("skipgram", "prune"):       # these two take no mask string
        case["mask"] = -77 if ints else "MASK"
    if entry in GIVEN_DICT_ENTRIES and rng.random() < 0.12:
        pool = list(vocab) + ([50, 51] if ints else ["x1", "x2"])
        ks = rng.sample(pool, rng.randint(1, len(pool)))
        case["dict"] = [[k, i] for i, k in enumerate(ks)]
    if entry in NGRAM_ENTRIES:
        case["ngram"] = {"n": rng.choice([2, 2, 3]), "behaviour": rng.choice(["exact", "exact", "subgrams"])}
        if entry != "ngram2":
            case["ngram"]["behaviour"] = "exact"
    if entry == "tree":
        cfg["max_unique"] = None
    case.update(shape_step(rng, entry, docs, vocab))
    if entry == "timed" and case["mask"] is None:
        # delete mode: a document that loses all its tokens becomes a 1-d empty array that numba's typed List
        # rejects next to the 2-d ones (not owned here, reported): mask mode unless every document certainly
        # keeps a token
        sp = spec(case)
        if "status" not in sp or cfg["max_unique"] is not None or \
                any(all(sp["status"].get(t) is not True for t in d) for d in case["docs"]):
            case["mask"] = -77 if ints else "MASK"
    if rng.random() < 0.15 and entry not in NGRAM_ENTRIES:   # n-grams depend on the token order; the token dictionary does not
        case["shuffle_seed"] = rng.randint(0, 10 ** 6)
    return case, vocab


# ---- table-driven enumeration of the bound patterns
DOC_PATTERNS = [p for r in range(5) for p in itertools.combinations(DOC_BOUNDS, r)]          # 16 subsets
SIDE_KINDS = (None, "occ", "freq", "both")
TOK_PATTERNS = list(itertools.product(SIDE_KINDS, SIDE_KINDS))                               # (min side, max side)
UNIGRAM_ROTATION = ("preprocess", "prune", "ngram1", "skipgram", "cooc", "timed", "multi", "tree")
NGRAM_ROTATION = (("ngram2", 2, "exact"), ("ngram2", 2, "subgrams"), ("ngramcooc", 2, "exact"), ("ngram2", 3, "exact"))


def table_docs(rng, phrases=False):
    """Small vocabulary, several documents: tokens and n-grams recur within and across documents, so that every
    kind of bound has something to prune and something to keep.  phrases: documents are concatenations of a few
    fixed phrases, so that n-grams occur about as often as tokens (a bound then bites on both stages)."""
    vocab = rng.sample(STR_VOCAB, rng.choice([2, 3, 3, 4] if not phrases else [3, 4, 5]))
    weights = [rng.choice([1, 2, 3]) for _ in vocab]
    if phrases:
        pool = [rng.sample(vocab, rng.randint(2, len(vocab))) for _ in range(rng.choice([2, 3]))]
        docs = [[t for ph in rng.choices(pool, k=rng.choice([1, 2, 2, 3])) for t in ph] for _ in range(rng.choice([2, 3, 4, 5]))]
    else:
        docs = [rng.choices(vocab, weights, k=rng.choice([2, 3, 4, 5, 6, 8])) for _ in range(rng.choice([2, 3, 4, 5]))]
    if rng.random() < 0.3:
        docs.insert(rng.randint(0, len(docs)), rng.choice([[], [vocab[0]]]))
    return docs, vocab


def boundary(rng, values, low):
    """A bound on (or next to) a count that occurs, from the lower half for a minimum, the upper half for a maximum."""
    vs = sorted(values) or [1]
    half = vs[:(len(vs) + 1) // 2] if low else vs[len(vs) // 2:]
    return max(0, rng.choice(half) + rng.choice([0, 0, 0, 1 if low else -1, -1 if low else 1]))


def target_values(rng, level, docs):
    """Bound values around one item of the level the bounds finally bite on (a token, or an n-gram of the unpruned
    documents): minima at its own counts, maxima at the largest counts among its tokens (which are never rarer than
    the n-gram), so that the item survives the whole combination while rarer / commoner items do not; each bound is
    thus exactly on a boundary ('a token occurring exactly the bound is kept').  Returned per bound: (k, total)."""
    counts, dcounts = count_tables(level)
    tcounts, tdcounts = count_tables(docs)
    n, nt, nd = sum(len(d) for d in level), sum(len(d) for d in docs), len(docs)
    if not counts:
        return None
    items = sorted(counts, key=lambda g: (counts[g], dcounts[g], str(g)))
    g = items[rng.randint(len(items) // 3, max(len(items) // 3, (2 * len(items)) // 3))]
    toks = list(g) if isinstance(g, tuple) else [g]
    return {"min_occ": (counts[g], n), "max_occ": (max(tcounts[t] for t in toks), nt),
            "min_freq": min((counts[g], n), (min(tcounts[t] for t in toks), nt), key=lambda p: Fraction(*p)),
            "max_freq": max((counts[g], n), (max(tcounts[t] for t in toks), nt), key=lambda p: Fraction(*p)),
            "min_dococc": (dcounts[g], nd), "max_dococc": (max(tdcounts[t] for t in toks), nd),
            "min_docfreq": (dcounts[g], nd), "max_docfreq": (max(tdcounts[t] for t in toks), nd)}


def table_case(rng, i, stage, dp, tp, single=False, rot=None):
    """One case of the table: document-bound pattern dp, (min side, max side) token-bound pattern tp.  single: the
    case has exactly one bound (second block of the table) — no other pruning parameter; a lone maximum on the
    n-gram stage can only bite through n-grams of the mask, so: mask mode and a bound below the commonest tokens."""
    single_max = single and stage == "ngram" and (any(b.startswith("max") for b in dp) or tp[1] is not None)
    docs, vocab = table_docs(rng, phrases=(stage == "ngram" and rng.random() < 0.5))
    if stage == "unigram":
        entry = UNIGRAM_ROTATION[(i if rot is None else rot) % len(UNIGRAM_ROTATION)]
        step = shape_step(rng, entry, docs, vocab)
        ng, level = None, step["docs"]
    else:
        entry, gn, beh = NGRAM_ROTATION[(i if rot is None else rot) % len(NGRAM_ROTATION)]
        ng = {"n": gn, "behaviour": beh}
        step = shape_step(rng, entry, docs, vocab)
        level = [py_ngrams(d, gn, beh) for d in step["docs"]]
    docs = step["docs"]
    counts, dcounts = count_tables(level)
    n, nd = sum(len(d) for d in level), len(docs)
    tv = target_values(rng, level, docs) if ((single or rng.random() < 0.7) and not single_max) else None
    if single_max:
        # the commonest tokens are masked; the n-grams of the mask are then commoner than the bound
        counts, dcounts = count_tables(docs)
        n = sum(len(d) for d in docs)

    def value(b):
        """(k, total) for bound b"""
        low = b.startswith("min")
        if tv:
            k, tot = tv[b]
            return max(0, k + rng.choice([0, 0, 0, 0, 0, 0, -1 if low else 1, -1 if low else 1, 1 if low else -1])), tot
        return boundary(rng, set((dcounts if "doc" in b else counts).values()), low or single_max), \
            (nd if "doc" in b else max(n, 1))

    cfg = _cfg()
    for b in dp:
        k, tot = value(b)
        cfg[b] = k if b.endswith("occ") else k / tot
    for side in ("min", "max"):
        if side + "_dococc" in dp and side + "_docfreq" in dp:
            cfg[side + "_docfreq"] = cfg[side + "_dococc"] / nd       # given twice: they must agree
    for side, kind in zip(("min", "max"), tp):
        if kind in ("occ", "both"):
            k, tot = value(side + "_occ")
            cfg[side + "_occ"] = k
            if kind == "both":
                cfg[side + "_freq"] = k / max(n, 1)                   # unigram stage only: n = number of tokens
        elif kind == "freq":
            k, tot = value(side + "_freq")
            f = k / tot
            cfg[side + "_freq"] = f if rng.random() < 0.7 else f * (0.999 if side == "min" else 1.001)
    if rng.random() < 0.15 and entry != "tree" and not single:
        cfg["max_unique"] = rng.randint(1, len(counts) + 1)
    if rng.random() < 0.15 and not single:
        cfg["excluded"] = rng.sample(vocab, 1)
    case = {"kind": "vocab", "entry": entry, "cfg": cfg, "dict": None, "mask": None,
            "excl_type": rng.choice(["set", "list", "frozenset"]), "table": [stage, list(dp), list(tp)]}
    if ng:
        case["ngram"] = ng
    # a maximum can only bite on the second stage through n-grams of the mask (an n-gram is never
    # commoner than its tokens): mask mode for half of the n-gram cases
    if entry == "timed" or single_max or (rng.random() < (0.5 if ng else 0.2) and entry not in ("skipgram", "prune")):
        case["mask"] = "MASK"
    case.update(step)
    return case


def table_cases(rng, reps):
    """Block 1: every subset of the four document bounds x every (min side, max side) choice among none /
    occurrences / frequency / both (consistent), for unigram vocabularies through the eight single-stage entry points
    in rotation and — 'both' excluded, see gen_case — for n-gram vocabularies; bound values on the boundaries of the
    counts of the stage they bite on: around one target item that survives the combination (70 %), or drawn
    independently.  Block 2: each of the eight bounds as the ONLY constraint, through every entry point, both stages
    (a bound that one code path forgets when it stands alone shows here)."""
    out, i = [], 0
    for rep in range(reps):
        for stage in ("unigram", "ngram"):
            for dp in DOC_PATTERNS:
                for tp in TOK_PATTERNS:
                    if stage == "ngram" and "both" in tp:
                        continue
                    i += 1
                    out.append(table_case(rng, i, stage, dp, tp))
            # block 2: every entry point x each bound alone (each preprocess_* copy and each vectorizer decides on its
            # own whether document frequencies are computed)
            rotation = UNIGRAM_ROTATION if stage == "unigram" else NGRAM_ROTATION
            for rot in range(len(rotation)):
                for rep2 in range(1 if stage == "unigram" else 2):
                    for b in DOC_BOUNDS:
                        i += 1
                        out.append(table_case(rng, i, stage, (b,), (None, None), single=True, rot=rot))
                    for tp in ((("occ", None), (None, "occ"), ("freq", None), (None, "freq"))):
                        i += 1
                        out.append(table_case(rng, i, stage, (), tp, single=True, rot=rot))
    return out


# ---- histories: successive calls that share the parameter objects
HISTORY_ENTRIES = ("preprocess", "prune", "ngram1", "ngram2", "cooc", "skipgram", "ngramcooc", "timed", "multi", "tree")


def gen_history(rng, i):
    """Two or three calls through one entry point with the SAME excluded_tokens object (a set, a list or a
    frozenset), the same token_dictionary object when one is supplied, and — for the estimators, half of the time —
    the same estimator object refitted.  The later corpora reuse the vocabulary of the first: either the first corpus
    with its tokens renamed by a permutation (what one fit prunes another must keep, under the same bounds) or a
    fresh draw."""
    entry = HISTORY_ENTRIES[i % len(HISTORY_ENTRIES)]
    while True:
        base, vocab = gen_case_vocab(rng)
        if len(vocab) >= 2 and isinstance(vocab[0], str) == (i % 7 != 0):
            break
    docs, cfg = base["docs"], base["cfg"]
    ints = not isinstance(vocab[0], str)
    if cfg["excluded"] is None and rng.random() < 0.75:
        pool = list(vocab) + ([99] if ints else ["zzz"])
        cfg["excluded"] = rng.sample(pool, rng.randint(0, min(2, len(pool))))
    if all(cfg[b] is None for b in BOUNDS) and cfg["regex"] is None:
        counts, _ = count_tables(docs)                      # something besides the excluded set must prune
        cfg["min_occ"] = boundary(rng, set(counts.values()) or {1}, True) + 1
    if entry in NGRAM_ENTRIES:
        for occ, frq in (("min_occ", "min_freq"), ("max_occ", "max_freq")):
            if cfg[occ] is not None and cfg[frq] is not None:
                cfg[frq] = None
    if entry == "tree":
        cfg["max_unique"] = None
    case = {"kind": "history", "entry": entry, "cfg": cfg, "dict": None, "mask": None,
            "excl_type": ("set", "set", "list", "frozenset")[(i // len(HISTORY_ENTRIES)) % 4],
            "share": "estimator" if (entry in ESTIMATOR_ENTRIES and rng.random() < 0.5) else "objects"}
    if entry == "timed" or (rng.random() < 0.25 and entry not in ("skipgram", "prune")):
        case["mask"] = -77 if ints else "MASK"
    if entry in GIVEN_DICT_ENTRIES and rng.random() < 0.15:
        pool = list(vocab) + ([50, 51] if ints else ["x1", "x2"])
        ks = rng.sample(pool, rng.randint(1, len(pool)))
        case["dict"] = [[k, j] for j, k in enumerate(ks)]
    if entry in NGRAM_ENTRIES:
        case["ngram"] = {"n": rng.choice([2, 2, 3]), "behaviour": "exact" if entry != "ngram2" else rng.choice(["exact", "subgrams"])}
    steps = []
    for s in range(rng.choice([2, 2, 3])):
        if s == 0:
            d = docs
        elif rng.random() < 0.6:
            perm = list(vocab)
            while perm == list(vocab):
                rng.shuffle(perm)
            ren = dict(zip(vocab, perm))
            d = [[ren[t] for t in doc] for doc in docs]
        else:
            weights = [rng.choice([1, 1, 2, 3, 5]) for _ in vocab]
            d = [rng.choices(vocab, weights, k=max(len(doc), rng.choice([0, 1, 3]))) for doc in docs]
        step = shape_step(rng, entry, d, vocab)
        if rng.random() < 0.15 and entry not in NGRAM_ENTRIES:
            step["shuffle_seed"] = rng.randint(0, 10 ** 6)
        steps.append(step)
    case["steps"] = steps
    return case


def expand(case):
    """The calls of a case as independent single-call cases: what each call must return is a function of its own
    corpus and of the parameter values as configured."""
    if case["kind"] != "history":
        return [case]
    head = {k: v for k, v in case.items() if k != "steps"}
    return [dict(head, kind="vocab", **st) for st in case["steps"]]


def _cfg(**kw):
    c = {b: None for b in BOUNDS}
    c.update({"max_unique": None, "excluded": None, "regex": None})
    c.update(kw)
    return c


_FOO = [["foo", "bar", "pok", "foo"], ["bar", "wer", "foo"], ["pok", "foo", "wer", "wer"]]
CORPUS = [
    # the library's own test corpus with its six pruning settings
    {"kind": "vocab", "entry": "preprocess", "dict": None, "mask": None, "cfg": _cfg(min_occ=2), "docs": _FOO},
    {"kind": "vocab", "entry": "cooc", "dict": None, "mask": None, "cfg": _cfg(max_unique=2), "docs": _FOO},
    {"kind": "vocab", "entry": "preprocess", "dict": None, "mask": "MASK", "cfg": _cfg(max_freq=4 / 11, min_docfreq=2 / 3),
     "docs": _FOO},
    {"kind": "vocab", "entry": "ngram2", "dict": None, "mask": None, "cfg": _cfg(min_occ=2),
     "ngram": {"n": 2, "behaviour": "exact"}, "docs": [["a", "b", "a", "b", "c"], ["b", "a", "b"]]},
    {"kind": "vocab", "entry": "preprocess", "dict": None, "mask": None, "cfg": _cfg(min_occ=1, max_occ=1),
     "docs": [["a", "b", "b"]]},
    {"kind": "vocab", "entry": "preprocess", "dict": None, "mask": None, "cfg": _cfg(min_occ=3, min_freq=0.5),
     "docs": [["a", "b", "b"]]},
    # each document bound alone on bigrams: ('a','b') is in 3 documents, ('b','c') in 2, ('c','a') in 1
    {"kind": "vocab", "entry": "ngram2", "dict": None, "mask": None, "cfg": _cfg(min_dococc=2),
     "ngram": {"n": 2, "behaviour": "exact"}, "docs": [["a", "b", "c", "a"], ["a", "b", "c"], ["c", "a", "b"]]},
    {"kind": "vocab", "entry": "ngramcooc", "dict": None, "mask": None, "cfg": _cfg(max_dococc=2),
     "ngram": {"n": 2, "behaviour": "exact"}, "docs": [["a", "b", "c", "a"], ["a", "b", "c"], ["c", "a", "b"]]},
    {"kind": "vocab", "entry": "ngram2", "dict": None, "mask": None, "cfg": _cfg(min_docfreq=2 / 3),
     "ngram": {"n": 2, "behaviour": "subgrams"}, "docs": [["a", "b", "c", "a"], ["a", "b", "c"], ["c", "a", "b"]]},
    {"kind": "vocab", "entry": "ngram2", "dict": None, "mask": None, "cfg": _cfg(max_docfreq=2 / 3),
     "ngram": {"n": 2, "behaviour": "exact"}, "docs": [["a", "b", "c", "a"], ["a", "b", "c"], ["c", "a", "b"]]},
    # the whole fit of NgramCooccurrenceVectorizer (the other ngramcooc cases stop after the vocabulary)
    {"kind": "history", "entry": "ngramcooc_fit", "dict": None, "mask": None, "cfg": _cfg(min_occ=2, excluded=["d"]),
     "excl_type": "set", "share": "estimator", "ngram": {"n": 2, "behaviour": "exact"},
     "steps": [{"docs": [["a", "b", "a", "b", "c", "d"], ["b", "a", "b", "c", "c"]]},
               {"docs": [["c", "b", "c", "b", "a", "d"], ["b", "c", "b", "a", "a", "c"]]}]},
]


# ------------------------------------------------------------------------------------------ evaluation
def model_view(case, m):
    """Parsed Coq value -> {"dict": [[tok, idx]...], "freq": [...]} / {"err": class} in implementation vocabulary."""
    toks = case_tokens(case)
    if m[0] == "Err":
        return {"err": ERR_CLASS.get(m[1], "Err%d" % m[1])}
    a, b = m[1]
    if case["entry"] in NGRAM_ENTRIES:
        d = [[toks[t], i] for t, i in a]
        inv = {i: toks[t] for t, i in a}
        cols = [[[inv[int(x)] for x in g], i] for g, i in b]
        return {"dict": d, "columns": cols}
    return {"dict": [[toks[t], i] for t, i in a], "freq": list(b)}


def canon(pairs):
    return sorted(([k if not isinstance(k, list) else tuple(k), v] for k, v in pairs), key=lambda kv: (kv[1], str(kv[0])))


def compare(case, got, mv):
    """Correspondence diff between implementation output and model view; None when equal."""
    if "err" in got or "err" in mv:
        if got.get("err") == mv.get("err"):
            return None
        if got.get("err") == "ValueError" and case["entry"] == "cooc" and "err" not in mv:
            if not [k for k, _ in mv["dict"] if k != case.get("mask")]:
                return None          # "Token dictionary is empty" is raised by the vectorizer, after preprocessing
        if got.get("err") == "ValueError" and case["entry"] in ("ngramcooc", "ngramcooc_fit"):
            # "Token dictionary is empty" / "ngram dictionary is empty", raised by the vectorizer around the second
            # stage (the first one before the second stage could divide an occurrence bound by its zero total)
            if mv.get("err") == "ZeroDivisionError" or ("err" not in mv and (not mv["dict"] or not mv["columns"])):
                return None
        return "exception mismatch: impl %s, model %s" % (got.get("err"), mv.get("err", "no error"))
    if canon(got["dict"]) != canon(mv["dict"]):
        return "dictionary: impl %r, model %r" % (got["dict"][:8], mv["dict"][:8])
    if "columns" in mv and canon(got["columns"]) != canon(mv["columns"]):
        return "n-gram columns: impl %r, model %r" % (got["columns"][:6], mv["columns"][:6])
    if "freq" in mv and got["freq"] != mv["freq"]:
        return "float32 frequencies differ: impl %r, model %r" % (got["freq"][:4], mv["freq"][:4])
    return None


def eval_sharded(tag, header, exprs, shard, jobs, timeout=1500):
    """C.coq_eval_sharded with a per-shard timeout that leaves room for a loaded machine."""
    from concurrent.futures import ThreadPoolExecutor
    shards = [exprs[i:i + shard] for i in range(0, len(exprs), shard)]
    with ThreadPoolExecutor(max_workers=jobs) as ex:
        futs = [ex.submit(C.coq_eval, "%s_s%d" % (tag, k), header, sh, timeout) for k, sh in enumerate(shards)]
        out = []
        for f in futs:
            out += f.result()
    return out


def start_sweep(ctx, ex):
    """Launch the sweep's child processes; returns the futures and the parameters."""
    T, Tm, T0 = (350, 150, 40) if ctx.quick else (3000, 500, 80)
    large = [[1, 2 ** 24 + 1], [3, 2 ** 24 + 1], [1000001, 2 ** 24 + 1], [5, 2 ** 25 + 7], [2 ** 24, 2 ** 24],
             [7, 2 ** 24]]
    payload = {"mode": "sweep", "T": T, "T0": T0, "large": large, "large_e2e": None if ctx.quick else 2 ** 24 + 1}
    ns = list(range(1, Tm + 1))
    nsh = 8 if ctx.quick else 14
    order = sorted(ns, key=lambda n: (n % nsh, n))             # balance the work (proportional to n) over the shards
    shard = -(-len(order) // nsh)
    f_impl = ex.submit(C.run_impl, "c05", payload)
    f_model = ex.submit(eval_sharded, "C05sw", HEADER, ["sweep_n %d" % n for n in order], shard, nsh)
    f_e2e = ex.submit(eval_sharded, "C05e2e", HEADER,
                      ["e2e_bad %d" % n for n in range(1, T0 + 1)] + ["large_probe %d %d" % (c, n) for c, n in large],
                      max(1, -(-(T0 + len(large)) // 6)), 6)
    return {"T": T, "Tm": Tm, "T0": T0, "large": large, "payload": payload, "impl": f_impl, "model": f_model, "e2e": f_e2e}


def finish_sweep(ctx, sw):
    T, Tm, T0, large, payload = sw["T"], sw["Tm"], sw["T0"], sw["large"], sw["payload"]
    impl, info = sw["impl"].result()
    try:
        model, e2e = sw["model"].result(), sw["e2e"].result()
    except RuntimeError as e:
        ctx.report("evaluation of the model sweep inside Coq failed or timed out: %s" % str(e)[-600:],
                   {"stage": "correspondence", "correspondence": "Model/K5_Float.v sweep (vm_compute)"}, found_input=False)
        model, e2e = [], [[]] * T0 + [(True, True)] * len(large)
    if impl is None:
        ctx.report("sweep child died (rc=%s): %s" % (info["rc"], info["tail"][-400:]), {"stage": "impl-crash", "case": payload},
                   found_input=False)
        return
    model_bad = sorted([n, c] for n, cs in model for c in cs)
    impl_bad = sorted([n, c] for n, c, _ in impl["bad"])
    ctx.coverage["sweep"] = {"exhaustive": True, "T": T, "pairs": impl["pairs"], "T_model_evaluated": Tm,
                             "pairs_model_evaluated": Tm * (Tm + 1) // 2,
                             "model_decision": "vm_compute of Model/K5_Float.v for n <= T_model_evaluated; for every "
                                               "n < 2^24 theorem C05_occurrence_bounds_exact proves it equal to the "
                                               "integer comparison the implementation is checked against",
                             "impl_anomalies": len(impl_bad), "model_anomalies": len(model_bad),
                             "end_to_end_T0": T0, "end_to_end_cases": impl["pairs_e2e"],
                             "what": "every (count c, total n), 1 <= c <= n <= T: kept set among counts c-1, c, c+1 under "
                                     "min_occurrences = max_occurrences = c through prune_token_dictionary (numpy "
                                     "float32) must be exactly {c}; n <= T0 also end to end through "
                                     "preprocess_token_sequences / learn_vocab_fl"}
    ctx.coverage["exhaustive"] = True
    ctx.coverage["evaluations"] += impl["pairs"] + impl["pairs_e2e"]
    ctx.dist("sweep:pairs", impl["pairs"])
    ctx.dist("sweep:end-to-end", impl["pairs_e2e"])
    for n, c, kept in impl["bad"][:3]:
        ctx.report("token counts %d,%d,%d of %d tokens with min_occurrences=max_occurrences=%d: kept %r, expected [%d]"
                   % (c - 1, c, c + 1, n, c, kept, c),
                   {"stage": "oracle", "case": {"kind": "pair", "n": n, "c": c}, "actual": kept, "expected": [c]})
    for n, c, which, kept in impl["bad_e2e"][:3]:
        ctx.report("['a']*%d+['b']*%d with %s_occurrences=%d: vocabulary %r" % (c, n - c, which, c, kept),
                   {"stage": "oracle", "case": {"kind": "pair_e2e", "n": n, "c": c, "which": which}, "actual": kept})
    e2e_model_bad = [[n + 1, c] for n, cs in enumerate(e2e[:T0]) for c in cs]
    if (model_bad != [p for p in impl_bad if p[0] <= Tm] or e2e_model_bad) and not impl["bad"] and not impl["bad_e2e"]:
        ctx.report("exhaustive sweep: model and implementation decisions differ (model anomalies %r, e2e %r)"
                   % (model_bad[:5], e2e_model_bad[:5]),
                   {"stage": "correspondence", "correspondence": "Model/K5_Float.v <-> prune_token_dictionary float32 comparison",
                    "model": model_bad[:20], "actual": impl_bad[:20]}, found_input=False)
    # region n >= 2^24 (outside C05_equal_bound_kept): model vs implementation, failures are the known finding
    probes = e2e[T0:]
    for (c, n), mp, ip in zip(large, probes, impl["large"]):
        ctx.count_case({"kind": "large", "c": c, "n": n}, nontrivial=True, kind="large-total")
        if [bool(mp[0]), bool(mp[1])] != [ip["kept_under_max"], ip["kept_under_min"]]:
            ctx.report("totals >= 2^24: model %r vs implementation %r for count %d of %d" % (mp, ip, c, n),
                       {"stage": "correspondence", "correspondence": "Model/K5_Float.v <-> prune_token_dictionary",
                        "case": {"kind": "large", "c": c, "n": n}}, found_input=False)
        if not (ip["kept_under_max"] and ip["kept_under_min"]):
            ctx.report("a token occurring exactly %d times among %d tokens is pruned by %s_occurrences=%d"
                       % (c, n, "max" if not ip["kept_under_max"] else "min", c),
                       {"stage": "oracle", "case": {"kind": "large", "c": c, "n": n}, "actual": ip},
                       finding_key=FINDING_LARGE if n > 2 ** 24 else None)
    if impl.get("large_e2e") and impl["large_e2e"]["dict"] != ["a"]:
        ctx.report("preprocess_token_sequences([['a'] + ['b']*2^24], max_occurrences=1) -> %r, expected ['a']"
                   % impl["large_e2e"]["dict"], {"stage": "oracle", "case": {"kind": "large_e2e", "n": 2 ** 24 + 1}},
                   finding_key=FINDING_LARGE)


def evaluate(cases, flat):
    """cases: top-level cases (single calls and histories) for the implementation child; flat: their calls as
    independent single-call cases for the model."""
    from concurrent.futures import ThreadPoolExecutor
    with ThreadPoolExecutor(max_workers=2) as ex:
        f_impl = ex.submit(C.run_impl, "c05", {"mode": "cases", "cases": cases})
        f_model = ex.submit(C.coq_eval_sharded, "C05", HEADER, [coq_case(c) for c in flat], 200)
        (impl, info), model = f_impl.result(), f_model.result()
    return impl, info, model


def stage2_bites(case, got):
    """For the evidence: the bounds that, taken alone, both prune and keep an n-gram of this case's second stage."""
    if case["entry"] not in NGRAM_ENTRIES or "err" in got or case.get("dict") is not None:
        return []
    out = []
    for b in BOUNDS:
        if case["cfg"][b] is not None:
            one = dict(case, cfg=_cfg(**{b: case["cfg"][b]}))
            st = ngram_spec(one, {k: v for k, v in got["dict"]})["status"]
            if any(v is True for v in st.values()) and any(v is False for v in st.values()):
                out.append(b)
    return out


def run(ctx, replay=None):
    C.run_gate(ctx)
    ctx.coverage["rule"] = ("(a) exhaustive (count,total) sweep; (b) random corpora (1-6 documents, <= 8 distinct tokens, "
                            "str or int) x random constraint combinations drawn on the boundaries (occurrences = an "
                            "occurring count +-1, frequency = python's k/n, both given, max_unique around the number of "
                            "candidates, excluded tokens as set/list/frozenset, regex) through 11 entry points; "
                            "(c) table: 16 subsets of the document bounds x 16 (unigram) / 9 (n-gram) occurrence-or-"
                            "frequency patterns; (d) histories of 2-3 calls sharing the excluded_tokens / "
                            "token_dictionary / estimator objects, each call judged on its own corpus with the "
                            "original parameter values, parameter objects compared before/after every call; "
                            "non-trivial = >= 1 token occurs")
    ctx.assumptions += ["the regex engine is the oracle re.fullmatch evaluated by the harness and passed to the model as a set",
                        "token strings are mapped to their rank in python's sorted order (the model orders integers)",
                        "frequency bounds within 2^-20 (relative) of a token's exact frequency are not judged by the "
                        "property oracle (only by the model correspondence)",
                        "totals >= 2^24 are outside C05_equal_bound_kept; probed separately",
                        "the model takes its parameters by value (C05_excluded_unchanged, C05_history_pointwise); that the "
                        "code does not alias/mutate the caller's objects is checked by the before/after snapshots of "
                        "the histories, not by the model",
                        "an occurrence and a frequency bound on the same side with ngram_size >= 2, and an occurrence "
                        "bound when no n-gram is left, are outside the property's domain (the code raises)"]
    from concurrent.futures import ThreadPoolExecutor
    ex = ThreadPoolExecutor(max_workers=6)
    only_sweep = bool(replay) and (replay.get("case") or {}).get("kind") not in ("vocab", "history")
    sw = start_sweep(ctx, ex) if (not replay or only_sweep) else None
    if only_sweep:
        finish_sweep(ctx, sw)
        C.gate_violation(ctx)
        return ctx.finish("proof")
    n_rand, n_hist, reps = (200, 110, 1) if ctx.quick else (3000, 1200, 4)
    if replay:
        cases = [replay["case"]]
    else:
        cases = CORPUS + table_cases(ctx.rng, reps) + [gen_case(ctx.rng) for _ in range(n_rand)] \
            + [gen_history(ctx.rng, i) for i in range(n_hist)]
    owner, flat = [], []
    for ci, c in enumerate(cases):
        for si, sub in enumerate(expand(c)):
            owner.append((ci, si))
            flat.append(sub)
    impl, info, model = evaluate(cases, flat)
    if sw:
        finish_sweep(ctx, sw)
    done = len(impl) if impl else 0
    if impl is None or done != len(cases):
        ctx.report("implementation child died (rc=%s) on case %d: %s" % (info["rc"], done, info["tail"][-400:]),
                   {"stage": "impl-crash", "case": cases[done] if done < len(cases) else None}, found_input=True)
        impl = (impl or []) + [None] * (len(cases) - done)
    results = []
    for (ci, si), sub in zip(owner, flat):
        r = impl[ci]
        if r is None:
            results.append({"err": "crash"})
        elif cases[ci]["kind"] == "history":
            results.append(r["steps"][si] if "steps" in r else r)        # r = {"err":…}: the estimator could not be built
        else:
            results.append(r)
    corr_bad, n_oracle, n_corr, bites, changed = [], 0, 0, {}, []
    failed_cases = set()
    for (ci, si), c, got, m in zip(owner, flat, results, model):
        top = cases[ci]
        hist = top["kind"] == "history"
        sp = spec(c)
        kind = ("history:%s:%s:" % (top["share"], top["excl_type"]) if hist else "") + c["entry"] \
            + (":given" if c.get("dict") else "") + (":mask" if c.get("mask") is not None else "") \
            + (":malformed" if sp.get("error") else "") + (":perm" if c.get("shuffle_seed") is not None else "")
        ctx.count_case(c, nontrivial=any(c["docs"]), kind=kind)
        for b in BOUNDS + ["max_unique", "excluded", "regex"]:
            if c["cfg"][b] is not None:
                ctx.dist("bound:" + b)
        if c.get("table"):
            stage, dp, tp = c["table"]
            ctx.dist("table:%s:doc[%s]" % (stage, ",".join(dp) or "-"))
            ctx.dist("table:%s:tok[min=%s,max=%s]" % (stage, tp[0], tp[1]))
        for b in stage2_bites(c, got):
            bites[b] = bites.get(b, 0) + 1
        where = " (call %d of a history sharing %s, excluded_tokens a %s)" % (si + 1, top["share"], top["excl_type"]) if hist else ""
        if got.get("param_change"):
            changed.append((ci, si, "a parameter object was changed by the call%s (%s): %s" % (where, c["entry"], got["param_change"]), got))
        fails = check_property(c, sp, got)
        n_oracle += 1
        if fails:
            if ci not in failed_cases:
                failed_cases.add(ci)
                ctx.report("vocabulary violates the property (%s)%s: %s" % (c["entry"], where, "; ".join(fails[:3])),
                           {"stage": "oracle", "case": top, "call": si, "call_case": c if hist else None, "actual": got,
                            "failures": fails})
            continue
        mv = model_view(c, m)
        n_corr += 1
        diff = compare(c, got, mv)
        if diff:
            corr_bad.append((top, si, got, mv, diff))
    # a changed parameter object: reported after the wrong vocabularies it leads to (histories first: there the
    # change is what a later call sees)
    changed.sort(key=lambda x: (cases[x[0]]["kind"] != "history", x[0], x[1]))
    for ci, si, what, got in changed[:2]:
        ctx.report(what, {"stage": "oracle", "case": cases[ci], "call": si, "actual": got})
    ctx.coverage["oracle_param_objects"] = {"calls_compared_before_after": len(flat), "changed": len(changed)}
    ctx.coverage["correspondence"] = {"cases": n_corr, "disagreements": len(corr_bad),
                                      "model": "Model/K5_Vocab.v + K5_Float.v + K6_Reindex.v via vm_compute",
                                      "compared": "dictionary (token -> index), float32 frequencies bit-exactly, "
                                                  "n-gram column dictionary, exception class"}
    ctx.coverage["oracle"] = {"cases": n_oracle, "histories": len([c for c in cases if c["kind"] == "history"]),
                              "second_stage_bounds_that_prune_and_keep_alone": bites}
    ctx.coverage["traces_validated_against_impl"] = n_corr
    if corr_bad and not any(v["found_input"] for v in ctx.violations):
        top, si, got, mv, diff = corr_bad[0]
        ctx.report("model K5_Vocab and implementation disagree (no property-level failure found): %s" % diff,
                   {"stage": "correspondence", "correspondence": "Model/K5_Vocab.v <-> preprocessing.py",
                    "case": top, "call": si, "model": mv, "actual": got}, found_input=False)
    C.gate_violation(ctx)
    return ctx.finish("proof")
