"""C05 — the learned vocabulary is exactly the tokens meeting every pruning constraint.
Proof gate (Properties/C05.v) + exhaustive (count, total) sweep of the float32 occurrence-bound comparisons
(implementation vs Model/K5_Float.v, Flocq) + correspondence of Model/K5_Vocab.v / K6_Reindex.v with
preprocessing.py through seven entry points + property oracle (the statement evaluated directly in integers)."""
import re
from fractions import Fraction
from . import common as C

HEADER = """From Coq Require Import ZArith List Bool.
From VZ Require Import Model.K5_Vocab Model.K5_Float Model.K6_Reindex Model.C05_Instance.
Import ListNotations.
Open Scope Z_scope.
Definition mk (ign : list Z) (rx : bool) (mu : option nat) (a b c d e f g h : option Z) : config Z :=
  {| ignored := ign; use_regex := rx; max_unique := mu; min_occ := a; max_occ := b; min_freq := c; max_freq := d;
     min_dococc := e; max_dococc := f; min_docfreq := g; max_docfreq := h |}.
Definition inl_ (l : list Z) (t : Z) : bool := existsb (Z.eqb t) l.
Definition proj (r : res (list (list nat) * dict Z * list Z)) : res (dict Z * list Z) :=
  match r with Ok (s, d, fr) => Ok (d, fr) | Err e => Err e end.
(* preprocess_tree_sequences: no max_unique_tokens; document frequencies only if a tree bound is set *)
Definition tree_vocab (m : Z -> bool) (c : config Z) (docs : list (list Z)) (d0 : option (dict Z)) (mask : option Z) :=
  match learn_gen Z Z.eqb Z.ltb m f32div_fl f64div_fl f64to32_fl one64_fl (need_doc2 Z c) c docs d0 with
  | Ok (d, fr) => Ok (snd (reindex Z Z.eqb mask d []), fr)
  | Err e => Err e
  end.
(* exhaustive sweep: for a total n, the counts c in [1, n] for which, with min_occurrences = max_occurrences = c,
   the kept set among counts (c-1, c, c+1) is not exactly {c}; the comparisons are those of out_of_bounds *)
Fixpoint sweep_aux (c : Z) (fs lo hi : list Z) : list Z :=
  match fs, lo, hi with
  | f0 :: fs', _ :: lo', _ :: hi' =>
      match fs', lo', hi' with
      | f1 :: f2 :: _, l1 :: _, h1 :: _ =>
          let kept (f : Z) := negb ((f <? l1) || (h1 <? f)) in
          (if negb (kept f0) && kept f1 && negb (kept f2) then [] else [c]) ++ sweep_aux (c + 1) fs' lo' hi'
      | _, _, _ => []
      end
  | _, _, _ => []
  end.
Definition sweep_n (n : Z) : Z * list Z :=
  let cs := map Z.of_nat (seq 0 (Z.to_nat n + 2)) in
  let fs := map (fun c => f32div_fl c n) cs in
  let b64 := map (fun c => f64div_fl c n) cs in
  let lo := map f64to32_fl b64 in
  let hi := map (fun b => f64to32_fl (Z.min one64_fl b)) b64 in
  (n, sweep_aux 1 fs lo hi).
(* the same decision through the whole model on the sequence a^c b^(n-c): (kept under min_occ = c, under max_occ = c) *)
Definition e2e (n c : Z) :=
  let docs := [repeat 0 (Z.to_nat c) ++ repeat 1 (Z.to_nat (n - c))] in
  let run a b := match learn_vocab_fl (fun _ => false) (mk [] false None a b None None None None None None) docs None with
                 | Ok (d, _) => map fst d | Err _ => [(-1)] end in
  (run (Some c) None, run None (Some c)).
Definition e2e_bad (n : Z) : list Z :=
  filter (fun c => let '(a, b) := e2e n c in
                   negb (lex_eqb a (0 :: (if (0 <? n - c) && (c <=? n - c) then [1] else []))
                         && lex_eqb b (0 :: (if (0 <? n - c) && (n - c <=? c) then [1] else []))))
         (map Z.of_nat (seq 1 (Z.to_nat n))).
Definition large_probe (c n : Z) : bool * bool :=
  (negb (f64to32_fl (Z.min one64_fl (f64div_fl c n)) <? f32div_fl c n), negb (f32div_fl c n <? f64to32_fl (f64div_fl c n))).
"""

FINDING_LARGE = "C05-equal-bound-above-2p24"
ERR_CLASS = {1: "AssertionError", 2: "ZeroDivisionError"}
BOUNDS = ["min_occ", "max_occ", "min_freq", "max_freq", "min_dococc", "max_dococc", "min_docfreq", "max_docfreq"]
REGEX_POOL = ["a.*", ".", "[ab]+", "c\\d", "zz", ".*b", "a|b|ca", "..", ""]
STR_VOCAB = ["a", "b", "ab", "ba", "c1", "c2", "ca", "d", "B", "aa", "e", "f0"]


# ------------------------------------------------------------------------------------------ rendering
def key64(f):
    """python float -> integer multiple of 2^-1074 (exact for every finite double)."""
    v = Fraction(f) * (1 << 1074)
    assert v.denominator == 1
    return int(v)


def case_tokens(case):
    toks = set(t for d in case["docs"] for t in d)
    cfg = case["cfg"]
    if cfg["excluded"]:
        toks |= set(cfg["excluded"])
    if case.get("dict"):
        toks |= set(k for k, _ in case["dict"])
    if case.get("mask") is not None:
        toks.add(case["mask"])
    return sorted(toks)


def ranks(case):
    return {t: i for i, t in enumerate(case_tokens(case))}


def coq_cfg(case, rk, tree=False):
    cfg = case["cfg"]
    ign = C.coq_list([rk[t] for t in (cfg["excluded"] or [])])
    mu = "None" if (cfg["max_unique"] is None or tree) else "(Some %d%%nat)" % cfg["max_unique"]
    parts = []
    for b in BOUNDS:
        v = cfg[b]
        if v is None:
            parts.append("None")
        elif b.endswith("occ"):
            parts.append("(Some %s)" % C.z(v))
        else:
            parts.append("(Some %s)" % C.z(key64(v)))
    return "(mk %s %s %s %s)" % (ign, C.coq_bool(cfg["regex"] is not None), mu, " ".join(parts))


def coq_matches(case, rk):
    rx = case["cfg"]["regex"]
    if rx is None:
        return "(fun _ => false)"
    m = [rk[t] for t in rk if isinstance(t, str) and re.fullmatch(rx, t) is not None]
    return "(inl_ %s)" % C.coq_list(m)


def coq_case(case):
    rk = ranks(case)
    docs = C.coq_list2([[rk[t] for t in d] for d in case["docs"]])
    d0 = "None" if case.get("dict") is None else "(Some %s)" % C.coq_list(
        case["dict"], lambda kv: "(%s, %d%%nat)" % (C.z(rk[kv[0]]), kv[1]))
    mask = "None" if case.get("mask") is None else "(Some %s)" % C.z(rk[case["mask"]])
    m = coq_matches(case, rk)
    e = case["entry"]
    if e == "tree":
        return "tree_vocab %s %s %s %s %s" % (m, coq_cfg(case, rk, tree=True), docs, d0, mask)
    if e == "ngram2":
        ng = case["ngram"]
        return "ngram_vocab_fl %s %s %s %s %s %d%%nat" % (m, coq_cfg(case, rk), docs, mask,
                                                         C.coq_bool(ng["behaviour"] == "subgrams"), ng["n"])
    return "proj (preprocess_fl %s %s %s %s %s)" % (m, coq_cfg(case, rk), docs, d0, mask)


# ------------------------------------------------------------------------------------------ property oracle
def lt_decide(c, n, f):
    """Is the frequency c/n below the float bound f?  True / False / None (too close to call at float32 precision;
    equal — also when f is exactly python's c/n — counts as 'not below')."""
    if n == 0:
        return None
    q, F = Fraction(c, n), Fraction(f)
    if q == F or c / n == f:
        return False
    if abs(q - F) <= Fraction(1, 1 << 20) * max(abs(q), abs(F)):
        return None
    return q < F


def spec(case):
    """The property's own statement, in exact integer / rational arithmetic.  Returns
       {"error": True}                       invalid configuration (malformed stream: must raise)
       {"given": [...pairs]}                 a supplied dictionary is used as given
       {"status": {tok: True|False|None}, "counts":…, "k":…}   per-token verdict of the non-top-k constraints."""
    cfg, docs = case["cfg"], case["docs"]
    flat = [t for d in docs for t in d]
    n, nd = len(flat), len(docs)
    if case.get("dict") is not None:
        return {"given": case["dict"]}
    for occ, frq, tot in (("min_occ", "min_freq", n), ("max_occ", "max_freq", n),
                          ("min_dococc", "min_docfreq", nd), ("max_dococc", "max_docfreq", nd)):
        if cfg[occ] is not None and (tot == 0 or (cfg[frq] is not None and cfg[occ] / tot != cfg[frq])):
            return {"error": True}
    counts, dcounts = {}, {}
    for t in flat:
        counts[t] = counts.get(t, 0) + 1
    for d in docs:
        for t in set(d):
            dcounts[t] = dcounts.get(t, 0) + 1
    status = {}
    for t in counts:
        v = True
        conds = [t not in (cfg["excluded"] or []),
                 not (cfg["regex"] is not None and isinstance(t, str) and re.fullmatch(cfg["regex"], t) is not None)]
        c, dc = counts[t], dcounts[t]
        if cfg["min_occ"] is not None:
            conds.append(c >= cfg["min_occ"])
        elif cfg["min_freq"] is not None:
            r = lt_decide(c, n, cfg["min_freq"])
            conds.append(None if r is None else not r)
        if cfg["max_occ"] is not None:
            conds.append(c <= cfg["max_occ"])
        elif cfg["max_freq"] is not None:
            r = lt_decide(c, n, cfg["max_freq"])           # c/n > f  <=>  not (c/n < f) and not equal
            if r is None:
                conds.append(None)
            else:
                conds.append(r or Fraction(c, n) == Fraction(cfg["max_freq"]) or c / n == cfg["max_freq"])
        if cfg["min_dococc"] is not None:
            conds.append(dc >= cfg["min_dococc"])
        elif cfg["min_docfreq"] is not None:
            r = lt_decide(dc, nd, cfg["min_docfreq"])
            conds.append(None if r is None else not r)
        if cfg["max_dococc"] is not None:
            conds.append(dc <= cfg["max_dococc"])
        elif cfg["max_docfreq"] is not None:
            r = lt_decide(dc, nd, cfg["max_docfreq"])
            if r is None:
                conds.append(None)
            else:
                conds.append(r or Fraction(dc, nd) == Fraction(cfg["max_docfreq"]) or dc / nd == cfg["max_docfreq"])
        if any(x is False for x in conds):
            v = False
        elif any(x is None for x in conds):
            v = None
        status[t] = v
    return {"status": status, "counts": counts, "k": None if case["entry"] == "tree" else cfg["max_unique"]}


def check_property(case, sp, got):
    """Returns a list of failure descriptions (empty = the property holds on this output)."""
    fails = []
    if "err" in got:
        if sp.get("error"):
            return []
        if got["err"] == "ValueError" and case["entry"] == "cooc" and "status" in sp:
            st = sp["status"]
            must = [t for t in st if st[t] is True]
            k = sp["k"]
            if must and (k is None or k >= len(st)):
                fails.append("ValueError although %r meet every constraint" % must[:3])
            return fails
        if case["entry"] == "ngram2" and got["err"] in ("ZeroDivisionError", "AssertionError") and \
                any(case["cfg"][b] is not None for b in ("min_occ", "max_occ", "min_dococc", "max_dococc")):
            # second stage: an occurrence bound is divided by the number of n-grams (0 when every document is
            # shorter than n after pruning) / compared with a frequency given for the token stage.  The property
            # does not say when this must raise; the model correspondence predicts the exception class.
            return []
        return ["raised %s: %s" % (got["err"], got.get("msg", ""))]
    if sp.get("error"):
        return ["invalid configuration (occurrences and frequency disagree / empty corpus) did not raise"]
    d = [(k, v) for k, v in got["dict"]]
    mask = case.get("mask")
    if mask is not None:
        if not d or d[-1][0] != mask:
            return ["mask entry is not the last dictionary entry: %r" % d[-3:]]
        if [k for k, _ in d].count(mask) != 1:
            fails.append("mask entry not unique")
        body = d[:-1]
        if "given" not in sp and d[-1][1] != len(body):
            fails.append("mask index %d is not the vocabulary size %d" % (d[-1][1], len(body)))
        d = body
    if "given" in sp:
        exp = [(k, v) for k, v in sp["given"] if k != mask]
        if d != exp:
            fails.append("supplied dictionary not used as given: %r vs %r" % (d[:6], exp[:6]))
        return fails
    st, counts, k = sp["status"], sp["counts"], sp["k"]
    kept = [t for t, _ in d]
    for t in kept:
        if t not in st:
            fails.append("token %r is in the vocabulary but does not occur" % (t,))
        elif st[t] is False:
            fails.append("token %r kept although it violates a constraint (count %d)" % (t, counts[t]))
    sure = [t for t in st if st[t] is True]
    maybe = [t for t in st if st[t] is None]
    if k is None or (not maybe and len(sure) <= k):
        for t in sure:
            if t not in kept:
                fails.append("token %r meets every constraint (count %d) but was pruned" % (t, counts[t]))
    if k is not None:
        if len(kept) > k:
            fails.append("%d tokens kept, max_unique_tokens=%d" % (len(kept), k))
        if not maybe:
            dropped = [t for t in sure if t not in kept]
            if kept and dropped and all(t in counts for t in kept) and min(counts[t] for t in kept) <= max(counts[t] for t in dropped):
                fails.append("a kept token is not more frequent than a dropped one: kept %r dropped %r" %
                             (sorted((counts[t], t) for t in kept)[:2], sorted((counts[t], t) for t in dropped)[-2:]))
    if [v for _, v in d] != list(range(len(d))) or kept != sorted(kept):
        fails.append("indices are not 0..n-1 in sorted token order: %r" % (d[:8],))
    return fails


# ------------------------------------------------------------------------------------------ generators
def gen_docs(rng, ints=False):
    vs = rng.randint(1, 8)
    vocab = rng.sample(range(-3, 20), vs) if ints else rng.sample(STR_VOCAB, vs)
    weights = [rng.choice([1, 1, 2, 3, 5]) for _ in vocab]
    nd = rng.choice([1, 1, 2, 3, 4, 6])
    docs = []
    for _ in range(nd):
        L = rng.choice([0, 1, 2, 3, 5, 8, 12])
        docs.append(rng.choices(vocab, weights, k=L))
    if not any(docs) and rng.random() < 0.9:
        docs[0] = rng.choices(vocab, weights, k=rng.randint(1, 6))
    return docs, vocab


def pick_bound(rng, values, total, allow_freq=True):
    """None / occurrences k / frequency f, concentrated on the boundaries (values = the counts that occur)."""
    r = rng.random()
    if r < 0.55 or total == 0 and r < 0.97:
        return None, None
    base = rng.choice(sorted(values) + [0, total]) if values else 0
    k = max(0, base + rng.choice([-1, 0, 0, 0, 1]))
    if r < 0.8 or not allow_freq or total == 0:
        return k, None
    kind = rng.random()
    if kind < 0.5:
        return None, k / total                                   # exactly python's k/n
    if kind < 0.75:
        return None, (k / total) * rng.choice([0.999, 1.001])    # clearly off the boundary
    if kind < 0.85:
        return k, k / total                                      # both given, consistent
    if kind < 0.9:
        return k, (k + 1) / total                                # both given, inconsistent (malformed stream)
    return None, rng.choice([0.0, 0.1, 0.25, 0.3, 0.5, 0.7, 1.0, 1.5, -0.5])


def gen_case(rng):
    ints = rng.random() < 0.15
    docs, vocab = gen_docs(rng, ints)
    flat = [t for d in docs for t in d]
    n, nd = len(flat), len(docs)
    counts, dcounts = {}, {}
    for t in flat:
        counts[t] = counts.get(t, 0) + 1
    for d in docs:
        for t in set(d):
            dcounts[t] = dcounts.get(t, 0) + 1
    cfg = {}
    cfg["min_occ"], cfg["min_freq"] = pick_bound(rng, set(counts.values()), n)
    cfg["max_occ"], cfg["max_freq"] = pick_bound(rng, set(counts.values()), n)
    cfg["min_dococc"], cfg["min_docfreq"] = pick_bound(rng, set(dcounts.values()), nd)
    cfg["max_dococc"], cfg["max_docfreq"] = pick_bound(rng, set(dcounts.values()), nd)
    cfg["max_unique"] = rng.randint(0, len(counts) + 1) if rng.random() < 0.35 else None
    cfg["excluded"] = None
    if rng.random() < 0.3:
        pool = list(vocab) + ([99] if ints else ["zzz"])
        cfg["excluded"] = rng.sample(pool, rng.randint(0, min(3, len(pool))))
    cfg["regex"] = rng.choice(REGEX_POOL) if (not ints and rng.random() < 0.25) else None
    r = rng.random()
    entry = ("preprocess" if r < 0.5 else "ngram1" if r < 0.58 else "ngram2" if r < 0.7 else "cooc" if r < 0.78
             else "tree" if r < 0.86 else "timed" if r < 0.93 else "multi")
    case = {"kind": "vocab", "entry": entry, "docs": docs, "cfg": cfg, "dict": None, "mask": None}
    if rng.random() < 0.25:
        case["mask"] = -77 if ints else "MASK"
    if entry in ("preprocess", "cooc", "tree") and rng.random() < 0.12:
        pool = list(vocab) + ([50, 51] if ints else ["x1", "x2"])
        ks = rng.sample(pool, rng.randint(1, len(pool)))
        case["dict"] = [[k, i] for i, k in enumerate(ks)]
    if entry == "ngram2":
        case["ngram"] = {"n": rng.choice([2, 2, 3]), "behaviour": rng.choice(["exact", "exact", "subgrams"])}
    if entry == "tree":
        cfg["max_unique"] = None
        case["docs"] = [d for d in docs if d] or [[vocab[0]]]
    if entry == "timed":
        # an empty (token, time) document becomes a 1-d float32 array that numba's typed List rejects next to the
        # 2-d ones (AssertionError inside numba; unrelated to the vocabulary) — generate non-empty documents only
        case["docs"] = [d for d in docs if d] or [[vocab[0]]]
    if entry == "multi":
        # semi_flatten raises IndexError on a document without tokens
        case["docs"] = [d for d in docs if d] or [[vocab[0]]]
        md = []
        for d in case["docs"]:
            ms, i = [], 0
            while i < len(d):
                s = rng.randint(1, 3)
                ms.append(d[i:i + s])
                i += s
            md.append(ms)
        case["multi_docs"] = md
    if entry in ("cooc", "ngram1", "ngram2", "tree") and not any(case["docs"]):
        case["docs"][0] = [vocab[0]]
    if entry == "timed" and case["mask"] is None:
        # delete mode: a document that loses all its tokens becomes the same 1-d empty array and crashes the typed
        # List (not owned here, reported): switch to mask mode unless every document certainly keeps a token
        sp = spec(case)
        if "status" not in sp or cfg["max_unique"] is not None or \
                any(all(sp["status"].get(t) is not True for t in d) for d in case["docs"]):
            case["mask"] = -77 if ints else "MASK"
    if rng.random() < 0.15 and entry != "ngram2":      # n-grams depend on the token order; the token dictionary does not
        case["shuffle_seed"] = rng.randint(0, 10 ** 6)
    return case


def _cfg(**kw):
    c = {b: None for b in BOUNDS}
    c.update({"max_unique": None, "excluded": None, "regex": None})
    c.update(kw)
    return c


CORPUS = [
    # the library's own test corpus with its six pruning settings
    {"kind": "vocab", "entry": "preprocess", "dict": None, "mask": None, "cfg": _cfg(min_occ=2),
     "docs": [["foo", "bar", "pok", "foo"], ["bar", "wer", "foo"], ["pok", "foo", "wer", "wer"]]},
    {"kind": "vocab", "entry": "cooc", "dict": None, "mask": None, "cfg": _cfg(max_unique=2),
     "docs": [["foo", "bar", "pok", "foo"], ["bar", "wer", "foo"], ["pok", "foo", "wer", "wer"]]},
    {"kind": "vocab", "entry": "preprocess", "dict": None, "mask": "MASK", "cfg": _cfg(max_freq=4 / 11, min_docfreq=2 / 3),
     "docs": [["foo", "bar", "pok", "foo"], ["bar", "wer", "foo"], ["pok", "foo", "wer", "wer"]]},
    {"kind": "vocab", "entry": "ngram2", "dict": None, "mask": None, "cfg": _cfg(min_occ=2),
     "ngram": {"n": 2, "behaviour": "exact"}, "docs": [["a", "b", "a", "b", "c"], ["b", "a", "b"]]},
    {"kind": "vocab", "entry": "preprocess", "dict": None, "mask": None, "cfg": _cfg(min_occ=1, max_occ=1),
     "docs": [["a", "b", "b"]]},
    {"kind": "vocab", "entry": "preprocess", "dict": None, "mask": None, "cfg": _cfg(min_occ=3, min_freq=0.5),
     "docs": [["a", "b", "b"]]},
]


# ------------------------------------------------------------------------------------------ evaluation
def model_view(case, m):
    """Parsed Coq value -> {"dict": [[tok, idx]...], "freq": [...]} / {"err": class} in implementation vocabulary."""
    toks = case_tokens(case)
    if m[0] == "Err":
        return {"err": ERR_CLASS.get(m[1], "Err%d" % m[1])}
    a, b = m[1]
    if case["entry"] == "ngram2":
        d = [[toks[t], i] for t, i in a]
        inv = {i: toks[t] for t, i in a}
        cols = [[[inv[int(x)] for x in g], i] for g, i in b]
        return {"dict": d, "columns": cols}
    return {"dict": [[toks[t], i] for t, i in a], "freq": list(b)}


def canon(pairs):
    return sorted(([k if not isinstance(k, list) else tuple(k), v] for k, v in pairs), key=lambda kv: (kv[1], str(kv[0])))


def compare(case, got, mv):
    """Correspondence diff between implementation output and model view; None when equal."""
    if "err" in got or "err" in mv:
        if got.get("err") == mv.get("err"):
            return None
        if "err" in got and "err" not in mv and case["entry"] in ("cooc", "ngram2") and got["err"] == "ValueError":
            empty = not [k for k, _ in mv["dict"] if k != case.get("mask")] or \
                (case["entry"] == "ngram2" and not mv["columns"])
            if case["entry"] == "cooc" and empty:
                return None          # "Token dictionary is empty" is raised by the vectorizer, after preprocessing
        return "exception mismatch: impl %s, model %s" % (got.get("err"), mv.get("err", "no error"))
    if canon(got["dict"]) != canon(mv["dict"]):
        return "dictionary: impl %r, model %r" % (got["dict"][:8], mv["dict"][:8])
    if "columns" in mv and canon(got["columns"]) != canon(mv["columns"]):
        return "n-gram columns: impl %r, model %r" % (got["columns"][:6], mv["columns"][:6])
    if "freq" in mv and got["freq"] != mv["freq"]:
        return "float32 frequencies differ: impl %r, model %r" % (got["freq"][:4], mv["freq"][:4])
    return None


def eval_sharded(tag, header, exprs, shard, jobs, timeout=1500):
    """C.coq_eval_sharded with a per-shard timeout that leaves room for a loaded machine."""
    from concurrent.futures import ThreadPoolExecutor
    shards = [exprs[i:i + shard] for i in range(0, len(exprs), shard)]
    with ThreadPoolExecutor(max_workers=jobs) as ex:
        futs = [ex.submit(C.coq_eval, "%s_s%d" % (tag, k), header, sh, timeout) for k, sh in enumerate(shards)]
        out = []
        for f in futs:
            out += f.result()
    return out


def start_sweep(ctx, ex):
    """Launch the sweep's child processes; returns the futures and the parameters."""
    T, Tm, T0 = (350, 150, 40) if ctx.quick else (3000, 500, 80)
    large = [[1, 2 ** 24 + 1], [3, 2 ** 24 + 1], [1000001, 2 ** 24 + 1], [5, 2 ** 25 + 7], [2 ** 24, 2 ** 24],
             [7, 2 ** 24]]
    payload = {"mode": "sweep", "T": T, "T0": T0, "large": large, "large_e2e": None if ctx.quick else 2 ** 24 + 1}
    ns = list(range(1, Tm + 1))
    nsh = 8 if ctx.quick else 14
    order = sorted(ns, key=lambda n: (n % nsh, n))             # balance the work (proportional to n) over the shards
    shard = -(-len(order) // nsh)
    f_impl = ex.submit(C.run_impl, "c05", payload)
    f_model = ex.submit(eval_sharded, "C05sw", HEADER, ["sweep_n %d" % n for n in order], shard, nsh)
    f_e2e = ex.submit(eval_sharded, "C05e2e", HEADER,
                      ["e2e_bad %d" % n for n in range(1, T0 + 1)] + ["large_probe %d %d" % (c, n) for c, n in large],
                      max(1, -(-(T0 + len(large)) // 6)), 6)
    return {"T": T, "Tm": Tm, "T0": T0, "large": large, "payload": payload, "impl": f_impl, "model": f_model, "e2e": f_e2e}


def finish_sweep(ctx, sw):
    T, Tm, T0, large, payload = sw["T"], sw["Tm"], sw["T0"], sw["large"], sw["payload"]
    impl, info = sw["impl"].result()
    try:
        model, e2e = sw["model"].result(), sw["e2e"].result()
    except RuntimeError as e:
        ctx.report("evaluation of the model sweep inside Coq failed or timed out: %s" % str(e)[-600:],
                   {"stage": "correspondence", "correspondence": "Model/K5_Float.v sweep (vm_compute)"}, found_input=False)
        model, e2e = [], [[]] * T0 + [(True, True)] * len(large)
    if impl is None:
        ctx.report("sweep child died (rc=%s): %s" % (info["rc"], info["tail"][-400:]), {"stage": "impl-crash", "case": payload},
                   found_input=False)
        return
    model_bad = sorted([n, c] for n, cs in model for c in cs)
    impl_bad = sorted([n, c] for n, c, _ in impl["bad"])
    ctx.coverage["sweep"] = {"exhaustive": True, "T": T, "pairs": impl["pairs"], "T_model_evaluated": Tm,
                             "pairs_model_evaluated": Tm * (Tm + 1) // 2,
                             "model_decision": "vm_compute of Model/K5_Float.v for n <= T_model_evaluated; for every "
                                               "n < 2^24 theorem C05_occurrence_bounds_exact proves it equal to the "
                                               "integer comparison the implementation is checked against",
                             "impl_anomalies": len(impl_bad), "model_anomalies": len(model_bad),
                             "end_to_end_T0": T0, "end_to_end_cases": impl["pairs_e2e"],
                             "what": "every (count c, total n), 1 <= c <= n <= T: kept set among counts c-1, c, c+1 under "
                                     "min_occurrences = max_occurrences = c through prune_token_dictionary (numpy "
                                     "float32) must be exactly {c}; n <= T0 also end to end through "
                                     "preprocess_token_sequences / learn_vocab_fl"}
    ctx.coverage["exhaustive"] = True
    ctx.coverage["evaluations"] += impl["pairs"] + impl["pairs_e2e"]
    ctx.dist("sweep:pairs", impl["pairs"])
    ctx.dist("sweep:end-to-end", impl["pairs_e2e"])
    for n, c, kept in impl["bad"][:3]:
        ctx.report("token counts %d,%d,%d of %d tokens with min_occurrences=max_occurrences=%d: kept %r, expected [%d]"
                   % (c - 1, c, c + 1, n, c, kept, c),
                   {"stage": "oracle", "case": {"kind": "pair", "n": n, "c": c}, "actual": kept, "expected": [c]})
    for n, c, which, kept in impl["bad_e2e"][:3]:
        ctx.report("['a']*%d+['b']*%d with %s_occurrences=%d: vocabulary %r" % (c, n - c, which, c, kept),
                   {"stage": "oracle", "case": {"kind": "pair_e2e", "n": n, "c": c, "which": which}, "actual": kept})
    e2e_model_bad = [[n + 1, c] for n, cs in enumerate(e2e[:T0]) for c in cs]
    if (model_bad != [p for p in impl_bad if p[0] <= Tm] or e2e_model_bad) and not impl["bad"] and not impl["bad_e2e"]:
        ctx.report("exhaustive sweep: model and implementation decisions differ (model anomalies %r, e2e %r)"
                   % (model_bad[:5], e2e_model_bad[:5]),
                   {"stage": "correspondence", "correspondence": "Model/K5_Float.v <-> prune_token_dictionary float32 comparison",
                    "model": model_bad[:20], "actual": impl_bad[:20]}, found_input=False)
    # region n >= 2^24 (outside C05_equal_bound_kept): model vs implementation, failures are the known finding
    probes = e2e[T0:]
    for (c, n), mp, ip in zip(large, probes, impl["large"]):
        ctx.count_case({"kind": "large", "c": c, "n": n}, nontrivial=True, kind="large-total")
        if [bool(mp[0]), bool(mp[1])] != [ip["kept_under_max"], ip["kept_under_min"]]:
            ctx.report("totals >= 2^24: model %r vs implementation %r for count %d of %d" % (mp, ip, c, n),
                       {"stage": "correspondence", "correspondence": "Model/K5_Float.v <-> prune_token_dictionary",
                        "case": {"kind": "large", "c": c, "n": n}}, found_input=False)
        if not (ip["kept_under_max"] and ip["kept_under_min"]):
            ctx.report("a token occurring exactly %d times among %d tokens is pruned by %s_occurrences=%d"
                       % (c, n, "max" if not ip["kept_under_max"] else "min", c),
                       {"stage": "oracle", "case": {"kind": "large", "c": c, "n": n}, "actual": ip},
                       finding_key=FINDING_LARGE if n > 2 ** 24 else None)
    if impl.get("large_e2e") and impl["large_e2e"]["dict"] != ["a"]:
        ctx.report("preprocess_token_sequences([['a'] + ['b']*2^24], max_occurrences=1) -> %r, expected ['a']"
                   % impl["large_e2e"]["dict"], {"stage": "oracle", "case": {"kind": "large_e2e", "n": 2 ** 24 + 1}},
                   finding_key=FINDING_LARGE)


def evaluate(cases):
    from concurrent.futures import ThreadPoolExecutor
    with ThreadPoolExecutor(max_workers=2) as ex:
        f_impl = ex.submit(C.run_impl, "c05", {"mode": "cases", "cases": cases})
        f_model = ex.submit(C.coq_eval_sharded, "C05", HEADER, [coq_case(c) for c in cases], 200)
        (impl, info), model = f_impl.result(), f_model.result()
    return impl, info, model


def run(ctx, replay=None):
    C.run_gate(ctx)
    ctx.coverage["rule"] = ("(a) exhaustive (count,total) sweep; (b) random corpora (1-6 documents, <= 8 distinct tokens, "
                            "str or int) x random constraint combinations drawn on the boundaries (occurrences = an "
                            "occurring count +-1, frequency = python's k/n, both given, max_unique around the number of "
                            "candidates, excluded tokens, regex) through 7 entry points; non-trivial = >= 1 token occurs")
    ctx.assumptions += ["the regex engine is the oracle re.fullmatch evaluated by the harness and passed to the model as a set",
                        "token strings are mapped to their rank in python's sorted order (the model orders integers)",
                        "frequency bounds within 2^-20 (relative) of a token's exact frequency are not judged by the "
                        "property oracle (only by the model correspondence)",
                        "totals >= 2^24 are outside C05_equal_bound_kept; probed separately"]
    from concurrent.futures import ThreadPoolExecutor
    ex = ThreadPoolExecutor(max_workers=6)
    only_sweep = bool(replay) and (replay.get("case") or {}).get("kind") != "vocab"
    sw = start_sweep(ctx, ex) if (not replay or only_sweep) else None
    if only_sweep:
        finish_sweep(ctx, sw)
        C.gate_violation(ctx)
        return ctx.finish("proof")
    n = 400 if ctx.quick else 4000
    cases = [replay["case"]] if replay else CORPUS + [gen_case(ctx.rng) for _ in range(n)]
    impl, info, model = evaluate(cases)
    if sw:
        finish_sweep(ctx, sw)
    if impl is None or len(impl) != len(cases):
        done = len(impl) if impl else 0
        ctx.report("implementation child died (rc=%s) on case %d: %s" % (info["rc"], done, info["tail"][-400:]),
                   {"stage": "impl-crash", "case": cases[done] if done < len(cases) else None}, found_input=True)
        impl = (impl or []) + [{"err": "crash"}] * (len(cases) - done)
    corr_bad, n_oracle, n_corr = [], 0, 0
    for c, got, m in zip(cases, impl, model):
        sp = spec(c)
        kind = c["entry"] + (":given" if c.get("dict") else "") + (":mask" if c.get("mask") is not None else "") \
            + (":malformed" if sp.get("error") else "") + (":perm" if c.get("shuffle_seed") is not None else "")
        ctx.count_case(c, nontrivial=any(c["docs"]), kind=kind)
        for b in BOUNDS + ["max_unique", "excluded", "regex"]:
            if c["cfg"][b] is not None:
                ctx.dist("bound:" + b)
        fails = check_property(c, sp, got)
        n_oracle += 1
        if fails:
            ctx.report("vocabulary violates the property (%s): %s" % (c["entry"], "; ".join(fails[:3])),
                       {"stage": "oracle", "case": c, "actual": got, "failures": fails})
            continue
        mv = model_view(c, m)
        n_corr += 1
        diff = compare(c, got, mv)
        if diff:
            corr_bad.append((c, got, mv, diff))
    ctx.coverage["correspondence"] = {"cases": n_corr, "disagreements": len(corr_bad),
                                      "model": "Model/K5_Vocab.v + K5_Float.v + K6_Reindex.v via vm_compute",
                                      "compared": "dictionary (token -> index), float32 frequencies bit-exactly, "
                                                  "n-gram column dictionary, exception class"}
    ctx.coverage["oracle"] = {"cases": n_oracle}
    ctx.coverage["traces_validated_against_impl"] = n_corr
    if corr_bad and not any(v["found_input"] for v in ctx.violations):
        c, got, mv, diff = corr_bad[0]
        ctx.report("model K5_Vocab and implementation disagree (no property-level failure found): %s" % diff,
                   {"stage": "correspondence", "correspondence": "Model/K5_Vocab.v <-> preprocessing.py",
                    "case": c, "model": mv, "actual": got}, found_input=False)
    C.gate_violation(ctx)
    return ctx.finish("proof")
