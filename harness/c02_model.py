"""Model-level correspondence of C02 for the estimators whose fit / fit_transform / transform are hand-duplicated
pipelines: NgramVectorizer (Model/K02_TwoPathsNgram.v) and TokenCooccurrenceVectorizer (Model/K02_TwoPaths.v), both
instantiated in Model/K02_TwoPathsExec.v (integer tokens, Flocq IEEE floats for the pruning, rational weights).

For a seeded case (parameters incl. pruning, mask_string, nullify_mask; a training corpus X; a second corpus X2 with
unseen and pruned tokens) the Coq model is evaluated with vm_compute and compared with what the implementation returns
on each of its code paths: fit_transform(X), fit(X)'s stored matrix, fit(X).transform(X), fit(X).transform(X2), and the
fitted token dictionary.  Count matrices are compared exactly, co-occurrence matrices (float32 accumulation vs exact
rationals) to 1e-5 relative.  A difference between model and implementation is a broken correspondence
(found_input=False); the property itself (the implementation's own paths disagree) is judged by the caller."""
from fractions import Fraction as F
from . import common as C

HEADER = """From Coq Require Import ZArith List Bool QArith Qcanon.
From VZ Require Import Model.K5_Vocab Model.K02_Windows Model.K03_Cooc Model.K03_Exec Model.K02_TwoPaths
     Model.K02_TwoPathsNgram Model.K02_TwoPathsExec.
Import ListNotations.
Open Scope Z_scope.
Definition mk (mu : option nat) (a b c d : option Z) : config Z :=
  {| ignored := []; use_regex := false; max_unique := mu; min_occ := a; max_occ := b; min_freq := None;
     max_freq := None; min_dococc := c; max_dococc := d; min_docfreq := None; max_docfreq := None |}.
Definition blk (rev : bool) (R : nat) (kf : nat -> QcK) (norm : bool) (off : nat) (fr : list Z) (mi : option nat) :=
  mkblock rev (fixed_window_radii R (length fr) mi) kf mi norm off (qc 1 1).
"""

MASK = 99          # the mask "string" of the integer-token cases
UNSEEN = 50
ERR = {1: "AssertionError", 2: "ZeroDivisionError", 3: "ValueError", 4: "ValueError"}

PRUNES = [{}, {"min_occurrences": 2}, {"max_occurrences": 4}, {"min_document_occurrences": 2}, {"max_unique_tokens": 2},
          {"max_unique_tokens": 3, "min_occurrences": 2}]
MASKS = [(None, False), (MASK, False), (MASK, True), (None, True)]


def gen_docs(rng, alphabet, n_docs, maxlen):
    return [[rng.choice(alphabet) for _ in range(rng.choice([0, 1, 2, 3, maxlen, rng.randint(0, maxlen)]))]
            for _ in range(n_docs)]


def gen_case(rng, kind, i):
    """The discrete settings are enumerated on i (mask setting fastest, then pruning), the rest is random."""
    # nullify_mask without a mask_string is accepted by NgramVectorizer only (the co-occurrence constructor rejects it)
    masks = MASKS if kind == "ngram" else MASKS[:3]
    mask, nullify = masks[i % len(masks)]
    prune = dict(PRUNES[(i // len(masks)) % len(PRUNES)])
    alphabet = list(range(1, rng.randint(3, 6)))
    # the first document keeps the vocabulary (and the n-gram dictionary) non-empty under every pruning setting above:
    # tokens 1 and 2 occur >= 2 times in >= 2 documents (the corpus is doubled), and an empty collection or an empty
    # flattened n-gram list is not a valid input (utils.flatten([]) raises, DESIGN.md §8)
    X = [[1, 2, 1, 2, 1]] + gen_docs(rng, alphabet, rng.randint(0, 4), 7)
    if rng.random() < 0.15 and mask is not None:
        X.append([1, mask, 2, mask])                 # the mask string is itself a token of the corpus
    X = X + [list(d) for d in X]
    if "max_occurrences" in prune:
        prune["max_occurrences"] = rng.choice([len([t for d in X for t in d if t == 1]), 4, 6])
    X2 = gen_docs(rng, alphabet + [UNSEEN], rng.randint(1, 4), 7) + [[], [UNSEEN], [2, UNSEEN, 1, 1, 2]]
    params = dict(prune)
    if mask is not None:
        params["mask_string"] = mask
    if nullify:
        params["nullify_mask"] = True
    case = {"kind": kind, "X": X, "X2": X2}
    if kind == "ngram":
        params["ngram_size"] = [3, 1, 2][(i // (len(MASKS) * len(PRUNES))) % 3] if rng.random() < 0.5 else rng.choice([1, 2, 3])
        params["ngram_behaviour"] = rng.choice(["exact", "subgrams"])
    else:
        params.update({"window_radii": rng.choice([1, 2, 3, 8]), "kernel_functions": rng.choice(["flat", "harmonic", "geometric"]),
                       "window_orientations": rng.choice(["before", "after", "directional"]),
                       "normalize_windows": rng.random() < 0.5, "window_functions": "fixed", "n_iter": 0, "epsilon": 0})
        if rng.random() < 0.3:
            params["kernel_args"] = {"normalize": rng.random() < 0.5, "offset": rng.choice([0, 1])}
    case["params"] = params
    return case


def z_opt(v):
    return "None" if v is None else "(Some %s)" % C.z(v)


def coq_cfg(p):
    mu = p.get("max_unique_tokens")
    return "(mk %s %s %s %s %s)" % ("None" if mu is None else "(Some %d%%nat)" % mu, z_opt(p.get("min_occurrences")),
                                    z_opt(p.get("max_occurrences")), z_opt(p.get("min_document_occurrences")),
                                    z_opt(p.get("max_document_occurrences")))


def coq_expr(case):
    p = case["params"]
    X, X2 = C.coq_list2(case["X"]), C.coq_list2(case["X2"])
    mask = z_opt(p.get("mask_string"))
    nullify = C.coq_bool(p.get("nullify_mask", False))
    if case["kind"] == "ngram":
        prm = "{| np_size := %d%%nat; np_beh := %s; np_mask := %s; np_nullify := %s |}" % (
            p["ngram_size"], "KN.Exact" if p["ngram_behaviour"] == "exact" else "KN.Subgrams", mask, nullify)
        return "run_ngv %s %s %s %s" % (prm, coq_cfg(p), X, X2)
    ka = p.get("kernel_args", {})
    kf = {"flat": "kf_flat", "harmonic": "kf_harmonic", "geometric": "(kf_geometric (qc 9 10))"}[p["kernel_functions"]]
    revs = {"before": [True], "after": [False], "directional": [True, False]}[p["window_orientations"]]
    blocks = "; ".join("blk %s %d%%nat %s %s %d%%nat fr mi" % (C.coq_bool(r), p["window_radii"], kf,
                                                             C.coq_bool(ka.get("normalize", False)), ka.get("offset", 0))
                       for r in revs)
    cfg = "{| cc_nullify := %s; cc_nw := %s; cc_blocks := fun fr mi => [%s] |}" % (
        nullify, C.coq_bool(p["normalize_windows"]), blocks)
    return "run_token %s %s %s %s %s" % (cfg, coq_cfg(p), mask, X, X2)


def model_matrix(kind, v):
    """-> {"shape": [r, c] | None, "cells": {(i, j): Fraction}}"""
    if kind == "ngram":
        r, c, trip = v
        cells = {}
        for i, j, x in trip:
            cells[(i, j)] = cells.get((i, j), 0) + F(x)
        return {"shape": [r, c], "cells": {k: x for k, x in cells.items() if x != 0}}
    return {"shape": None, "cells": {(i, j): F(num, den) for i, j, (num, den) in v if num != 0}}


def diff_matrix(kind, model, impl, shape=None):
    """None when the implementation's canonical triples agree with the model's cells."""
    if "err" in impl:
        return "implementation raised %s (%s), the model returns a matrix" % (impl["err"], impl.get("msg"))
    want_shape = model["shape"] or shape
    if want_shape is not None and list(impl["shape"]) != list(want_shape):
        return "shape %s, model %s" % (impl["shape"], want_shape)
    got = {(i, j): v for i, j, v in impl["triples"]}
    for k in sorted(set(got) | set(model["cells"])):
        a, b = got.get(k, 0.0), float(model["cells"].get(k, 0))
        if (a != b) if kind == "ngram" else (abs(a - b) > 1e-7 + 1e-5 * max(abs(a), abs(b))):
            return "cell %s: implementation %r, model %r" % (k, a, b)
    return None


class Deferred:
    """Collects reports so that the caller can emit property-level failures (found_input=True) before correspondence
    failures (ctx.report keeps the first five)."""
    def __init__(self):
        self.oracle, self.corr = [], []

    def report(self, what, replay, found_input=True, finding_key=None):
        (self.oracle if found_input else self.corr).append((what, replay, found_input))

    def emit(self, ctx, which):
        for what, replay, fi in (self.oracle if which == "oracle" else self.corr):
            ctx.report(what, replay, found_input=fi)


def judge(ctx, case, val, res, stats):
    """Correspondence of one case; returns True when model and implementation agree on every path."""
    kind = case["kind"]
    rep = {"stage": "model-correspondence", "case": case,
           "model": "Model/K02_TwoPathsExec.v %s" % ("run_ngv" if kind == "ngram" else "run_token")}
    if res.get("harness_error"):
        ctx.report("harness error in the model correspondence: " + res["harness_error"], rep, found_input=False)
        return False
    code = val[0]
    if code != 0:
        stats["fit_raises"] = stats.get("fit_raises", 0) + 1
        got = res.get("fit", {})
        if got.get("err") != ERR.get(code) or res.get("fit_transform", {}).get("err") != ERR.get(code):
            ctx.report("model: fit raises %s; implementation: fit %s, fit_transform %s" % (
                ERR.get(code), got.get("err", "returns"), res.get("fit_transform", {}).get("err", "returns")), rep, found_input=False)
            return False
        return True
    if "err" in res.get("fit", {}):
        ctx.report("implementation: fit raised %s (%s); the model returns a fitted estimator" % (res["fit"]["err"], res["fit"].get("msg")),
                   rep, found_input=False)
        return False
    if kind == "ngram":
        _, train, (e1, tX), (e2, tX2) = val
        paths = [("fit_transform(X)", train, "fit_transform"), ("fit(X)._train_matrix", train, "fit"),
                 ("fit(X).transform(X)", tX, "transform_X"), ("fit(X).transform(X2)", tX2, "transform_X2")]
        shape = None
        dict_model = None
    else:
        _, d, cooc, (e0, ft), (e1, tX), (e2, tX2) = val
        paths = [("fit_transform(X)", ft, "fit_transform"), ("fit(X).cooccurrences_", cooc, "fit"),
                 ("fit(X).transform(X)", tX, "transform_X"), ("fit(X).transform(X2)", tX2, "transform_X2")]
        n = len(d)
        nb = {"before": 1, "after": 1, "directional": 2}[case["params"]["window_orientations"]]
        shape = [n, n * nb]
        dict_model = sorted([int(k), int(v)] for k, v in d)
        if dict_model != res.get("token_dictionary"):
            ctx.report("token_label_dictionary_: implementation %s, model %s" % (res.get("token_dictionary"), dict_model), rep, found_input=False)
            return False
    ok = True
    for label, mv, key in paths:
        dm = diff_matrix(kind, model_matrix(kind, mv), res.get(key, {"err": "missing"}), shape)
        if dm:
            ctx.report("%s of %s(%s): %s" % (label, "NgramVectorizer" if kind == "ngram" else "TokenCooccurrenceVectorizer",
                                             case["params"], dm), dict(rep, path=label), found_input=False)
            ok = False
            break
    return ok


N_COMPILED = 4      # co-occurrence cases also run with the compiled kernels (a fresh numba specialisation costs 5-15 s)


def run(real_ctx, n_ngram, n_token, only=None):
    """Returns (stats, Deferred): nothing is reported to the context here."""
    ctx = Deferred()
    ctx.rng, ctx.count_case, ctx.coverage = real_ctx.rng, real_ctx.count_case, real_ctx.coverage
    if only is not None:          # replay of one recorded case
        cases = [only]
        n_ngram, n_token = (1, 0) if only["kind"] == "ngram" else (0, 1)
    else:
        cases = [gen_case(ctx.rng, "ngram", i) for i in range(n_ngram)] + [gen_case(ctx.rng, "token", i) for i in range(n_token)]
    from concurrent.futures import ThreadPoolExecutor
    with ThreadPoolExecutor(max_workers=3) as ex:
        f_coq = ex.submit(C.coq_eval_sharded, "C02m", HEADER, [coq_expr(c) for c in cases], 40)
        f_ng = ex.submit(C.run_impl, "c02_model", cases[:n_ngram], None, 900)
        # the co-occurrence cases interpreted (NUMBA_DISABLE_JIT=1: python semantics of the same source, ms per case);
        # the first N_COMPILED of them also with the compiled kernels, and those results are the ones judged
        f_tk = ex.submit(C.run_impl, "c02_model", cases[n_ngram:], {"NUMBA_DISABLE_JIT": "1"}, 1500)
        f_jit = ex.submit(C.run_impl, "c02_model", cases[n_ngram:n_ngram + N_COMPILED], None, 600)
        vals = f_coq.result()
        (r_ng, i_ng), (r_tk, i_tk), (r_jit, i_jit) = f_ng.result(), f_tk.result(), f_jit.result()
    n_jit = 0
    if r_tk is not None:
        if r_jit is None or len(r_jit) != len(cases[n_ngram:n_ngram + N_COMPILED]):
            ctx.report("compiled implementation child of the model correspondence died (rc=%s): %s" % (i_jit["rc"], i_jit["tail"][-400:]),
                       {"stage": "impl-crash", "case": cases[n_ngram + len(r_jit or [])]}, found_input=True)
        for k, rj in enumerate(r_jit or []):
            if k < len(r_tk):
                r_tk[k] = rj
                n_jit += 1
    stats = {"cases": len(cases), "agree": 0}
    for part, (res, info), off in (("ngram", (r_ng, i_ng), 0), ("token", (r_tk, i_tk), n_ngram)):
        res = res or []
        want = n_ngram if part == "ngram" else n_token
        if len(res) != want:
            ctx.report("implementation child of the model correspondence died (rc=%s): %s" % (info["rc"], info["tail"][-400:]),
                       {"stage": "impl-crash", "case": cases[off + len(res)]}, found_input=True)
        for k, r in enumerate(res):
            case = cases[off + k]
            p = case["params"]
            key = "model:%s mask=%s nullify=%s prune=%s" % (part, "mask_string" in p, bool(p.get("nullify_mask")),
                                                           "+".join(sorted(q for q in p if "occurrences" in q or "unique" in q)) or "none")
            ctx.count_case(["model", part, p, case["X"]], nontrivial=bool(r.get("fit", {}).get("triples")), kind=key)
            if judge(ctx, case, vals[off + k], r, stats):
                stats["agree"] += 1
            # the property itself on the implementation's own paths (exact for counts, 1e-5 for float32 sums)
            a, b, c = r.get("fit_transform"), r.get("fit"), r.get("transform_X")
            if a and b and c and "err" not in b:
                for label, x in (("fit_transform(X)", a), ("fit(X).transform(X)", c)):
                    d = ("raised " + x["err"]) if "err" in x else diff_matrix(
                        part, {"shape": b["shape"], "cells": {(i, j): F(v) for i, j, v in b["triples"]}}, x)
                    if d:
                        ctx.report("%s(%s): %s differs from the matrix stored by fit(X): %s" % (
                            "NgramVectorizer" if part == "ngram" else "TokenCooccurrenceVectorizer", p, label, d),
                            {"stage": "oracle-model-case", "case": case}, found_input=True)
                        break
                if r.get("fit_returns_self") is False:
                    ctx.report("fit(X) does not return the estimator", {"stage": "oracle-model-case", "case": case}, found_input=True)
    stats["impl_wall_s"] = [i_ng.get("wall_s"), i_tk.get("wall_s"), i_jit.get("wall_s")]
    stats["modes"] = {"NgramVectorizer (pure python)": n_ngram, "TokenCooccurrence NUMBA_DISABLE_JIT=1": n_token - n_jit,
                      "TokenCooccurrence compiled": n_jit}
    ctx.coverage["correspondence"]["K02_TwoPaths"] = stats
    return stats, ctx
