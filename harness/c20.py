"""C20 — histogram rows conserve the events; KDE rows depend only on the value multiset.
Proof gate (Properties/C20.v) + correspondence of Model/K15_HistKDE.v with vectorizers/_vectorizers.py
(HistogramVectorizer: fitted bins read as exact rationals, CHECKED for the chain hypothesis inside Coq, rows of
`transform` for list / ndarray / Series inputs compared with the model's cut) + property oracle (the statement of
C20 evaluated directly on the implementation's bins and rows; KDE rows: >= 0, permutation invariant, equal to the
mean of Gaussians)."""
import math
from fractions import Fraction

from . import common as C

HEADER = """From Coq Require Import QArith List ZArith.
From VZ Require Import Model.K15_HistKDE.
Import ListNotations.
Definition enc_ext (e : ext) : list Z :=
  match e with NInf => [(-1)%Z; 0%Z; 1%Z] | Fin q => [0%Z; Qnum q; Zpos (Qden q)] | PInf => [1%Z; 0%Z; 1%Z] end.
Definition enc_bins (bs : list bin) : list (list (list Z)) := map (fun b => [enc_ext (fst b); enc_ext (snd b)]) bs.
Definition enc_opt (o : option (list bin)) : list (list (list Z)) := match o with None => [] | Some b => enc_bins b end.
Definition enc_qs (l : list Q) : list (list Z) := map (fun q => [Qnum q; Zpos (Qden q)]) l.
Definition tab (l : list Q) (k : nat) : Q := nth k l (Qmake 0%Z 1%positive).
"""

INF, NINF = "inf", "-inf"


# ------------------------------------------------------------------ exact values
def frac(x):
    """float (or 'inf' strings) -> Fraction / +-math.inf marker"""
    if x == INF or x == math.inf:
        return math.inf
    if x == NINF or x == -math.inf:
        return -math.inf
    return Fraction(float(x))


def from_rat(r):
    if r == INF:
        return math.inf
    if r == NINF:
        return -math.inf
    return Fraction(int(r[0]), int(r[1]))


def coq_q(f):
    return "(Qmake (%d)%%Z %d%%positive)" % (f.numerator, f.denominator)


def coq_ext(v):
    if v == math.inf:
        return "PInf"
    if v == -math.inf:
        return "NInf"
    return "(Fin %s)" % coq_q(v)


def coq_qlist(xs):
    return "[" + "; ".join(coq_q(x) for x in xs) + "]"


def dec_ext(e):
    tag, n, d = e
    return -math.inf if tag == -1 else math.inf if tag == 1 else Fraction(n, d)


# ------------------------------------------------------------------ generators
def nextafter(x, direction):
    return math.nextafter(x, direction)


def gen_values(rng, kind, k, lo, hi):
    if kind == "int":
        return [float(rng.randint(lo, hi)) for _ in range(k)]
    if kind == "dyadic":
        return [rng.randint(lo * 8, hi * 8) / 8.0 for _ in range(k)]
    return [round(rng.randint(lo * 10, hi * 10) * 0.1, 1) for _ in range(k)]  # decimal: not exactly representable


def gen_hist(rng):
    strategy = rng.choice(["uniform", "uniform", "quantile"])
    kind = rng.choice(["int", "dyadic", "decimal"])
    lo = 0 if strategy == "quantile" else rng.choice([-6, -3, 0])     # quantile: non-negative data (property text)
    hi = lo + rng.choice([2, 5, 9, 12])
    for _ in range(50):
        train = [gen_values(rng, kind, rng.randint(1, 7), lo, hi) for _ in range(rng.randint(1, 4))]
        flat = sorted(x for s in train for x in s)
        r = rng.random()
        a0 = a1 = None
        if r < 0.3:
            a0, a1 = NINF, INF
        else:
            m = rng.random()
            a0 = NINF if m < 0.25 else rng.choice([flat[0] - rng.choice([0.5, 1, 10]), flat[0],      # == training min
                                                   flat[len(flat) // 3] if rng.random() < 0.5 else flat[0] - 0.125])
            m = rng.random()
            a1 = INF if m < 0.25 else rng.choice([flat[-1] + rng.choice([0.5, 1, 10]), flat[-1],    # == training max
                                                  flat[-1 - len(flat) // 3] if rng.random() < 0.5 else flat[-1] + 0.125])
        f0 = -math.inf if a0 == NINF else a0
        f1 = math.inf if a1 == INF else a1
        inside = sorted(set(x for x in flat if f0 < x < f1))
        if len(inside) >= 2 and (strategy != "quantile" or sum(x for x in flat if f0 < x < f1) > 0):
            break
    else:
        train, a0, a1, inside = [[1.0, 2.0, 4.0]], NINF, INF, [1.0, 2.0, 4.0]
        f0, f1 = -math.inf, math.inf
    n = rng.choice([1, 2, 3, 3, 4, 5, 7])
    outlier = rng.random() < 0.5
    mn, mx = inside[0], inside[-1]
    edges = [mn + i * ((mx - mn) / n) for i in range(n + 1)] if strategy == "uniform" else list(inside)
    special = [mn, mx] + edges + [x for x in (f0, f1) if math.isfinite(x)]
    pool = list(special)
    for x in special:
        pool += [nextafter(x, math.inf), nextafter(x, -math.inf)]
    pool += [-1e9, 1e9, -1e300, 1e300, 0.0, mn - 1, mx + 1, (mn + mx) / 2]
    test = []
    for _ in range(rng.randint(1, 4)):
        L = rng.choice([0, 1, 2, 3, 5, 8, 10])
        seq = []
        for _ in range(L):
            q = rng.random()
            if q < 0.55:
                seq.append(rng.choice(pool))
            elif q < 0.8:
                seq.append(rng.choice(inside))
            else:
                seq.append(gen_values(rng, kind, 1, lo - 3, hi + 3)[0])
        if seq and rng.random() < 0.4:       # a clear frequency order different from the bin order (D24)
            seq += [seq[-1]] * rng.randint(1, 3)
        test.append(seq)
    types = ["list", "ndarray", "series"] + rng.sample(["series_idx", "tuple", "intlist"], rng.randint(0, 2))
    return {"kind": "hist", "strategy": strategy, "n": n, "a0": a0, "a1": a1, "outlier": outlier,
            "train": train, "train_type": rng.choice(["list", "ndarray"]), "test": test, "types": types}


def gen_kde(rng):
    bw = rng.choice([0.1, 0.5, 1.0, 2.5, 0.3, None])
    nseq = rng.randint(1, 3)
    train = [[rng.randint(-40, 40) / 4.0 for _ in range(rng.randint(2, 6))] for _ in range(nseq)]
    if len(set(x for s in train for x in s)) < 2:
        train[0][0] += 1.0
    test = []
    for _ in range(rng.randint(1, 4)):
        L = rng.choice([1, 2, 3, 5, 8])
        seq = [rng.choice([rng.randint(-40, 40) / 4.0, rng.uniform(-12, 12), 100.0, -37.5]) for _ in range(L)]
        if rng.random() < 0.4:
            seq += [seq[0]] * rng.randint(1, 2)
        test.append(seq)
    perms = []
    for s in test:
        p = list(range(len(s)))
        rng.shuffle(p)
        perms.append(p)
    return {"kind": "kde", "bandwidth": bw, "n": rng.choice([1, 2, 5, 9]), "grid": rng.choice(["uniform", "density"]),
            "train": train, "test": test, "perms": perms}


CORPUS = [
    # D24: a pd.Series whose most frequent bin is not the first one
    {"kind": "hist", "strategy": "uniform", "n": 3, "a0": NINF, "a1": INF, "outlier": False,
     "train": [[1.0, 2.0, 3.0, 4.0, 5.0, 6.0]], "train_type": "list", "test": [[5.0, 5.0, 5.0, 1.0]],
     "types": ["list", "ndarray", "series", "series_idx"]},
    # values on every edge, at the training extremes, equal to the absolute range ends, far outside
    {"kind": "hist", "strategy": "uniform", "n": 3, "a0": 0.0, "a1": 10.0, "outlier": True,
     "train": [[1.0, 2.0, 3.0, 4.0, 5.0, 6.0], [2.5, 3.0, 3.0, 7.0]], "train_type": "ndarray",
     "test": [[5.0, 5.0, 5.0, 1.0, 7.0, 1e9, -1e9, 0.0, 10.0, 3.0, 2.0, 6.5], []], "types": ["list", "ndarray", "series", "tuple"]},
    {"kind": "hist", "strategy": "quantile", "n": 3, "a0": 0.0, "a1": INF, "outlier": False,
     "train": [[1.0, 2.0, 3.0, 4.0, 5.0, 6.0], [2.5, 3.0, 3.0, 7.0]], "train_type": "list",
     "test": [[1.0, 3.0, 6.0, 7.0, 0.0, 1e300]], "types": ["list", "ndarray", "series"]},
]


# ------------------------------------------------------------------ Coq rendering
def coq_hist(c, r):
    """One Coq expression per case: (chain check of the implementation's bins, model transform with those bins,
    model of fit)."""
    bins = [(from_rat(l), from_rat(rr)) for l, rr in r["bins"]]
    cb = "[" + "; ".join("(%s, %s)" % (coq_ext(l), coq_ext(rr)) for l, rr in bins) + "]"
    tests = "[" + "; ".join(coq_qlist([Fraction(x) for x in s]) for s in c["test"]) + "]"
    a0, a1 = coq_ext(frac(c["a0"])), coq_ext(frac(c["a1"]))
    outl = C.coq_bool(c["outlier"])
    if c["strategy"] == "uniform":
        flat = coq_qlist([Fraction(x) for s in c["train"] for x in s])
        fit = "enc_opt (hist_fit_uniform %s %d%%nat %s %s %s)" % (flat, c["n"], a0, a1, outl)
        brk = "(@nil (list Z))"
    else:
        srt = coq_qlist([from_rat(x) for x in r["sorted"]])
        cs = coq_qlist([from_rat(x) for x in r["csum"]])
        thr = coq_qlist([from_rat(x) for x in r["thr"]])
        fb = "(find_breaks (tab %s) %s %s)" % (thr, srt, cs)
        fit = "enc_opt (hist_fit_breaks %s %s %s %s)" % (fb, a0, a1, outl)
        brk = "enc_qs %s" % fb
    return "(chainb %s, hist_transform %s %s, %s, %s)" % (cb, cb, tests, fit, brk)


# ------------------------------------------------------------------ oracles (the property, evaluated directly)
def hist_oracle(c, r):
    """Returns a list of (message, detail) property-level failures for one histogram case."""
    bad = []
    bins = [(from_rat(l), from_rat(rr)) for l, rr in r["bins"]]
    a0, a1 = frac(c["a0"]), frac(c["a1"])
    if r["closed"] != "right":
        bad.append(("bin_intervals_ not right-closed", r["closed"]))
    if not bins:
        return [("no bins", None)]
    for j, (l, rr) in enumerate(bins):
        if not l < rr:
            bad.append(("bin %d is empty or reversed" % j, [str(l), str(rr)]))
        if j + 1 < len(bins) and bins[j + 1][0] != rr:
            bad.append(("gap or overlap between bins %d and %d" % (j, j + 1), [str(rr), str(bins[j + 1][0])]))
    if bins[0][0] != a0 or bins[-1][1] != a1:
        bad.append(("bins do not span the absolute range", [str(bins[0][0]), str(bins[-1][1]), str(a0), str(a1)]))
    if c["strategy"] == "uniform" and len(bins) != c["n"] + (2 if c["outlier"] else 0):
        bad.append(("number of bins", len(bins)))
    if c["outlier"]:
        fmin, fmax = from_rat(r["fmin"]), from_rat(r["fmax"])
        if bins[0] != (a0, fmin) or (c["strategy"] == "uniform" and bins[-1] != (fmax, a1)):
            bad.append(("outlier bins are not (a0, train min] and (train max, a1]", [str(bins[0]), str(bins[-1])]))
    if not r["fit_returns_self"]:
        bad.append(("fit did not return self", None))
    for t, rows in r["rows"].items():
        if len(rows) != len(c["test"]):
            bad.append(("%s: %d rows for %d sequences" % (t, len(rows), len(c["test"])), None))
            continue
        for i, (seq, row) in enumerate(zip(c["test"], rows)):
            xs = [Fraction(x) for x in seq]
            if len(row) != len(bins) or any(v < 0 or v != int(v) for v in row):
                bad.append(("%s row %d: not a vector of naturals of length #bins: %s" % (t, i, row), None))
                continue
            want_total = sum(1 for x in xs if a0 < x <= a1)
            if sum(row) != want_total:
                bad.append(("%s row %d: total %s but %d values lie in (a0, a1]" % (t, i, sum(row), want_total),
                            {"seq": seq, "row": row}))
            want = [sum(1 for x in xs if l < x <= rr) for l, rr in bins]
            if [int(v) for v in row] != want:
                bad.append(("%s row %d: cells %s but the values per bin are %s" % (t, i, row, want), {"seq": seq}))
    t0 = c["types"][0]
    if r["rows_single"] != r["rows"][t0]:
        bad.append(("transform of all sequences differs from one call per sequence", None))
    return bad


def gauss_mean(h, grid, xs):
    return [sum(math.exp(-0.5 * ((g - x) / h) ** 2) for x in xs) / (len(xs) * h * math.sqrt(2 * math.pi)) for g in grid]


def close(a, b, rel, ab):
    return abs(a - b) <= rel * max(abs(a), abs(b)) + ab


def kde_oracle(c, r):
    bad = []
    h, grid = r["bandwidth"], r["grid"]
    if not (h > 0 and math.isfinite(h)):
        return [("bandwidth not positive", h)]
    if len(grid) != c["n"]:
        bad.append(("grid size", len(grid)))
    for i, (seq, row, prow) in enumerate(zip(c["test"], r["rows"], r["perm_rows"])):
        if len(row) != len(grid) or any((not math.isfinite(v)) or v < 0 for v in row):
            bad.append(("row %d has negative / non-finite entries or wrong length: %s" % (i, row), None))
            continue
        if any(not close(a, b, 1e-12, 1e-300) for a, b in zip(row, prow)):
            bad.append(("row %d changes under a permutation of the sample: %s vs %s" % (i, row, prow),
                        {"seq": seq, "perm": c["perms"][i]}))
        want = gauss_mean(h, grid, seq)
        if any(not close(a, b, 1e-9, 1e-290) for a, b in zip(row, want)):
            bad.append(("row %d is not the mean of Gaussians of bandwidth %r: %s vs %s" % (i, h, row, want), {"seq": seq}))
    return bad


def bins_close(model, impl, exact):
    if len(model) != len(impl):
        return False
    for (ml, mr), (il, ir) in zip(model, impl):
        for a, b in ((ml, il), (mr, ir)):
            if a == b:
                continue
            if exact or not (isinstance(a, Fraction) and isinstance(b, Fraction)):
                return False
            if abs(a - b) > Fraction(1, 10 ** 12) * max(abs(a), abs(b), 1):
                return False
    return True


# ------------------------------------------------------------------ run
def run(ctx, replay=None):
    C.run_gate(ctx)
    n_h, n_k = (260, 60) if ctx.quick else (3000, 500)
    if replay:
        cases = [replay["case"]]
    else:
        cases = CORPUS + [gen_hist(ctx.rng) for _ in range(n_h)] + [gen_kde(ctx.rng) for _ in range(n_k)]
    ctx.coverage["rule"] = ("random (strategy, n_components, absolute_range incl. +-inf and == training min/max, outlier bins, "
                            "training collection, test sequences with values on edges / extremes / one ulp beside them / far "
                            "outside, input type) histogram cases + KDE cases (bandwidth given or estimated, grid strategy, "
                            "permuted samples); non-trivial = at least one test value; distinct by case hash")
    ctx.assumptions += ["bin edges / values are binary64 floats read as exact rationals (float.as_integer_ratio); no NaN / inf values",
                        "pd.interval_range's linspace, np.cumsum and bin_range*k of find_bin_boundaries are floating point: "
                        "the uniform edges are compared with the exact model at 1e-12 relative, the quantile float data are passed "
                        "to the model as data; the chain hypothesis is checked exactly on the implementation's edges",
                        "KernelDensity is an oracle: rows compared with the mean-of-Gaussians formula at 1e-9 relative and "
                        "under permutation at 1e-12 relative; the KDE model itself is proved over R and not executed",
                        "quantile strategy only on non-negative data with a positive total (property text)",
                        "training data has at least two distinct values strictly inside the absolute range"]
    impl, info = C.run_impl("c20", cases)
    if impl is None or len(impl) != len(cases):
        done = len(impl) if impl else 0
        ctx.report("implementation child died (rc=%s) on case %d: %s" % (info["rc"], done, info["tail"][-400:]),
                   {"stage": "impl-crash", "case": cases[done] if done < len(cases) else None}, found_input=True)
        impl = (impl or []) + [{"err": "crash"}] * (len(cases) - done)
    hist_idx = [i for i, (c, r) in enumerate(zip(cases, impl)) if c["kind"] == "hist" and "ok" in r]
    model = C.coq_eval_sharded("C20", HEADER, [coq_hist(cases[i], impl[i]["ok"]) for i in hist_idx], shard=60)
    model_of = dict(zip(hist_idx, model))
    corr_bad, n_corr, n_oracle = [], 0, 0
    for i, (c, r) in enumerate(zip(cases, impl)):
        nval = sum(len(s) for s in c["test"])
        if c["kind"] == "hist":
            rk = "default" if (c["a0"], c["a1"]) == (NINF, INF) else "finite" if NINF != c["a0"] and INF != c["a1"] else "half"
            kind = "hist:%s:%s:%s" % (c["strategy"], rk, "outlier" if c["outlier"] else "expand")
        else:
            kind = "kde:%s:%s" % (c["grid"], "bw-estimated" if c["bandwidth"] is None else "bw-given")
        ctx.count_case(c, nontrivial=nval > 0, kind=kind)
        if "ok" not in r:
            if r.get("err") != "crash":
                ctx.report("valid input raised %s: %s" % (r.get("err"), r.get("msg")),
                           {"stage": "oracle", "case": c, "actual": r}, found_input=True)
            continue
        r = r["ok"]
        n_oracle += 1
        bad = hist_oracle(c, r) if c["kind"] == "hist" else kde_oracle(c, r)
        if bad:
            ctx.report("%s: %s" % ("HistogramVectorizer" if c["kind"] == "hist" else "KDEVectorizer", bad[0][0]),
                       {"stage": "oracle", "case": c, "failures": bad[:5], "actual": r}, found_input=True)
            continue
        if c["kind"] != "hist":
            continue
        n_corr += 1
        chain_ok, mrows, mfit, mbreaks = model_of[i]
        impl_bins = [(from_rat(l), from_rat(rr)) for l, rr in r["bins"]]
        if chain_ok is not True:
            ctx.report("the fitted bin_intervals_ fail the chain hypothesis of C20_partition / C20_conservation (chainb = false)",
                       {"stage": "oracle", "case": c, "bins": r["bins"]}, found_input=True)
            continue
        for t, rows in r["rows"].items():
            if [[int(v) for v in row] for row in rows] != mrows:
                corr_bad.append((c, "rows[%s]" % t, rows, mrows))
        mb = [(dec_ext(l), dec_ext(rr)) for l, rr in mfit]
        if not bins_close(mb, impl_bins, exact=(c["strategy"] == "quantile")):
            corr_bad.append((c, "fit", r["bins"], [[str(l), str(rr)] for l, rr in mb]))
        if c["strategy"] == "quantile":
            if [Fraction(n, d) for n, d in mbreaks] != [from_rat(x) for x in r["breaks"]]:
                corr_bad.append((c, "find_bin_boundaries", r["breaks"], mbreaks))
    ctx.coverage["correspondence"] = {"cases": n_corr, "disagreements": len(corr_bad),
                                      "model": "Model/K15_HistKDE.v via vm_compute (chainb on the implementation's bins, "
                                               "hist_transform, hist_fit_uniform / find_breaks + hist_fit_breaks)"}
    ctx.coverage["oracle"] = {"cases": n_oracle}
    ctx.coverage["traces_validated_against_impl"] = n_corr
    if corr_bad and not any(v["found_input"] for v in ctx.violations):
        c, what, got, want = corr_bad[0]
        ctx.report("model K15_HistKDE and implementation disagree on %s (no property-level failure found): impl %s, model %s"
                   % (what, str(got)[:300], str(want)[:300]),
                   {"stage": "correspondence", "correspondence": "Model/K15_HistKDE.v <-> _vectorizers.py HistogramVectorizer",
                    "case": c, "model": want, "actual": got}, found_input=False)
    C.gate_violation(ctx)
    return ctx.finish("proof")
