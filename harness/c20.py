"""C20 — histogram rows conserve the events; KDE rows depend only on the value multiset.
Proof gate (Properties/C20.v) + correspondence of Model/K15_HistKDE.v with vectorizers/_vectorizers.py
(HistogramVectorizer: fitted bins read as exact rationals, CHECKED for the chain hypothesis inside Coq, rows of
`transform` for list / ndarray / Series inputs compared with the model's cut) + property oracle (the statement of
C20 evaluated directly on the implementation's bins and rows; KDE rows: >= 0, permutation invariant, equal to the
mean of kernels) + correspondence of Model/K15_KDEexec.v (Properties/C20_kde.v) with vectorizers/kde_vectorizer.py:
the KDE row model is EXECUTED in Coq over binary64 (Model/K15_KDE_Float.v, exp = the series of Model/K13_Float.v) on the
fitted evaluation grid / bandwidth read from the estimator and compared with the rows of `transform` for every kernel;
the model of the grid chosen by fit (exact rationals) is compared with evaluation_grid_, the model of the bandwidth
candidates (binary64) with the array fit hands to the jack-knife search, the selection with bandwidth_."""
import math
from fractions import Fraction

from . import common as C
from .c18 import sf2float, fcoq, flist

HEADER = """From Coq Require Import QArith List ZArith.
From VZ Require Import Model.K15_HistKDE.
Import ListNotations.
Definition enc_ext (e : ext) : list Z :=
  match e with NInf => [(-1)%Z; 0%Z; 1%Z] | Fin q => [0%Z; Qnum q; Zpos (Qden q)] | PInf => [1%Z; 0%Z; 1%Z] end.
Definition enc_bins (bs : list bin) : list (list (list Z)) := map (fun b => [enc_ext (fst b); enc_ext (snd b)]) bs.
Definition enc_opt (o : option (list bin)) : list (list (list Z)) := match o with None => [] | Some b => enc_bins b end.
Definition enc_qs (l : list Q) : list (list Z) := map (fun q => [Qnum q; Zpos (Qden q)]) l.
Definition tab (l : list Q) (k : nat) : Q := nth k l (Qmake 0%Z 1%positive).
Fixpoint zrange (fuel : nat) (i : Z) : list Z := match fuel with O => [] | S f => i :: zrange f (i + 1)%Z end.
Definition gen_seq_q (n p q : Z) (lo scale : Q) (m : Z) (drift : Q) : list Q :=
  map (fun i => lo + inject_Z ((i * p) mod q) * scale + inject_Z (i / m) * drift) (zrange (Z.to_nat n) 0%Z).
"""

KHEADER = """From Coq Require Import QArith ZArith List PrimFloat.
From VZ Require Import Model.K12_Float Model.K13_Float Model.K15_HistKDE Model.K15_KDEexec Model.K15_KDE_Float.
Import ListNotations.
Open Scope float_scope.
Definition enc_qs (l : list Q) : list (list Z) := map (fun q => [Qnum q; Zpos (Qden q)]) l.
Definition unopt (o : option (list SpecFloat.spec_float)) := match o with Some l => l | None => [] end.
Fixpoint zrange (fuel : nat) (i : Z) : list Z := match fuel with O => [] | S f => i :: zrange f (i + 1)%Z end.
Definition gen_seq_f (n p q : Z) (lo scale : float) (m : Z) (drift : float) : list float :=
  map (fun i => lo + f_of_Z ((i * p) mod q) * scale + f_of_Z (i / m) * drift) (zrange (Z.to_nat n) 0%Z).
"""
KERNELS = ["gaussian", "tophat", "epanechnikov", "exponential", "linear", "cosine"]
KNORM = {"gaussian": 1 / math.sqrt(2 * math.pi), "tophat": 0.5, "epanechnikov": 0.75, "exponential": 0.5, "linear": 1.0,
         "cosine": math.pi / 4}
COMPACT = {"tophat", "epanechnikov", "linear", "cosine"}
# tolerances (stated in evidence)
KTOL = {"row_rel": 1e-9, "row_abs": 1e-12, "perm_rel": 1e-10, "perm_abs": 1e-14, "grid_rel": 1e-12, "cands_rel": 1e-11,
        "transcendental_rel": 1e-14}

INF, NINF = "inf", "-inf"


# ------------------------------------------------------------------ long sequences, kept compact in the case
def expand_seq(s):
    """A sequence is a list of numbers, or {"gen": [n, p, q, lo, scale, m, drift]} for a long one:
    x_i = lo + ((i * p) % q) * scale + (i // m) * drift  (every term is a dyadic number: exact in binary64 and in Q).
    The drift makes consecutive stretches of the sequence differ, so that processing it in pieces shows."""
    if isinstance(s, dict):
        n, p, q, lo, scale, m, drift = s["gen"]
        return [lo + ((i * p) % q) * scale + (i // m) * drift for i in range(n)]
    return s


_TESTS = {}


def tests_of(c):
    k = id(c)
    if k not in _TESTS:
        _TESTS[k] = (c, [expand_seq(s) for s in c["test"]])
    return _TESTS[k][1]


def gen_spec(rng, n):
    q = rng.choice([101, 127, 61, 251])
    p = rng.choice([37, 29, 53, 17])
    return {"gen": [n, p, q, float(rng.choice([-6, -3, 0, 1])), rng.choice([0.125, 0.25, 0.0625]),
                    rng.choice([100, 512, 700, 333]), rng.choice([0.5, 0.25, 1.0])]}


# block sizes a piecewise implementation might use, plus one: lengths that are NOT a multiple of them
LONG_LENGTHS = [1025, 1500, 2500, 5000]
MORE_LENGTHS = [65, 129, 257, 513, 2049, 4097, 3000, 1023, 1024, 2048]


def coq_seq_q(s):
    if isinstance(s, dict):
        n, p, q, lo, scale, m, drift = s["gen"]
        return "(gen_seq_q %d%%Z %d%%Z %d%%Z %s %s %d%%Z %s)" % (n, p, q, coq_q(Fraction(lo)), coq_q(Fraction(scale)), m, coq_q(Fraction(drift)))
    return coq_qlist([Fraction(x) for x in s])


def coq_seq_f(s):
    if isinstance(s, dict):
        n, p, q, lo, scale, m, drift = s["gen"]
        return "(gen_seq_f %d%%Z %d%%Z %d%%Z %s %s %d%%Z %s)" % (n, p, q, hx(lo), hx(scale), m, hx(drift))
    return flist([float(x).hex() for x in s])


# ------------------------------------------------------------------ exact values
def frac(x):
    """float (or 'inf' strings) -> Fraction / +-math.inf marker"""
    if x == INF or x == math.inf:
        return math.inf
    if x == NINF or x == -math.inf:
        return -math.inf
    return Fraction(float(x))


def from_rat(r):
    if r == INF:
        return math.inf
    if r == NINF:
        return -math.inf
    return Fraction(int(r[0]), int(r[1]))


def coq_q(f):
    return "(Qmake (%d)%%Z %d%%positive)" % (f.numerator, f.denominator)


def coq_ext(v):
    if v == math.inf:
        return "PInf"
    if v == -math.inf:
        return "NInf"
    return "(Fin %s)" % coq_q(v)


def coq_qlist(xs):
    return "[" + "; ".join(coq_q(x) for x in xs) + "]"


def dec_ext(e):
    tag, n, d = e
    return -math.inf if tag == -1 else math.inf if tag == 1 else Fraction(n, d)


# ------------------------------------------------------------------ generators
def nextafter(x, direction):
    return math.nextafter(x, direction)


def gen_values(rng, kind, k, lo, hi):
    if kind == "int":
        return [float(rng.randint(lo, hi)) for _ in range(k)]
    if kind == "dyadic":
        return [rng.randint(lo * 8, hi * 8) / 8.0 for _ in range(k)]
    return [round(rng.randint(lo * 10, hi * 10) * 0.1, 1) for _ in range(k)]  # decimal: not exactly representable


def gen_hist(rng):
    strategy = rng.choice(["uniform", "uniform", "quantile"])
    kind = rng.choice(["int", "dyadic", "decimal"])
    lo = 0 if strategy == "quantile" else rng.choice([-6, -3, 0])     # quantile: non-negative data (property text)
    hi = lo + rng.choice([2, 5, 9, 12])
    for _ in range(50):
        train = [gen_values(rng, kind, rng.randint(1, 7), lo, hi) for _ in range(rng.randint(1, 4))]
        flat = sorted(x for s in train for x in s)
        r = rng.random()
        a0 = a1 = None
        if r < 0.3:
            a0, a1 = NINF, INF
        else:
            m = rng.random()
            a0 = NINF if m < 0.25 else rng.choice([flat[0] - rng.choice([0.5, 1, 10]), flat[0],      # == training min
                                                   flat[len(flat) // 3] if rng.random() < 0.5 else flat[0] - 0.125])
            m = rng.random()
            a1 = INF if m < 0.25 else rng.choice([flat[-1] + rng.choice([0.5, 1, 10]), flat[-1],    # == training max
                                                  flat[-1 - len(flat) // 3] if rng.random() < 0.5 else flat[-1] + 0.125])
        f0 = -math.inf if a0 == NINF else a0
        f1 = math.inf if a1 == INF else a1
        inside = sorted(set(x for x in flat if f0 < x < f1))
        if len(inside) >= 2 and (strategy != "quantile" or sum(x for x in flat if f0 < x < f1) > 0):
            break
    else:
        train, a0, a1, inside = [[1.0, 2.0, 4.0]], NINF, INF, [1.0, 2.0, 4.0]
        f0, f1 = -math.inf, math.inf
    n = rng.choice([1, 2, 3, 3, 4, 5, 7])
    outlier = rng.random() < 0.5
    mn, mx = inside[0], inside[-1]
    edges = [mn + i * ((mx - mn) / n) for i in range(n + 1)] if strategy == "uniform" else list(inside)
    special = [mn, mx] + edges + [x for x in (f0, f1) if math.isfinite(x)]
    pool = list(special)
    for x in special:
        pool += [nextafter(x, math.inf), nextafter(x, -math.inf)]
    pool += [-1e9, 1e9, -1e300, 1e300, 0.0, mn - 1, mx + 1, (mn + mx) / 2]
    test = []
    for _ in range(rng.randint(1, 4)):
        L = rng.choice([0, 1, 2, 3, 5, 8, 10])
        seq = []
        for _ in range(L):
            q = rng.random()
            if q < 0.55:
                seq.append(rng.choice(pool))
            elif q < 0.8:
                seq.append(rng.choice(inside))
            else:
                seq.append(gen_values(rng, kind, 1, lo - 3, hi + 3)[0])
        if seq and rng.random() < 0.4:       # a clear frequency order different from the bin order (D24)
            seq += [seq[-1]] * rng.randint(1, 3)
        test.append(seq)
    types = ["list", "ndarray", "series"] + rng.sample(["series_idx", "tuple", "intlist"], rng.randint(0, 2))
    return {"kind": "hist", "strategy": strategy, "n": n, "a0": a0, "a1": a1, "outlier": outlier,
            "train": train, "train_type": rng.choice(["list", "ndarray"]), "test": test, "types": types}


def gen_kde(rng):
    kernel = rng.choice(["gaussian", "gaussian"] + KERNELS)
    bw = rng.choice([0.5, 1.0, 2.5, 0.25, 0.1, 0.3, 0.5, None])
    n = rng.choice([1, 2, 3, 5, 9, 4])
    strategy = rng.choice(["uniform", "density"])
    nseq = rng.randint(1, 3)
    min_len = 2 if bw is None else 1      # the jack-knife search leaves one value out: it needs >= 2 values per sequence
    ints = rng.random() < 0.15
    val = (lambda: float(rng.randint(-10, 10))) if ints else (lambda: rng.randint(-40, 40) / 4.0)
    train = [[val() for _ in range(rng.randint(min_len, 6))] for _ in range(nseq)]
    if len(set(x for s in train for x in s)) < 2:
        train[0] = train[0] + [train[0][0] + 1.0]
    flat = [x for s in train for x in s]
    lo, hi = min(flat), max(flat)
    # the uniform grid, exact when n - 1 is a power of two (dyadic training values): used to put values AT distance h
    ugrid = [lo + i * ((hi - lo) / (n - 1)) for i in range(n)] if n > 1 else [lo]
    h0 = bw if bw is not None else 0.5
    edge = [g + sgn * h0 for g in ugrid for sgn in (-1, 1)]
    edge += [math.nextafter(e, math.inf) for e in edge[:2]] + [math.nextafter(e, -math.inf) for e in edge[:2]]
    far = [100.0, -37.5, 1e6, -1e6, hi + 40 * h0 + 1.0, lo - 40 * h0 - 1.0]
    test = []
    for _ in range(rng.randint(1, 4)):
        L = rng.choice([1, 1, 2, 3, 5, 8])
        seq = []
        for _ in range(L):
            q = rng.random()
            seq.append(val() if q < 0.35 else rng.uniform(-12, 12) if q < 0.55 and not ints else rng.choice(edge) if q < 0.75 and not ints
                       else rng.choice(flat) if q < 0.85 else rng.choice(far))
        if rng.random() < 0.4:
            seq += [seq[0]] * rng.randint(1, 2)               # duplicated values
        if ints:
            seq = [float(round(x)) for x in seq]
        test.append(seq)
    if rng.random() < 0.15:
        test.append([rng.choice(far)] * rng.randint(1, 2))       # everything far outside the grid: the row underflows to 0
    if rng.random() < 0.12:
        # longer than KernelDensity's leaf_size (40): the tree has inner nodes, whose bounds must not be used to approximate
        c1, c2 = rng.uniform(-10, 10), rng.uniform(-10, 10)
        test.append([(round(rng.gauss(c1, 1.5)) if ints else rng.gauss(c1, 0.7) if rng.random() < 0.6 else rng.gauss(c2, 2.0)) * 1.0
                     for _ in range(rng.randint(60, 130))])
    perms = []
    for s in test:
        p = list(range(len(s)))
        rng.shuffle(p)
        perms.append(p)
    types = ["ndarray", "list"] + rng.sample(["tuple", "f32", "int"], rng.randint(0, 1))
    allv = [x for s in test for x in s]
    if "int" in types and any(x != int(x) for x in allv):
        types.remove("int")
    import struct
    if "f32" in types and any(struct.unpack("f", struct.pack("f", x))[0] != x for x in allv):
        types.remove("f32")
    return {"kind": "kde", "kernel": kernel, "bandwidth": bw, "n": n, "grid": strategy, "train": train,
            "train_type": rng.choice(["ndarray", "ndarray", "list"]), "test": test, "perms": perms, "types": types}


def gen_kde_long(rng, n):
    """A KDE case whose first test sequence has n values (compact spec), transformed together with a short one."""
    c = gen_kde(rng)
    short = [x for x in c["test"][0][:5]]
    c["test"] = [gen_spec(rng, n), short]
    p = list(range(len(short)))
    rng.shuffle(p)
    c["perms"] = [{"seed": rng.randrange(10 ** 6)}, p]
    c["types"] = ["ndarray", "list"]
    return c


def gen_hist_long(rng, n):
    c = gen_hist(rng)
    c["test"] = [gen_spec(rng, n)] + c["test"][:1]
    c["types"] = ["list", "ndarray", "series"]
    return c


CORPUS = [
    # D24: a pd.Series whose most frequent bin is not the first one
    {"kind": "hist", "strategy": "uniform", "n": 3, "a0": NINF, "a1": INF, "outlier": False,
     "train": [[1.0, 2.0, 3.0, 4.0, 5.0, 6.0]], "train_type": "list", "test": [[5.0, 5.0, 5.0, 1.0]],
     "types": ["list", "ndarray", "series", "series_idx"]},
    # values on every edge, at the training extremes, equal to the absolute range ends, far outside
    {"kind": "hist", "strategy": "uniform", "n": 3, "a0": 0.0, "a1": 10.0, "outlier": True,
     "train": [[1.0, 2.0, 3.0, 4.0, 5.0, 6.0], [2.5, 3.0, 3.0, 7.0]], "train_type": "ndarray",
     "test": [[5.0, 5.0, 5.0, 1.0, 7.0, 1e9, -1e9, 0.0, 10.0, 3.0, 2.0, 6.5], []], "types": ["list", "ndarray", "series", "tuple"]},
    {"kind": "hist", "strategy": "quantile", "n": 3, "a0": 0.0, "a1": INF, "outlier": False,
     "train": [[1.0, 2.0, 3.0, 4.0, 5.0, 6.0], [2.5, 3.0, 3.0, 7.0]], "train_type": "list",
     "test": [[1.0, 3.0, 6.0, 7.0, 0.0, 1e300]], "types": ["list", "ndarray", "series"]},
    # KDE: values exactly at distance h of a grid point (finite-support kernels vanish there), far outside, one value
    {"kind": "kde", "kernel": "tophat", "bandwidth": 0.5, "n": 5, "grid": "uniform", "train": [[1.0, 3.0], [2.0]],
     "train_type": "list", "test": [[1.5, 2.0, 2.5], [1.0], [100.0, 2.25, -37.5, 2.0]], "perms": [[2, 0, 1], [0], [1, 0, 3, 2]],
     "types": ["ndarray", "list", "tuple"]},
    {"kind": "kde", "kernel": "gaussian", "bandwidth": None, "n": 4, "grid": "density",
     "train": [[1.0, 2.0, 4.0, 4.0], [1.5, 3.0]], "train_type": "ndarray",
     "test": [[1.0, 2.0, 2.0], [1e6, -1e6], [3.0, 40.0, 1.0]], "perms": [[1, 2, 0], [1, 0], [0, 1, 2]], "types": ["ndarray", "list"]},
    {"kind": "kde", "kernel": "cosine", "bandwidth": 2.5, "n": 3, "grid": "density", "train": [[0.0, 1.0, 5.0, 6.0, 6.0]],
     "train_type": "ndarray", "test": [[0.0, 2.5, 6.0, 8.5]], "perms": [[3, 2, 1, 0]], "types": ["ndarray", "list"]},
]


# ------------------------------------------------------------------ Coq rendering
def coq_hist(c, r):
    """One Coq expression per case: (chain check of the implementation's bins, model transform with those bins,
    model of fit)."""
    bins = [(from_rat(l), from_rat(rr)) for l, rr in r["bins"]]
    cb = "[" + "; ".join("(%s, %s)" % (coq_ext(l), coq_ext(rr)) for l, rr in bins) + "]"
    tests = "[" + "; ".join(coq_seq_q(s) for s in c["test"]) + "]"
    a0, a1 = coq_ext(frac(c["a0"])), coq_ext(frac(c["a1"]))
    outl = C.coq_bool(c["outlier"])
    if c["strategy"] == "uniform":
        flat = coq_qlist([Fraction(x) for s in c["train"] for x in s])
        fit = "enc_opt (hist_fit_uniform %s %d%%nat %s %s %s)" % (flat, c["n"], a0, a1, outl)
        brk = "(@nil (list Z))"
    else:
        srt = coq_qlist([from_rat(x) for x in r["sorted"]])
        cs = coq_qlist([from_rat(x) for x in r["csum"]])
        thr = coq_qlist([from_rat(x) for x in r["thr"]])
        fb = "(find_breaks (tab %s) %s %s)" % (thr, srt, cs)
        fit = "enc_opt (hist_fit_breaks %s %s %s %s)" % (fb, a0, a1, outl)
        brk = "enc_qs %s" % fb
    return "(chainb %s, hist_transform %s %s, %s, %s)" % (cb, cb, tests, fit, brk)


# ------------------------------------------------------------------ oracles (the property, evaluated directly)
def hist_oracle(c, r):
    """Returns a list of (message, detail) property-level failures for one histogram case."""
    bad = []
    bins = [(from_rat(l), from_rat(rr)) for l, rr in r["bins"]]
    a0, a1 = frac(c["a0"]), frac(c["a1"])
    if r["closed"] != "right":
        bad.append(("bin_intervals_ not right-closed", r["closed"]))
    if not bins:
        return [("no bins", None)]
    for j, (l, rr) in enumerate(bins):
        if not l < rr:
            bad.append(("bin %d is empty or reversed" % j, [str(l), str(rr)]))
        if j + 1 < len(bins) and bins[j + 1][0] != rr:
            bad.append(("gap or overlap between bins %d and %d" % (j, j + 1), [str(rr), str(bins[j + 1][0])]))
    if bins[0][0] != a0 or bins[-1][1] != a1:
        bad.append(("bins do not span the absolute range", [str(bins[0][0]), str(bins[-1][1]), str(a0), str(a1)]))
    if c["strategy"] == "uniform" and len(bins) != c["n"] + (2 if c["outlier"] else 0):
        bad.append(("number of bins", len(bins)))
    if c["outlier"]:
        fmin, fmax = from_rat(r["fmin"]), from_rat(r["fmax"])
        if bins[0] != (a0, fmin) or (c["strategy"] == "uniform" and bins[-1] != (fmax, a1)):
            bad.append(("outlier bins are not (a0, train min] and (train max, a1]", [str(bins[0]), str(bins[-1])]))
    if not r["fit_returns_self"]:
        bad.append(("fit did not return self", None))
    for t, rows in r["rows"].items():
        if len(rows) != len(tests_of(c)):
            bad.append(("%s: %d rows for %d sequences" % (t, len(rows), len(tests_of(c))), None))
            continue
        for i, (seq, row) in enumerate(zip(tests_of(c), rows)):
            xs = [Fraction(x) for x in seq]
            if len(row) != len(bins) or any(v < 0 or v != int(v) for v in row):
                bad.append(("%s row %d: not a vector of naturals of length #bins: %s" % (t, i, row), None))
                continue
            want_total = sum(1 for x in xs if a0 < x <= a1)
            if sum(row) != want_total:
                bad.append(("%s row %d: total %s but %d values lie in (a0, a1]" % (t, i, sum(row), want_total),
                            {"seq": seq, "row": row}))
            want = [sum(1 for x in xs if l < x <= rr) for l, rr in bins]
            if [int(v) for v in row] != want:
                bad.append(("%s row %d: cells %s but the values per bin are %s" % (t, i, row, want), {"seq": seq}))
    t0 = c["types"][0]
    if r["rows_single"] != r["rows"][t0]:
        bad.append(("transform of all sequences differs from one call per sequence", None))
    return bad


def kernel_value(kernel, d, h):
    """The kernels of sklearn's KernelDensity as functions of the distance d >= 0 (written from their definition)."""
    u = d / h
    if kernel == "gaussian":
        return math.exp(-0.5 * (u * u))
    if kernel == "exponential":
        return math.exp(-u)
    if not d < h:
        return 0.0
    return {"tophat": 1.0, "epanechnikov": 1 - u * u, "linear": 1 - u, "cosine": math.cos(0.5 * math.pi * u)}[kernel]


def kernel_mean(kernel, h, grid, xs):
    return [math.fsum(kernel_value(kernel, abs(g - x), h) for x in xs) * KNORM[kernel] / (len(xs) * h) for g in grid]


def close(a, b, rel, ab):
    return abs(a - b) <= rel * max(abs(a), abs(b)) + ab


def rows_close(A, B, rel, ab):
    return len(A) == len(B) and all(len(a) == len(b) and all(close(x, y, rel, ab) for x, y in zip(a, b)) for a, b in zip(A, B))


def near_support_edge(c, h, grid):
    """tophat is discontinuous at distance h: a value within a few ulps of that distance (but not exactly on it) may
    fall on either side depending on how the distance is rounded; such rows are not compared for that kernel."""
    if c.get("kernel") != "tophat":
        return set()
    skip = set()
    for i, seq in enumerate(tests_of(c)):
        if len(seq) > 200:
            continue
        for x in seq:
            for g in grid:
                d = abs(g - x)
                if d != h and abs(d - h) <= 8 * math.ulp(max(abs(g), abs(x), h)):
                    skip.add(i)
    return skip


def kde_oracle(c, r):
    bad = []
    h, grid = r["bandwidth"], r["grid"]
    kernel = c.get("kernel", "gaussian")
    if not (h > 0 and math.isfinite(h)):
        return [("bandwidth not positive", h)]
    if not r["fit_returns_self"]:
        bad.append(("fit did not return self", None))
    if len(grid) != c["n"]:
        bad.append(("grid size", len(grid)))
    flat = [x for s in c["train"] for x in s]
    if any(not (min(flat) <= g <= max(flat)) for g in grid) or any(a > b for a, b in zip(grid, grid[1:])):
        bad.append(("evaluation grid not increasing inside [min, max] of the training values: %s" % grid, None))
    skip = near_support_edge(c, h, grid)
    if len(r["rows"]) != len(tests_of(c)):
        return bad + [("%d rows for %d sequences" % (len(r["rows"]), len(tests_of(c))), None)]
    for i, (seq, row, prow, drow, rrow) in enumerate(zip(tests_of(c), r["rows"], r["perm_rows"], r["dup_rows"], r["rev_rows"])):
        show = seq if len(seq) <= 40 else {"length": len(seq), "spec": c["test"][i]}
        if len(row) != len(grid) or any((not math.isfinite(v)) or v < 0 for v in row):
            bad.append(("row %d has negative / non-finite entries or wrong length: %s" % (i, row), None))
            continue
        if i in skip:
            continue
        if any(not close(a, b, KTOL["perm_rel"], KTOL["perm_abs"]) for a, b in zip(row, prow)):
            bad.append(("row %d (%d values) changes under a permutation of the sample: %s vs %s" % (i, len(seq), row, prow),
                        {"seq": show, "perm": c["perms"][i]}))
        if any(not close(a, b, KTOL["perm_rel"], KTOL["perm_abs"]) for a, b in zip(row, rrow)):
            bad.append(("row %d (%d values) changes when the sample is reversed: %s vs %s" % (i, len(seq), row, rrow), {"seq": show}))
        if any(not close(a, b, KTOL["perm_rel"], KTOL["perm_abs"]) for a, b in zip(row, drow)):
            bad.append(("row %d changes when every value of the sample is repeated twice (same empirical distribution): %s vs %s"
                        % (i, row, drow), {"seq": show}))
        want = kernel_mean(kernel, h, grid, seq)
        if any(not close(a, b, KTOL["row_rel"], KTOL["row_abs"]) for a, b in zip(row, want)):
            bad.append(("row %d (%d values) is not the mean of %s kernels of bandwidth %r on the fitted grid: %s vs %s"
                        % (i, len(seq), kernel, h, row, want), {"seq": show}))
    for t, rows in r["rows_by_type"].items():
        if len(rows) != len(r["rows"]) or any(i not in skip and not rows_close([a], [b], KTOL["perm_rel"], KTOL["perm_abs"])
                                               for i, (a, b) in enumerate(zip(rows, r["rows"]))):
            bad.append(("rows for %s sequences differ from the rows for ndarray sequences: %s vs %s" % (t, rows, r["rows"]), None))
    if any(i not in skip and not rows_close([a], [b], KTOL["perm_rel"], KTOL["perm_abs"])
           for i, (a, b) in enumerate(zip(r["rows_single"], r["rows"]))):
        bad.append(("transform of all sequences differs from one call per sequence", None))
    return bad


# ------------------------------------------------------------------ KDE: the model executed in Coq
def hx(v):
    return fcoq(float(v).hex())


def coq_kde(c, r):
    """(rows of the binary64 model on the implementation's grid / bandwidth, model of the fitted grid (exact rationals),
    model of the bandwidth candidates, model of the selection among the implementation's candidates)"""
    kern = c.get("kernel", "gaussian").capitalize()
    tests = "[" + "; ".join(coq_seq_f(s) for s in c["test"]) + "]"
    rows = "f_kde_transform %s %s %s %s" % (kern, hx(r["bandwidth"]), flist([float(g).hex() for g in r["grid"]]), tests)
    flat = [x for s in c["train"] for x in s]
    grid = "enc_qs (kde_fit_grid %s %s %d%%nat)" % (C.coq_bool(c["grid"] == "density"), coq_qlist([Fraction(x) for x in flat]), c["n"])
    if c["bandwidth"] is None:
        lens = "[" + "; ".join("%d%%nat" % len(s) for s in c["train"]) + "]"
        cands = "unopt (f_bw_candidates %s %s)" % (flist([float(x).hex() for x in flat]), lens)
        sel = "[f_bw_select %s %s]" % (flist([float(x).hex() for x in r["cands"]]), flist([float(x).hex() for x in r["lik"]]))
    else:
        cands, sel = "(@nil SpecFloat.spec_float)", "(@nil SpecFloat.spec_float)"
    return "(%s, %s, %s, %s)" % (rows, grid, cands, sel)


def kde_correspondence(c, r, m):
    """list of (what, impl, model) disagreements between Model/K15_KDEexec.v and kde_vectorizer.py for one case"""
    out = []
    mrows, mgrid, mcands, msel = m
    mrows = [[sf2float(v) for v in row] for row in mrows]
    skip = near_support_edge(c, r["bandwidth"], r["grid"])
    for i, (a, b) in enumerate(zip(r["rows"], mrows)):
        if i not in skip and not rows_close([a], [b], KTOL["row_rel"], KTOL["row_abs"]):
            out.append(("transform row %d (kernel %s)" % (i, c.get("kernel")), a, b))
    if len(mrows) != len(r["rows"]):
        out.append(("number of rows", len(r["rows"]), len(mrows)))
    mg = [Fraction(n, d) for n, d in mgrid]
    scale = max([1.0] + [abs(x) for s in c["train"] for x in s])
    if len(mg) != len(r["grid"]) or any(abs(Fraction(g) - q) > Fraction(KTOL["grid_rel"]) * Fraction(scale) for g, q in zip(r["grid"], mg)):
        out.append(("evaluation_grid_ (%s)" % c["grid"], r["grid"], [float(q) for q in mg]))
    if c["bandwidth"] is None:
        mc = [sf2float(v) for v in mcands]
        if len(mc) != len(r["cands"] or []) or any(not close(a, b, KTOL["cands_rel"], 0.0) for a, b in zip(r["cands"], mc)):
            out.append(("bandwidth candidates handed to the jack-knife search", r["cands"], mc))
        if [sf2float(v) for v in msel] != [r["bandwidth"]]:
            out.append(("bandwidth_ = candidates[argmax(likelihoods)]", r["bandwidth"], [sf2float(v) for v in msel]))
    elif r["bandwidth"] != c["bandwidth"]:
        out.append(("bandwidth_ = bandwidth", r["bandwidth"], c["bandwidth"]))
    return out


COS_POINTS = [0.0, 1e-9, 0.1, 0.5, 0.7853981633974483, 1.0, 1.3, 1.5, 1.5707963267948966]
EXP_POINTS = [-745.0, -700.0, -30.25, -8.0, -1.0, -1e-9, 0.0, 0.3, 1.0, 2.302585092994046]


def check_transcendentals(ctx):
    vals = C.coq_eval("C20tr", KHEADER, ["out (f_cos %s)" % hx(p) for p in COS_POINTS] + ["out (f_exp %s)" % hx(p) for p in EXP_POINTS]
                      + ["out (f_ln %s)" % hx(p) for p in (0.25, 3.0, 10.0)])
    refs = [math.cos(p) for p in COS_POINTS] + [math.exp(p) for p in EXP_POINTS] + [math.log(p) for p in (0.25, 3.0, 10.0)]
    worst = 0.0
    for k, (v, ref) in enumerate(zip(vals, refs)):
        got = sf2float(v)
        # cos near pi/2 and exp in the subnormal range: absolute error; otherwise relative
        worst = max(worst, abs(got - ref) if (k < len(COS_POINTS) or abs(ref) < 1e-300) else abs(got - ref) / abs(ref))
    ctx.coverage["model_cos_exp_ln_vs_libm_max_err"] = worst
    if worst > KTOL["transcendental_rel"]:
        ctx.report("f_cos (Model/K15_KDE_Float.v) / f_exp / f_ln deviate from libm by %.3g" % worst,
                   {"stage": "correspondence", "correspondence": "f_cos, f_exp, f_ln <-> math.cos, math.exp, math.log"}, found_input=False)


def bins_close(model, impl, exact):
    if len(model) != len(impl):
        return False
    for (ml, mr), (il, ir) in zip(model, impl):
        for a, b in ((ml, il), (mr, ir)):
            if a == b:
                continue
            if exact or not (isinstance(a, Fraction) and isinstance(b, Fraction)):
                return False
            if abs(a - b) > Fraction(1, 10 ** 12) * max(abs(a), abs(b), 1):
                return False
    return True


# ------------------------------------------------------------------ run
def run(ctx, replay=None):
    C.run_gate(ctx, extra_props=["C20_kde"])
    n_h, n_k = (260, 150) if ctx.quick else (3000, 1500)
    if replay:
        cases = [replay["case"]]
    else:
        cases = CORPUS + [gen_hist(ctx.rng) for _ in range(n_h)] + [gen_kde(ctx.rng) for _ in range(n_k)]
        # in EVERY run: sequences of more than 1000 values, of lengths that are not a multiple of a likely block size
        reps = 1 if ctx.quick else 4
        for _ in range(reps):
            cases += [gen_kde_long(ctx.rng, n) for n in LONG_LENGTHS + ctx.rng.sample(MORE_LENGTHS, 3)]
            cases += [gen_hist_long(ctx.rng, n) for n in [5000, 1025] + ctx.rng.sample(MORE_LENGTHS, 2)]
    ctx.coverage["rule"] = ("random (strategy, n_components, absolute_range incl. +-inf and == training min/max, outlier bins, "
                            "training collection, test sequences with values on edges / extremes / one ulp beside them / far "
                            "outside, input type) histogram cases + KDE cases (kernel among the six of KernelDensity, bandwidth "
                            "given or estimated, grid strategy, n_components incl. 1, list / ndarray / tuple / float32 / int "
                            "sequences, single-value sequences, long sequences (1025, 1500, 2500, 5000 values and lengths one above / at powers "
                            "of two, for KDE and histogram rows, in every run), duplicated values, values exactly at distance h of a grid point "
                            "and one ulp beside, values far outside the grid, permuted, reversed and doubled samples); non-trivial = at "
                            "least one test value; distinct by case hash")
    ctx.assumptions += ["bin edges / values are binary64 floats read as exact rationals (float.as_integer_ratio); no NaN / inf values",
                        "pd.interval_range's linspace, np.cumsum and bin_range*k of find_bin_boundaries are floating point: "
                        "the uniform edges are compared with the exact model at 1e-12 relative, the quantile float data are passed "
                        "to the model as data; the chain hypothesis is checked exactly on the implementation's edges",
                        "KDE: the row model (Model/K15_KDEexec.v) is executed in Coq over binary64 (exp / ln / cos = the series of "
                        "Model/K13_Float.v, K12_Float.v, K15_KDE_Float.v, compared with libm on every run) on the fitted grid and "
                        "bandwidth read from the estimator; rows compared at %(row_rel)g relative + %(row_abs)g absolute (sklearn "
                        "sums in log space with rtol = atol = 0: exact up to rounding), under permutation / doubling of the sample "
                        "at %(perm_rel)g relative; the exact-rational model of the fitted grid (np.linspace / np.quantile) is "
                        "compared with evaluation_grid_ at %(grid_rel)g of the data scale; the binary64 model of the 50 bandwidth "
                        "candidates at %(cands_rel)g relative; bandwidth_ must be exactly candidates[argmax(likelihoods)] for the "
                        "likelihoods the jack-knife search returned (that search, KernelDensity's tree included, is an oracle)" % KTOL,
                        "KDE: tophat rows with a value within 8 ulp of (but not on) the support edge |x - g| = h are not compared",
                        "KDE: sequences have >= 1 value (>= 2 in training when the bandwidth is estimated: the jack-knife leaves one out)",
                        "quantile strategy only on non-negative data with a positive total (property text)",
                        "training data has at least two distinct values strictly inside the absolute range"]
    if not replay:
        check_transcendentals(ctx)
    impl, info = C.run_impl("c20", cases)
    if impl is None or len(impl) != len(cases):
        done = len(impl) if impl else 0
        ctx.report("implementation child died (rc=%s) on case %d: %s" % (info["rc"], done, info["tail"][-400:]),
                   {"stage": "impl-crash", "case": cases[done] if done < len(cases) else None}, found_input=True)
        impl = (impl or []) + [{"err": "crash"}] * (len(cases) - done)
    hist_idx = [i for i, (c, r) in enumerate(zip(cases, impl)) if c["kind"] == "hist" and "ok" in r]
    kde_idx = [i for i, (c, r) in enumerate(zip(cases, impl)) if c["kind"] == "kde" and "ok" in r]
    from concurrent.futures import ThreadPoolExecutor
    with ThreadPoolExecutor(max_workers=2) as ex:
        fh = ex.submit(C.coq_eval_sharded, "C20", HEADER, [coq_hist(cases[i], impl[i]["ok"]) for i in hist_idx], 60)
        fk = ex.submit(C.coq_eval_sharded, "C20k", KHEADER, [coq_kde(cases[i], impl[i]["ok"]) for i in kde_idx], 40)
        model, kmodel = fh.result(), fk.result()
    model_of = dict(zip(hist_idx, model))
    kmodel_of = dict(zip(kde_idx, kmodel))
    corr_bad, n_corr, n_oracle, n_kcorr, n_krows, n_klong, n_hlong = [], 0, 0, 0, 0, 0, 0
    for i, (c, r) in enumerate(zip(cases, impl)):
        nval = sum(len(s) for s in tests_of(c))
        if c["kind"] == "hist":
            rk = "default" if (c["a0"], c["a1"]) == (NINF, INF) else "finite" if NINF != c["a0"] and INF != c["a1"] else "half"
            kind = "hist:%s:%s:%s" % (c["strategy"], rk, "outlier" if c["outlier"] else "expand")
        else:
            kind = "kde:%s:%s:%s" % (c.get("kernel", "gaussian"), c["grid"], "bw-estimated" if c["bandwidth"] is None else "bw-given")
        ctx.count_case(c, nontrivial=nval > 0, kind=kind)
        if "ok" not in r:
            if r.get("err") != "crash":
                ctx.report("valid input raised %s: %s" % (r.get("err"), r.get("msg")),
                           {"stage": "oracle", "case": c, "actual": r}, found_input=True)
            continue
        r = r["ok"]
        n_oracle += 1
        bad = hist_oracle(c, r) if c["kind"] == "hist" else kde_oracle(c, r)
        if bad:
            ctx.report("%s: %s" % ("HistogramVectorizer" if c["kind"] == "hist" else "KDEVectorizer", bad[0][0]),
                       {"stage": "oracle", "case": c, "failures": bad[:5], "actual": r}, found_input=True)
            continue
        if c["kind"] != "hist":
            n_kcorr += 1
            n_krows += len(c["test"])
            n_klong += sum(1 for s in tests_of(c) if len(s) > 1000)
            for what, got, want in kde_correspondence(c, r, kmodel_of[i]):
                corr_bad.append((c, "KDE " + what, got, want))
            continue
        n_corr += 1
        n_hlong += sum(1 for s in tests_of(c) if len(s) > 1000)
        chain_ok, mrows, mfit, mbreaks = model_of[i]
        impl_bins = [(from_rat(l), from_rat(rr)) for l, rr in r["bins"]]
        if chain_ok is not True:
            ctx.report("the fitted bin_intervals_ fail the chain hypothesis of C20_partition / C20_conservation (chainb = false)",
                       {"stage": "oracle", "case": c, "bins": r["bins"]}, found_input=True)
            continue
        for t, rows in r["rows"].items():
            if [[int(v) for v in row] for row in rows] != mrows:
                corr_bad.append((c, "rows[%s]" % t, rows, mrows))
        mb = [(dec_ext(l), dec_ext(rr)) for l, rr in mfit]
        if not bins_close(mb, impl_bins, exact=(c["strategy"] == "quantile")):
            corr_bad.append((c, "fit", r["bins"], [[str(l), str(rr)] for l, rr in mb]))
        if c["strategy"] == "quantile":
            if [Fraction(n, d) for n, d in mbreaks] != [from_rat(x) for x in r["breaks"]]:
                corr_bad.append((c, "find_bin_boundaries", r["breaks"], mbreaks))
    ctx.coverage["correspondence"] = {"cases": n_corr + n_kcorr, "histogram_cases": n_corr, "kde_cases": n_kcorr,
                                      "kde_rows_executed_in_coq": n_krows, "kde_rows_longer_than_1000_values": n_klong,
                                      "histogram_rows_longer_than_1000_values": n_hlong, "disagreements": len(corr_bad),
                                      "model": "Model/K15_HistKDE.v via vm_compute (chainb on the implementation's bins, "
                                               "hist_transform, hist_fit_uniform / find_breaks + hist_fit_breaks); "
                                               "Model/K15_KDEexec.v via vm_compute over binary64 (kde_transform_k on the fitted "
                                               "grid / bandwidth, bw_candidates, bw_select) and exact rationals (kde_fit_grid)",
                                      "tolerances": KTOL}
    ctx.coverage["oracle"] = {"cases": n_oracle}
    ctx.coverage["traces_validated_against_impl"] = n_corr + n_kcorr
    if corr_bad and not any(v["found_input"] for v in ctx.violations):
        c, what, got, want = corr_bad[0]
        mod = "K15_KDEexec" if c["kind"] == "kde" else "K15_HistKDE"
        ctx.report("model %s and implementation disagree on %s (no property-level failure found): impl %s, model %s"
                   % (mod, what, str(got)[:300], str(want)[:300]),
                   {"stage": "correspondence",
                    "correspondence": "Model/%s.v <-> %s" % (mod, "kde_vectorizer.py KDEVectorizer" if c["kind"] == "kde"
                                                             else "_vectorizers.py HistogramVectorizer"),
                    "case": c, "model": want, "actual": got}, found_input=False)
    C.gate_violation(ctx)
    return ctx.finish("proof")
