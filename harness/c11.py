"""C11 — EM refinement and epsilon thresholding follow the documented procedure.
Proof gate (Properties/C11.v) + correspondence of Model/K04_EM.v (em_update_matrix called directly; the whole
normalise/threshold/iterate pipeline evaluated in Coq on rationals) + property oracle (an independent dense
implementation of the documented procedure on exact fractions, and its stated consequences)."""
from fractions import Fraction as F
from . import common as C
from . import c03

HEADER = """From Coq Require Import List Arith Bool ZArith QArith Qcanon.
From VZ Require Import Model.K02_Windows Model.K03_Cooc Model.K03_Exec Model.K04_EM.
Import ListNotations.
Open Scope nat_scope.
"""

REL, ABS = 2e-5, 1e-7
NEAR = 2e-4           # relative distance to epsilon below which a float32 pruning decision is not judged
EPS = [0.0, 0.05, 0.2, 0.5, 0.25, 1.0]

# ------------------------------------------------------------------ generators

def f32_exact(x):
    import struct
    return struct.unpack("f", struct.pack("f", float(x)))[0] == float(x)


def eps_fraction(eps):
    """The threshold as a rational: exactly the given float when float32 represents it (the matrix is float32, so the
    comparison is then the same in both worlds), else the short decimal it was written as."""
    return F(float(eps)) if f32_exact(eps) else F(float(eps)).limit_denominator(1000)


def gen_fit_case(rng):
    r = rng.random()
    if r < 0.3:
        case = gen_runs_case(rng)
    elif r < 0.55:
        case = gen_eps_hit_case(rng)
    else:
        case = c03.gen_case_plain(rng, rng.choice(["token", "token", "ngram", "timed", "multi"]))
        # small numbers keep the exact rational model tractable
        kw = case["kw"]
        if case["kind"] in ("token", "ngram"):
            case["docs"] = [d[:8] for d in case["docs"][:4]]
        elif case["kind"] == "timed":
            case["docs"] = [d[:8] for d in case["docs"][:4]]
        else:
            case["docs"] = [[ms[:3] for ms in d[:4]] for d in case["docs"][:2]]
        rad = kw["window_radii"]
        kw["window_radii"] = [min(x, 4) for x in rad] if isinstance(rad, list) else min(rad, 4)
        c03.apply_boundaries(rng, case)          # radii 0, 1, len-1, len, len+1, beyond int16/int32; offsets >= window
        case["kw"]["n_iter"] = rng.choice([0, 1, 1, 2, 2, 3])
        case["kw"]["epsilon"] = rng.choice(EPS)
        if rng.random() < 0.35:
            # several windows with NON-uniform mix weights and at least one EM iteration: the E-step must weigh a
            # window's cells by mix weight x kernel x current value (for every driver)
            kw = case["kw"]
            nwin = rng.choice([2, 2, 3])
            kf = kw["kernel_functions"][0] if isinstance(kw["kernel_functions"], list) else kw["kernel_functions"]
            kw["window_radii"] = [rng.choice([1, 2, 2, 3]) for _ in range(nwin)]
            kw["window_orientations"] = [rng.choice(["before", "after", "directional"]) for _ in range(nwin)]
            kw["kernel_functions"] = [kf] * nwin
            kw["window_functions"] = ["fixed"] * nwin
            kw.pop("kernel_args", None)
            w = [rng.choice([0.5, 1.0, 2.0, 3.0, 0.25]) for _ in range(nwin)]
            if len(set(w)) == 1:
                w[0] = w[0] * 4
            kw["mix_weights"] = w
            kw["n_iter"] = rng.choice([1, 1, 2])
    # 40%: the same estimator object was fitted on another corpus before; 25%: a later transform goes through the
    # same normalise / threshold / iterate pipeline
    return c03.add_call_history(rng, case, 0.4, 0.25)


STAR_PATTERNS = [[1], [1], [3], [1, 1], [1, 1], [2, 2], [2, 1, 1], [2, 1, 1], [1, 1, 1, 1], [3, 1], [4, 2, 1, 1], [1, 1, 2, 4]]


def gen_eps_hit_case(rng):
    """Corpora whose column-normalised values are dyadic and hit epsilon exactly, before and after every EM iteration:
    disjoint stars -- context token u_k is preceded by the row tokens of pattern k with the given multiplicities, every
    row token belongs to one star (multiset kind: also as one basket [r, u] per document) -- so each occurrence has a
    single window slot per block (EM share exactly 1, or 1/2 + 1/2), the column of
    u_k holds m_j / sum(m) and (in a 'before' block) the column of a row token holds 1.0.  epsilon is one of those
    values, or the float32 neighbour 2^-20 below / above it."""
    kind = rng.choice(["token", "token", "timed", "ngram", "multi"])
    rows_pool = list("abcdefghijkl")
    rng.shuffle(rows_pool)
    pairs, values = [], {F(1)}
    for k in range(rng.choice([1, 1, 2, 3])):
        pat = rng.choice(STAR_PATTERNS)
        if len(pat) > len(rows_pool):
            break
        rows, rows_pool = rows_pool[:len(pat)], rows_pool[len(pat):]
        for r, m in zip(rows, pat):
            pairs += [(r, "u%d" % k)] * m
            values.add(F(m, sum(pat)))
    rng.shuffle(pairs)
    size = 1
    if kind == "ngram":
        size = rng.choice([1, 2])
    if kind == "token" or kind == "ngram":
        docs = [[r] * size + [u] for r, u in pairs]
    elif kind == "timed":
        docs = [[[r, rng.choice([0, 8])], [u, 16 + rng.choice([0, 8, 24])]] for r, u in pairs]
    elif rng.random() < 0.5:
        docs = [[[r], [u]] for r, u in pairs]
    else:
        # one multiset per document (a basket): the other elements of the own multiset are the contexts (distance 0),
        # in every orientation; the column of a row token then holds 1.0
        docs = [[[r, u]] for r, u in pairs]
    L = 2 + size - 1
    kw = {"window_radii": rng.choice([1, 1, 2, L, L + 1, 32768, 2 ** 31 - 1]),
          "window_orientations": rng.choice(["after", "after", "before", "directional"]),
          "kernel_functions": rng.choice(["flat", "flat", "geometric"]), "normalize_windows": rng.random() < 0.5}
    if kw["window_radii"] > 1000:
        kw["coo_initial_memory"] = "64k"
    if kind == "timed" and rng.random() < 0.8:
        kw["kernel_functions"] = "flat"          # power**(dt/mean gap) is not exact in floats
    if kw["kernel_functions"] == "geometric":
        kw["kernel_args"] = {"power": rng.choice([0.5, 0.25, 1.0])}
    if rng.random() < 0.3:
        kw["mix_weights"] = [rng.choice([0.5, 2.0, 1024.0])]
    if kind == "ngram":
        kw["ngram_size"] = size
    hit = rng.choice(sorted(values))
    r = rng.random()
    eps = hit if r < 0.6 else (hit - F(1, 2 ** 20) if r < 0.8 else hit + F(1, 2 ** 20))
    kw["epsilon"] = float(eps)
    kw["n_iter"] = rng.choice([0, 1, 1, 2, 2, 3])
    case = {"kind": kind, "kw": kw, "docs": docs, "eps_hit": True}
    if kind == "timed":
        case["shift"] = rng.choice([0.0, 1.6e9])
    return case


def gen_runs_case(rng):
    """Biased to what the suite never produces: a rare transition t -> t' (t' the largest column of row t) is pruned by
    epsilon, a later iteration looks it up, and the next row starts with that very column (tokens appear in runs of
    increasing order, 'after' windows of radius 1-2)."""
    na = rng.randint(2, 4)
    alpha = c03.ALPHA[:na]
    docs = []
    for _ in range(rng.choice([1, 1, 2, 3])):
        d = []
        for t in alpha[rng.choice([0, 0, 1]):]:
            d += [t] * rng.choice([1, 2, 3, 4, 5])
        if rng.random() < 0.2:
            d.append(rng.choice(alpha))
        docs.append(d)
    kind = rng.choice(["token", "token", "token", "timed", "ngram", "multi"])
    kw = {"window_radii": rng.choice([1, 1, 2]), "window_orientations": rng.choice(["after", "after", "directional", "before"]),
          "kernel_functions": rng.choice(["flat", "flat", "geometric"]), "normalize_windows": rng.random() < 0.5}
    if kind in ("token", "ngram") and rng.random() < 0.3:
        kw["kernel_functions"] = "harmonic"
    case = {"kind": kind, "kw": kw}
    if kind == "timed":
        out = []
        for d in docs:
            t, dd = 0, []
            for tok in d:
                t += rng.choice([1, 2, 4, 8])
                dd.append([tok, t])
            out.append(dd)
        case["docs"], case["shift"] = out, rng.choice([0.0, 1.6e9])
    elif kind == "multi":
        case["docs"] = [[[t] + ([rng.choice(alpha)] if rng.random() < 0.2 else []) for t in d] for d in docs]
    else:
        case["docs"] = docs
        if kind == "ngram":
            kw["ngram_size"] = rng.choice([1, 1, 2])
    case["kw"]["n_iter"] = rng.choice([1, 2, 2, 3])
    case["kw"]["epsilon"] = rng.choice([0.05, 0.2, 0.2, 0.5, 0.5])
    return case


CORPUS = [
    # D9: (a,b) = 1/4 is pruned by eps = .3; the 'a' before the first 'b' looks column b up in row a = [col a];
    # searchsorted returns len(row) and the next row (b) starts with column b
    {"kind": "token", "docs": [["a", "a", "a", "a", "a", "b", "b", "b", "b"]],
     "kw": {"window_radii": 1, "window_orientations": "after", "kernel_functions": "flat", "normalize_windows": False,
            "n_iter": 1, "epsilon": 0.3}},
    {"kind": "token", "docs": [["a", "a", "a", "b", "b", "c", "c", "c"], ["b", "c"]],
     "kw": {"window_radii": 2, "window_orientations": "directional", "kernel_functions": "harmonic", "normalize_windows": True,
            "n_iter": 2, "epsilon": 0.2}},
    {"kind": "multi", "docs": [[["a"], ["a"], ["a", "b"], ["b"], ["b"]]],
     "kw": {"window_radii": 1, "window_orientations": "after", "kernel_functions": "flat", "normalize_windows": False,
            "n_iter": 2, "epsilon": 0.2}},
]


def gen_direct_case(rng):
    """em_update_matrix called directly: a random CSR prior (sorted unique columns per row, dyadic values) and a
    sequence of occurrences whose windows mention absent columns -- in particular columns larger than every column of
    the target row while the next row starts with that column."""
    n = rng.randint(1, 4)
    nblocks = rng.choice([1, 1, 2])
    width = n * nblocks
    nrows = rng.randint(1, 4)
    rows = []
    for _ in range(nrows):
        k = rng.choice([0, 1, 1, 2, 3, width])
        cols = sorted(rng.sample(range(width), min(k, width)))
        rows.append(cols)
    if nrows >= 2 and rng.random() < 0.6:      # the D9 shape
        r = rng.randrange(nrows - 1)
        c = rng.randrange(width)
        rows[r] = [x for x in rows[r] if x < c]
        rows[r + 1] = [c] + [x for x in rows[r + 1] if x > c]
    indptr, indices = [0], []
    for cols in rows:
        indices += cols
        indptr.append(len(indices))
    prior = [rng.choice([1, 2, 3, 4, 8]) / 8.0 for _ in indices]
    post = [rng.choice([0, 0, 1, 2]) / 4.0 for _ in indices]
    occs = []
    for _ in range(rng.randint(1, 4)):
        tgt = rng.randrange(nrows)
        windows, kernels = [], []
        for w in range(nblocks):
            L = rng.choice([0, 1, 2, 3, 4])
            win = [rng.randrange(n) for _ in range(L)]
            if rows[tgt] and rng.random() < 0.5:
                win += [c - w * n for c in rows[tgt] if w * n <= c < (w + 1) * n][:2]
            windows.append(win)
            kernels.append([rng.choice([0, 1, 1, 2, 4]) / 4.0 for _ in win])
        occs.append({"target": tgt, "windows": windows, "kernels": kernels})
    return {"kind": "em_direct", "n": n, "indptr": indptr, "indices": indices, "prior": prior, "post": post, "occs": occs}

# ------------------------------------------------------------------ SPEC: the documented procedure, dense, exact

def normalize_threshold(M, eps, near, zero, mon=None):
    sums = {}
    for (r, c), v in M.items():
        sums[c] = sums.get(c, zero) + v
    out = {}
    for (r, c), v in M.items():
        x = v / sums[c] if sums[c] > 0 else v
        if mon is not None:
            mon.v32(v)
            mon.v32(x)
        if eps > 0 and x > 0 and abs(float(x) - float(eps)) <= NEAR * float(eps):
            near.append(((r, c), float(x)))
        if x >= eps and x != 0:
            out[(r, c)] = x
    return out


def em_spec(M0, occs, n, n_iter, eps, exact=True, mon=None):
    """L1-normalise the columns, zero the entries below eps, then n_iter times: every occurrence distributes one unit
    of mass over the cells (its own row, context column) of its window contexts in proportion to kernel weight x current
    cell value; re-normalise, re-threshold.  Returns (matrix, near-threshold decisions met on the way).
    exact: fractions; otherwise the same dense procedure in float64 (exact rationals explode with 53-bit timed weights
    or long corpora; float64 is 1e-15 against a 2e-5 comparison).
    mon (exact mode): c03.Exactness, told every intermediate value (see there)."""
    conv = (lambda x: x) if exact else float
    zero = F(0) if exact else 0.0
    eps = eps if exact else float(eps)
    mon = mon if exact else None
    near = []
    M = {k: conv(v) for k, v in M0.items()}
    if n_iter > 0 or eps > 0:
        M = normalize_threshold(M, eps, near, zero, mon)
    flat_occs = []
    for row, per_block in occs:
        flat_occs.append([((row, ctx + i * n), conv(w)) for i, blk in enumerate(per_block) for ctx, w in blk.values() if w > 0])
    for _ in range(n_iter):
        new = {k: zero for k in M}
        for slots in flat_occs:
            shares = [(cell, w * M[cell]) for cell, w in slots if cell in M]
            tot = sum((v for _, v in shares), zero)
            if tot > 0:
                for cell, v in shares:
                    new[cell] += v / tot
                    if mon is not None:
                        mon.v64(v)
                        mon.v32(v / tot)
        M = normalize_threshold(new, eps, near, zero, mon)
    return M, near


def direct_spec(case):
    """One call of em_update_matrix = the occurrence adds to cell (target row, context column) the share
    k*P[cell] / sum over its window slots; absent cells get nothing; nothing outside the target's row changes."""
    post = [F(x) for x in case["post"]]
    indptr, indices, n = case["indptr"], case["indices"], case["n"]
    prior = [F(x) for x in case["prior"]]
    for occ in case["occs"]:
        t = occ["target"]
        cell = {indices[j]: j for j in range(indptr[t], indptr[t + 1])}
        shares = []
        for w, (win, ker) in enumerate(zip(occ["windows"], occ["kernels"])):
            for ctx, k in zip(win, ker):
                col = ctx + w * n
                if k > 0 and col in cell:
                    shares.append((cell[col], F(k) * prior[cell[col]]))
        tot = sum((v for _, v in shares), F(0))
        if tot > 0:
            for j, v in shares:
                post[j] += v / tot
    return post

# ------------------------------------------------------------------ Coq rendering

def coq_pipeline_expr(p, radii, case):
    kw = case["kw"]
    _, occf, blocks, tail = c03.coq_parts(p, radii)
    events = c03.coq_events(p, radii, bool(kw.get("normalize_windows", True)))
    eps = eps_fraction(kw.get("epsilon", 0))
    return "show_rows (pipeline %d %s %d (%s %s %s) (rows_of_events %d %s))" % (
        int(kw.get("n_iter", 0)), c03.qc(eps), p["n"], occf, blocks, tail, p["n_rows"], events)


def coq_direct_expr(case, guarded=True):
    def ql(xs):
        return "[" + "; ".join(c03.qc(F(x)) for x in xs) + "]"
    e = ql(case["post"])
    for occ in case["occs"]:
        wk = "[" + "; ".join("(%s, %s)" % (c03.nl(w), ql(k)) for w, k in zip(occ["windows"], occ["kernels"])) + "]"
        e = "(@em_update%s QcK %s %s %s %s %d (%d, %s))" % ("" if guarded else "_flat", e, c03.nl(case["indices"]),
                                                          c03.nl(case["indptr"]), ql(case["prior"]), case["n"], occ["target"], wk)
    return "map show %s" % e

# ------------------------------------------------------------------ judging

def close(a, b, rel=REL, ab=ABS):
    return abs(a - b) <= rel * max(abs(a), abs(b)) + ab


def judge_fit(ctx, case, res, model_val, stats, model_then=None):
    p = c03.plan_of(case)
    kw = case["kw"]
    n_iter, eps = int(kw.get("n_iter", 0)), eps_fraction(kw.get("epsilon", 0))
    ctx.count_case(case, nontrivial=c03.nontrivial(p), kind="%s:n_iter=%d:eps=%s%s%s%s" % (
        case["kind"], n_iter, round(float(eps), 4), ":eps-hit" if case.get("eps_hit") else "",
        "+past" if case.get("history") else "", "+then" if case.get("then") else ""))
    if "error" in p:
        stats["degenerate"] += 1
        return None
    if "err" in res:
        ctx.report("implementation raised %s on a valid input: %s%s" % (res["err"], res.get("msg", ""), c03.past_note(case)),
                   {"stage": "oracle", "case": case, "actual": res})
        return None
    out = res["ok"]
    if case.get("history"):
        stats["with_past"] += 1
    radii, problems = c03.expected_radii(p, out["radii"])
    nv = len(ctx.violations)
    d = judge_pipeline(ctx, case, p, radii, out["triples"], model_val, stats, "fit_transform")
    if len(ctx.violations) > nv:
        return None
    if case.get("then") and "then" in out:
        got = out["then"]
        if "err" in got:
            ctx.report("transform after fit raised %s: %s%s" % (got["err"], got.get("msg", ""), c03.past_note(case)),
                       {"stage": "oracle", "case": case, "actual": got})
            return None
        d2 = judge_pipeline(ctx, case, c03.plan_then(case, p), radii, got["triples"], model_then, stats,
                            "transform(%s) after fit" % ("X" if case["then"]["docs"] == "same" else "Y"))
        if len(ctx.violations) > nv:
            return None
        stats["then_ok"] += 1
        d = d or d2
    if d is None and problems and not p["variable"]:
        d = "fitted state: " + problems[0] + c03.past_note(case)
    return d


def judge_pipeline(ctx, case, p, radii, triples, model_val, stats, what):
    """The documented procedure on the corpus of plan p against one matrix of the implementation."""
    kw = case["kw"]
    n_iter, eps = int(kw.get("n_iter", 0)), eps_fraction(kw.get("epsilon", 0))
    note = c03.past_note(case)
    mon = c03.Exactness()
    c03.MON = mon
    try:
        occs = c03.occurrences(p, radii)
        if occs is None:
            stats["undefined"] += 1
            return None
        M0 = {}
        for row, per_block in occs:
            c03.occ_contrib(M0, p["n"], row, per_block, bool(kw.get("normalize_windows", True)))
        M0.pop("maxden", None)
        for v in M0.values():
            mon.v32(v)
    finally:
        c03.MON = None
    ntok = sum(len(d) if p["kind"] != "multi" else sum(len(ms) for ms in d) for d in p["docs"])
    exact = not (p["kind"] == "timed" and any(b["kind"] != "flat" for b in p["blocks"])) and (n_iter <= 1 or ntok <= 24)
    S, near = em_spec(M0, occs, p["n"], n_iter, eps, exact, mon)
    # on such a trace the float computation is exact, so that even a value EQUAL to epsilon is judged
    trace_exact = exact and mon.ok and f32_exact(kw.get("epsilon", 0))
    got = {(r, c): v for r, c, v in triples}
    # consequences stated by the property (no tolerance games: float32 slack only)
    bad = [k for k, v in got.items() if not (-1e-6 <= v <= 1 + 1e-5)] if (n_iter > 0 or eps > 0) else []
    if bad:
        ctx.report("%s: entry %s = %r outside [0, 1]%s" % (what, bad[0], got[bad[0]], note), {"stage": "oracle", "case": case, "actual": triples})
        return None
    if n_iter > 0 or eps > 0:
        sums = {}
        for (r, c), v in got.items():
            sums[c] = sums.get(c, 0.0) + v
        for c, sv in sums.items():
            if sv > 1 + 1e-4 or (eps == 0 and abs(sv - 1) > 1e-4):
                ctx.report("%s: column %d sums to %r (must be <= 1, = 1 for a non-empty column when epsilon = 0)%s" % (what, c, sv, note),
                           {"stage": "oracle", "case": case, "actual": triples})
                return None
    grown = [k for k in got if k not in M0]
    if grown:
        ctx.report("%s: support grew beyond the n_iter=0 matrix: cell %s%s" % (what, grown[0], note), {"stage": "oracle", "case": case, "actual": triples})
        return None
    if near and not trace_exact:
        stats["near_threshold"] += 1       # a float32 pruning decision within 2e-4 of epsilon: outcome not judged
        return None
    d = None
    for key in sorted(set(S) | set(got)):
        e, g = S.get(key, 0), got.get(key, 0.0)
        if trace_exact:
            if F(g) != e:
                d = "cell %s: documented procedure gives exactly %s, got %r" % (key, e, g)
                break
        elif not close(float(e), g):
            d = "cell %s: documented procedure gives %.9g, got %.9g" % (key, float(e), g)
            break
    if trace_exact:
        stats["trace_exact"] += 1
        if near:
            stats["eps_boundary_judged"] += 1
            if any(F(x) == eps for _, x in near):
                stats["eps_equal_judged"] += 1
    if d is not None:
        ctx.report("%s: matrix differs from normalise -> threshold -> (EM step -> normalise -> threshold)^%d with epsilon=%r%s: %s%s"
                   % (what, n_iter, float(eps), " (dyadic trace: exact comparison, entries equal to epsilon are kept)" if trace_exact else "", d, note),
                   {"stage": "oracle", "case": case, "expected": sorted([k[0], k[1], float(v)] for k, v in S.items()),
                    "actual": triples})
        return None
    stats["oracle_ok"] += 1
    if model_val is None:
        return None
    stats["corr"] += 1
    Mm = {(r, c): F(num, den) for r, row in enumerate(model_val) for (c, (num, den)) in row}
    if not exact:
        if set(Mm) != set(S) or any(not close(float(Mm[k]), float(S[k]), 1e-9, 1e-12) for k in Mm):
            return "model pipeline (Coq) and documented procedure (float64) differ: %s vs %s" % (str(Mm)[:200], str(S)[:200])
        return None
    if Mm != S:
        keys = [k for k in sorted(set(Mm) | set(S)) if Mm.get(k) != S.get(k)]
        if all(close(float(Mm.get(k, 0)), float(S.get(k, 0)), 1e-9, 1e-12) for k in keys) and p["kind"] == "timed":
            return None
        return "model pipeline (Coq) and documented procedure differ at %s: model %s, spec %s" % (keys[0], Mm.get(keys[0]), S.get(keys[0]))
    return None


def judge_direct(ctx, case, res, model_val, stats):
    ctx.count_case(case, nontrivial=bool(case["indices"]), kind="em_direct")
    S = direct_spec(case)
    if "err" in res:
        ctx.report("em_update_matrix raised %s: %s" % (res["err"], res.get("msg", "")), {"stage": "oracle", "case": case, "actual": res})
        return None
    got = res["ok"]
    for j, (e, g) in enumerate(zip(S, got)):
        if not close(float(e), g, 1e-9, 1e-12):
            row = max(i for i in range(len(case["indptr"]) - 1) if case["indptr"][i] <= j)
            ctx.report("em_update_matrix: posterior[%d] (row %d, column %d) = %.9g, the documented share is %.9g "
                       "(mass of an occurrence must stay in its own row)" % (j, row, case["indices"][j], g, float(e)),
                       {"stage": "oracle", "case": case, "expected": [float(x) for x in S], "actual": got})
            return None
    stats["direct_ok"] += 1
    if model_val is not None:
        stats["direct_corr"] += 1
        Mm = [F(a, b) for a, b in model_val]
        if Mm != S:
            return "model em_update (Coq) differs from the documented step: %s vs %s" % (Mm, S)
    return None


def eval_model(ctx, exprs, idx, shard=12):
    """vm_compute in parallel shards; exact rationals can blow up on a rare case, so a shard that exceeds its budget is
    re-run case by case and the slow cases are dropped from the in-Coq sample (counted in evidence)."""
    from concurrent.futures import ThreadPoolExecutor
    shards = [(idx[i:i + shard], exprs[i:i + shard]) for i in range(0, len(exprs), shard)]
    model, slow, errors = {}, [0], []

    def one(k):
        ii, ee = shards[k]
        try:
            return dict(zip(ii, C.coq_eval("C11_s%d" % k, HEADER, ee, timeout=45)))
        except RuntimeError:
            pass
        out = {}
        for j, (i, e1) in enumerate(zip(ii, ee)):
            try:
                out[i] = C.coq_eval("C11_s%d_%d" % (k, j), HEADER, [e1], timeout=10)[0]
            except RuntimeError as e:
                if "Error" in str(e)[-3000:]:
                    errors.append(str(e)[-1500:])
                slow[0] += 1
        return out
    with ThreadPoolExecutor(max_workers=8) as ex:
        for d in ex.map(one, range(len(shards))):
            model.update(d)
    if errors:
        ctx.report("model evaluation in Coq failed: %s" % errors[0], {"stage": "correspondence", "error": errors[0]}, found_input=False)
    return model, slow[0]


STAT_KEYS = ["degenerate", "undefined", "near_threshold", "oracle_ok", "corr", "direct_ok", "direct_corr", "with_past", "then_ok",
             "trace_exact", "eps_boundary_judged", "eps_equal_judged"]


def run(ctx, replay=None):
    C.run_gate(ctx)
    n_fit = 220 if ctx.quick else 2500
    n_direct = 300 if ctx.quick else 3000
    n_model = 70 if ctx.quick else 500
    if replay:
        cases = [replay["case"]]
    else:
        cases = list(CORPUS) + [gen_fit_case(ctx.rng) for _ in range(n_fit)] + [gen_direct_case(ctx.rng) for _ in range(n_direct)]
    from concurrent.futures import ThreadPoolExecutor
    ex = ThreadPoolExecutor(max_workers=6)
    fit_idx = [i for i, c in enumerate(cases) if c["kind"] != "em_direct"]
    dir_idx = [i for i, c in enumerate(cases) if c["kind"] == "em_direct"]
    if ctx.quick and not replay:
        # compiled: the first n_iter > 0 case of each vectorizer kind (numba compiles build + EM drivers: ~1 min each)
        first = {}
        for j, i in enumerate(fit_idx):
            if int(cases[i]["kw"].get("n_iter", 0)) > 0:
                first.setdefault(cases[i]["kind"], j)
        order = sorted(first.values()) + [j for j in range(len(fit_idx)) if j not in first.values()]
        fit_idx = [fit_idx[j] for j in order]
        n_jit = len(first)
    else:
        n_jit = 120
    budget = c03.JIT_BUDGET_S[ctx.tier]
    jit_idx, futs = c03.start_compiled(ex, [cases[i] for i in fit_idx], n_jit, budget)
    f_dir = ex.submit(c03.delayed_impl, 0.5, [cases[i] for i in dir_idx], None, budget)   # em_update_matrix compiled
    impl, info = C.run_impl("c03", cases, {"NUMBA_DISABLE_JIT": "1"})
    if impl is None or len(impl) != len(cases):
        done = len(impl) if impl else 0
        ctx.report("implementation child died (rc=%s) on case %d: %s" % (info["rc"], done, info["tail"][-400:]),
                   {"stage": "impl-crash", "case": cases[done] if done < len(cases) else None}, found_input=True)
        impl = (impl or []) + [{"err": "crash"}] * (len(cases) - done)
    # model evaluation
    exprs, idx = [], []
    n_fit_model = 0
    for i, (c, r) in enumerate(zip(cases, impl)):
        if c["kind"] == "em_direct":
            if replay or len([1 for j in idx if isinstance(j, int) and cases[j]["kind"] == "em_direct"]) < (150 if ctx.quick else 1500):
                exprs.append(coq_direct_expr(c))
                idx.append(i)
            continue
        if n_fit_model >= n_model and not replay:
            continue
        p = c03.plan_of(c)
        if "error" in p or "ok" not in r:
            continue
        if p["kind"] == "timed" and p["delta_mean"] == 0 and any(b["kind"] != "flat" for b in p["blocks"]):
            continue
        if not replay and int(c["kw"].get("n_iter", 0)) >= 1 and (
                sum(len(t) for t in c03.tokens_of(c)) > 24 and int(c["kw"].get("n_iter", 0)) >= 2
                or p["kind"] == "timed" and any(b["kind"] != "flat" for b in p["blocks"])):
            continue       # exact rationals grow quickly (53-bit timed weights, long corpora): keep the in-Coq sample small
        radii, _ = c03.expected_radii(p, r["ok"]["radii"])
        exprs.append(coq_pipeline_expr(p, radii, c))
        idx.append(i)
        n_fit_model += 1
        if c.get("then") and "triples" in r["ok"].get("then", {}) and c["then"]["docs"] != "same":
            q = c03.plan_then(c, p)
            if sum(len(d) if q["kind"] != "multi" else sum(len(ms) for ms in d) for d in q["docs"]) <= 24:
                exprs.append(coq_pipeline_expr(q, radii, c))
                idx.append(("then", i))
    import time
    t_coq = time.time()
    model, n_slow = eval_model(ctx, exprs, idx)
    t_coq = round(time.time() - t_coq, 1)
    jit, jit_info = c03.collect_compiled(jit_idx, futs)
    dres, dinfo = f_dir.result()
    ex.shutdown()
    for j, rj in sorted(jit.items()):
        i = fit_idx[j]
        if rj.get("err") == "crash":
            ctx.report("compiled-mode implementation child died: %s" % rj.get("msg", ""), {"stage": "impl-crash", "case": cases[i]})
            break
        if "ok" in rj:
            impl[i] = rj            # judge the compiled result where there is one
    mode_diffs = []
    if dinfo["rc"] == 124:          # budget exhausted: compare what was reached
        dres = dres or []
        for i, r in zip(dir_idx, dres):
            impl[i] = r
    elif dres is None or len(dres) != len(dir_idx):
        done = len(dres) if dres else 0
        ctx.report("compiled em_update_matrix child died (rc=%s) on direct case %d: %s" % (dinfo["rc"], done, dinfo["tail"][-300:]),
                   {"stage": "impl-crash", "case": cases[dir_idx[done]] if done < len(dir_idx) else None})
    else:
        for i, r in zip(dir_idx, dres):
            ri = impl[i]
            if ("ok" in r) != ("ok" in ri) or ("ok" in r and any(not close(a, b, 1e-12, 1e-15) for a, b in zip(r["ok"], ri["ok"]))):
                mode_diffs.append(("em_update_matrix: compiled and interpreted execution differ: %s vs %s" % (str(r)[:200], str(ri)[:200]),
                                   {"stage": "oracle", "case": cases[i], "compiled": r, "interpreted": ri}))
            impl[i] = r
    ctx.coverage["modes"] = {"NUMBA_DISABLE_JIT=1": len(impl), "compiled_fit": len(jit), "compiled_em_direct": len(dres or []),
                             "compiled_wall_s": {k: v["wall_s"] for k, v in jit_info.items()},
                             "compiled_budget_exhausted": sorted(k for k, v in jit_info.items() if v["rc"] == 124) + (["em_direct"] if dinfo["rc"] == 124 else []),
                             "interpreted_wall_s": info["wall_s"], "coq_eval_wall_s": t_coq, "coq_cases_dropped_as_slow": n_slow,
                             "em_direct_compiled_wall_s": dinfo["wall_s"]}
    stats = {k: 0 for k in STAT_KEYS}
    corr_bad = []
    for i, (c, r) in enumerate(zip(cases, impl)):
        if c["kind"] == "em_direct":
            d = judge_direct(ctx, c, r, model.get(i), stats)
        else:
            d = judge_fit(ctx, c, r, model.get(i), stats, model.get(("then", i)))
        if d is not None:
            corr_bad.append((c, d))
    for what, rep in mode_diffs[:3]:          # after the property-level reports
        ctx.report(what, rep)
    ctx.coverage["rule"] = ("whole fit_transform (4 vectorizers) x n_iter 0-3 x epsilon {0,.05,.2,.25,.5,1}: 30% corpora of increasing "
                            "token runs (a pruned largest-column cell that a later iteration looks up while the next row starts "
                            "with that column); 25% disjoint-star corpora whose column-normalised values are dyadic (1, 1/2, 1/4, "
                            "3/4, 1/8) with epsilon EQUAL to one of them or 2^-20 below/above it (radii 1, 2, len, len+1, 32768, "
                            "2^31-1; judged exactly when every intermediate of the exact trace is float-representable); the rest "
                            "random C03-style cases with boundary radii/offsets; 40% of all on an estimator with a past (fitted on "
                            "another corpus and used for transform before), 25% followed by a transform judged by the same "
                            "procedure; em_update_matrix called directly on random CSR "
                            "priors/windows/kernels (60% with the next row starting at an absent, larger column); "
                            "non-trivial = some document with >= 2 tokens / non-empty CSR; distinct by case hash")
    ctx.coverage["call_histories"] = {"fits_on_an_estimator_with_a_past": stats["with_past"], "later_transforms_judged": stats["then_ok"]}
    ctx.coverage["epsilon_boundary"] = {"matrices_compared_exactly_on_a_dyadic_trace": stats["trace_exact"],
                                        "with_a_value_within_2e-4_of_epsilon": stats["eps_boundary_judged"],
                                        "with_a_value_equal_to_epsilon": stats["eps_equal_judged"]}
    ctx.coverage["correspondence"] = {"pipeline_cases": stats["corr"], "em_update_cases": stats["direct_corr"],
                                      "disagreements": len(corr_bad),
                                      "model": "Model/K04_EM.v on Qc via vm_compute (pipeline over the K3 event list; em_update)"}
    ctx.coverage["oracle"] = {"fit_cases": stats["oracle_ok"], "em_update_cases": stats["direct_ok"],
                              "near_threshold_not_judged": stats["near_threshold"], "degenerate": stats["degenerate"],
                              "undefined_mean_gap_0": stats["undefined"]}
    ctx.coverage["traces_validated_against_impl"] = stats["corr"] + stats["direct_corr"]
    ctx.assumptions += ["float32 storage of the matrix (2e-5 relative + 1e-7 absolute); a pruning decision whose value is within "
                        "2e-4 (relative) of epsilon is not judged (float32 vs exact comparison is discontinuous there) UNLESS every "
                        "intermediate value of the exact trace is a small dyadic rational (float64 kernel stage: denominators <= 2^20; "
                        "float32 matrix stage: multiples of 2^-10 below 2^12) and epsilon is a float32: IEEE operations with "
                        "representable results do not round, the matrix is then compared exactly and entries equal to epsilon must "
                        "be kept",
                        "em_update_matrix direct calls use dyadic float64 inputs: 1e-9 relative",
                        "values are non-negative (kernels, mix weights, counts), so |x| = x in the L1 normalisation",
                        "n_threads = 1; dask chunking is C04's"]
    if corr_bad and not any(v["found_input"] for v in ctx.violations):
        c, d = corr_bad[0]
        ctx.report("model K04 and documented procedure / implementation disagree (no property-level failure found): " + d,
                   {"stage": "correspondence", "correspondence": "Model/K04_EM.v <-> em_update_matrix / _build_token_cooccurrence_matrix",
                    "case": c}, found_input=False)
    C.gate_violation(ctx)
    return ctx.finish("proof")
