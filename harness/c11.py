"""C11 — EM refinement and epsilon thresholding follow the documented procedure.
Proof gate (Properties/C11.v) + correspondence of Model/K04_EM.v (em_update_matrix called directly; the whole
normalise/threshold/iterate pipeline evaluated in Coq on rationals) + property oracle (an independent dense
implementation of the documented procedure on exact fractions, and its stated consequences)."""
from fractions import Fraction as F
from . import common as C
from . import c03

HEADER = """From Coq Require Import List Arith Bool ZArith QArith Qcanon.
From VZ Require Import Model.K02_Windows Model.K03_Cooc Model.K03_Exec Model.K04_EM.
Import ListNotations.
Open Scope nat_scope.
"""

REL, ABS = 2e-5, 1e-7
NEAR = 2e-4           # relative distance to epsilon below which a float32 pruning decision is not judged
EPS = [0.0, 0.05, 0.2, 0.5]

# ------------------------------------------------------------------ generators

def gen_fit_case(rng):
    r = rng.random()
    if r < 0.45:
        case = gen_runs_case(rng)
    else:
        case = c03.gen_case(rng, rng.choice(["token", "token", "ngram", "timed", "multi"]))
        # small numbers keep the exact rational model tractable
        kw = case["kw"]
        if case["kind"] in ("token", "ngram"):
            case["docs"] = [d[:8] for d in case["docs"][:4]]
        elif case["kind"] == "timed":
            case["docs"] = [d[:8] for d in case["docs"][:4]]
        else:
            case["docs"] = [[ms[:3] for ms in d[:4]] for d in case["docs"][:2]]
        rad = kw["window_radii"]
        kw["window_radii"] = [min(x, 4) for x in rad] if isinstance(rad, list) else min(rad, 4)
    case["kw"]["n_iter"] = rng.choice([0, 1, 1, 2, 2, 3])
    case["kw"]["epsilon"] = rng.choice(EPS)
    return case


def gen_runs_case(rng):
    """Biased to what the suite never produces: a rare transition t -> t' (t' the largest column of row t) is pruned by
    epsilon, a later iteration looks it up, and the next row starts with that very column (tokens appear in runs of
    increasing order, 'after' windows of radius 1-2)."""
    na = rng.randint(2, 4)
    alpha = c03.ALPHA[:na]
    docs = []
    for _ in range(rng.choice([1, 1, 2, 3])):
        d = []
        for t in alpha[rng.choice([0, 0, 1]):]:
            d += [t] * rng.choice([1, 2, 3, 4, 5])
        if rng.random() < 0.2:
            d.append(rng.choice(alpha))
        docs.append(d)
    kind = rng.choice(["token", "token", "token", "timed", "ngram", "multi"])
    kw = {"window_radii": rng.choice([1, 1, 2]), "window_orientations": rng.choice(["after", "after", "directional", "before"]),
          "kernel_functions": rng.choice(["flat", "flat", "geometric"]), "normalize_windows": rng.random() < 0.5}
    if kind in ("token", "ngram") and rng.random() < 0.3:
        kw["kernel_functions"] = "harmonic"
    case = {"kind": kind, "kw": kw}
    if kind == "timed":
        out = []
        for d in docs:
            t, dd = 0, []
            for tok in d:
                t += rng.choice([1, 2, 4, 8])
                dd.append([tok, t])
            out.append(dd)
        case["docs"], case["shift"] = out, rng.choice([0.0, 1.6e9])
    elif kind == "multi":
        case["docs"] = [[[t] + ([rng.choice(alpha)] if rng.random() < 0.2 else []) for t in d] for d in docs]
    else:
        case["docs"] = docs
        if kind == "ngram":
            kw["ngram_size"] = rng.choice([1, 1, 2])
    case["kw"]["n_iter"] = rng.choice([1, 2, 2, 3])
    case["kw"]["epsilon"] = rng.choice([0.05, 0.2, 0.2, 0.5, 0.5])
    return case


CORPUS = [
    # D9: (a,b) = 1/4 is pruned by eps = .3; the 'a' before the first 'b' looks column b up in row a = [col a];
    # searchsorted returns len(row) and the next row (b) starts with column b
    {"kind": "token", "docs": [["a", "a", "a", "a", "a", "b", "b", "b", "b"]],
     "kw": {"window_radii": 1, "window_orientations": "after", "kernel_functions": "flat", "normalize_windows": False,
            "n_iter": 1, "epsilon": 0.3}},
    {"kind": "token", "docs": [["a", "a", "a", "b", "b", "c", "c", "c"], ["b", "c"]],
     "kw": {"window_radii": 2, "window_orientations": "directional", "kernel_functions": "harmonic", "normalize_windows": True,
            "n_iter": 2, "epsilon": 0.2}},
    {"kind": "multi", "docs": [[["a"], ["a"], ["a", "b"], ["b"], ["b"]]],
     "kw": {"window_radii": 1, "window_orientations": "after", "kernel_functions": "flat", "normalize_windows": False,
            "n_iter": 2, "epsilon": 0.2}},
]


def gen_direct_case(rng):
    """em_update_matrix called directly: a random CSR prior (sorted unique columns per row, dyadic values) and a
    sequence of occurrences whose windows mention absent columns -- in particular columns larger than every column of
    the target row while the next row starts with that column."""
    n = rng.randint(1, 4)
    nblocks = rng.choice([1, 1, 2])
    width = n * nblocks
    nrows = rng.randint(1, 4)
    rows = []
    for _ in range(nrows):
        k = rng.choice([0, 1, 1, 2, 3, width])
        cols = sorted(rng.sample(range(width), min(k, width)))
        rows.append(cols)
    if nrows >= 2 and rng.random() < 0.6:      # the D9 shape
        r = rng.randrange(nrows - 1)
        c = rng.randrange(width)
        rows[r] = [x for x in rows[r] if x < c]
        rows[r + 1] = [c] + [x for x in rows[r + 1] if x > c]
    indptr, indices = [0], []
    for cols in rows:
        indices += cols
        indptr.append(len(indices))
    prior = [rng.choice([1, 2, 3, 4, 8]) / 8.0 for _ in indices]
    post = [rng.choice([0, 0, 1, 2]) / 4.0 for _ in indices]
    occs = []
    for _ in range(rng.randint(1, 4)):
        tgt = rng.randrange(nrows)
        windows, kernels = [], []
        for w in range(nblocks):
            L = rng.choice([0, 1, 2, 3, 4])
            win = [rng.randrange(n) for _ in range(L)]
            if rows[tgt] and rng.random() < 0.5:
                win += [c - w * n for c in rows[tgt] if w * n <= c < (w + 1) * n][:2]
            windows.append(win)
            kernels.append([rng.choice([0, 1, 1, 2, 4]) / 4.0 for _ in win])
        occs.append({"target": tgt, "windows": windows, "kernels": kernels})
    return {"kind": "em_direct", "n": n, "indptr": indptr, "indices": indices, "prior": prior, "post": post, "occs": occs}

# ------------------------------------------------------------------ SPEC: the documented procedure, dense, exact

def normalize_threshold(M, eps, near, zero):
    sums = {}
    for (r, c), v in M.items():
        sums[c] = sums.get(c, zero) + v
    out = {}
    for (r, c), v in M.items():
        x = v / sums[c] if sums[c] > 0 else v
        if eps > 0 and x > 0 and abs(float(x) - float(eps)) <= NEAR * float(eps):
            near.append(((r, c), float(x)))
        if x >= eps and x != 0:
            out[(r, c)] = x
    return out


def em_spec(M0, occs, n, n_iter, eps, exact=True):
    """L1-normalise the columns, zero the entries below eps, then n_iter times: every occurrence distributes one unit
    of mass over the cells (own row, context column) of its window contexts in proportion to kernel weight x current
    cell value; re-normalise, re-threshold.  Returns (matrix, near-threshold decisions met on the way).
    exact: fractions; otherwise the same dense procedure in float64 (exact rationals explode with 53-bit timed weights
    or long corpora; float64 is 1e-15 against a 2e-5 comparison)."""
    conv = (lambda x: x) if exact else float
    zero = F(0) if exact else 0.0
    eps = eps if exact else float(eps)
    near = []
    M = {k: conv(v) for k, v in M0.items()}
    if n_iter > 0 or eps > 0:
        M = normalize_threshold(M, eps, near, zero)
    flat_occs = []
    for row, per_block in occs:
        flat_occs.append([((row, ctx + i * n), conv(w)) for i, blk in enumerate(per_block) for ctx, w in blk.values() if w > 0])
    for _ in range(n_iter):
        new = {k: zero for k in M}
        for slots in flat_occs:
            shares = [(cell, w * M[cell]) for cell, w in slots if cell in M]
            tot = sum((v for _, v in shares), zero)
            if tot > 0:
                for cell, v in shares:
                    new[cell] += v / tot
        M = normalize_threshold(new, eps, near, zero)
    return M, near


def direct_spec(case):
    """One call of em_update_matrix = the occurrence adds to cell (target row, context column) the share
    k*P[cell] / sum over its window slots; absent cells get nothing; nothing outside the target's row changes."""
    post = [F(x) for x in case["post"]]
    indptr, indices, n = case["indptr"], case["indices"], case["n"]
    prior = [F(x) for x in case["prior"]]
    for occ in case["occs"]:
        t = occ["target"]
        cell = {indices[j]: j for j in range(indptr[t], indptr[t + 1])}
        shares = []
        for w, (win, ker) in enumerate(zip(occ["windows"], occ["kernels"])):
            for ctx, k in zip(win, ker):
                col = ctx + w * n
                if k > 0 and col in cell:
                    shares.append((cell[col], F(k) * prior[cell[col]]))
        tot = sum((v for _, v in shares), F(0))
        if tot > 0:
            for j, v in shares:
                post[j] += v / tot
    return post

# ------------------------------------------------------------------ Coq rendering

def coq_pipeline_expr(p, radii, case):
    kw = case["kw"]
    _, occf, blocks, tail = c03.coq_parts(p, radii)
    events = c03.coq_events(p, radii, bool(kw.get("normalize_windows", True)))
    eps = F(kw.get("epsilon", 0)).limit_denominator(1000)
    return "show_rows (pipeline %d %s %d (%s %s %s) (rows_of_events %d %s))" % (
        int(kw.get("n_iter", 0)), c03.qc(eps), p["n"], occf, blocks, tail, p["n_rows"], events)


def coq_direct_expr(case, guarded=True):
    def ql(xs):
        return "[" + "; ".join(c03.qc(F(x)) for x in xs) + "]"
    e = ql(case["post"])
    for occ in case["occs"]:
        wk = "[" + "; ".join("(%s, %s)" % (c03.nl(w), ql(k)) for w, k in zip(occ["windows"], occ["kernels"])) + "]"
        e = "(@em_update%s QcK %s %s %s %s %d (%d, %s))" % ("" if guarded else "_flat", e, c03.nl(case["indices"]),
                                                          c03.nl(case["indptr"]), ql(case["prior"]), case["n"], occ["target"], wk)
    return "map show %s" % e

# ------------------------------------------------------------------ judging

def close(a, b, rel=REL, ab=ABS):
    return abs(a - b) <= rel * max(abs(a), abs(b)) + ab


def judge_fit(ctx, case, res, model_val, stats):
    p = c03.plan_of(case)
    kw = case["kw"]
    n_iter, eps = int(kw.get("n_iter", 0)), F(kw.get("epsilon", 0)).limit_denominator(1000)
    ctx.count_case(case, nontrivial=c03.nontrivial(p), kind="%s:n_iter=%d:eps=%s" % (case["kind"], n_iter, float(eps)))
    if "error" in p:
        stats["degenerate"] += 1
        return None
    if "err" in res:
        ctx.report("implementation raised %s on a valid input: %s" % (res["err"], res.get("msg", "")),
                   {"stage": "oracle", "case": case, "actual": res})
        return None
    out = res["ok"]
    radii, _ = c03.expected_radii(p, out["radii"])
    occs = c03.occurrences(p, radii)
    if occs is None:
        stats["undefined"] += 1
        return None
    M0 = {}
    for row, per_block in occs:
        c03.occ_contrib(M0, p["n"], row, per_block, bool(kw.get("normalize_windows", True)))
    M0.pop("maxden", None)
    exact = not (p["kind"] == "timed" and any(b["kind"] != "flat" for b in p["blocks"])) and (
        n_iter <= 1 or sum(len(t) for t in c03.tokens_of(case)) <= 24)
    S, near = em_spec(M0, occs, p["n"], n_iter, eps, exact)
    got = {(r, c): v for r, c, v in out["triples"]}
    # consequences stated by the property (no tolerance games: float32 slack only)
    bad = [k for k, v in got.items() if not (-1e-6 <= v <= 1 + 1e-5)] if (n_iter > 0 or eps > 0) else []
    if bad:
        ctx.report("entry %s = %r outside [0, 1]" % (bad[0], got[bad[0]]), {"stage": "oracle", "case": case, "actual": out["triples"]})
        return None
    if n_iter > 0 or eps > 0:
        sums = {}
        for (r, c), v in got.items():
            sums[c] = sums.get(c, 0.0) + v
        for c, sv in sums.items():
            if sv > 1 + 1e-4 or (eps == 0 and abs(sv - 1) > 1e-4):
                ctx.report("column %d sums to %r (must be <= 1, = 1 for a non-empty column when epsilon = 0)" % (c, sv),
                           {"stage": "oracle", "case": case, "actual": out["triples"]})
                return None
    grown = [k for k in got if k not in M0]
    if grown:
        ctx.report("support grew beyond the n_iter=0 matrix: cell %s" % (grown[0],), {"stage": "oracle", "case": case, "actual": out["triples"]})
        return None
    if near:
        stats["near_threshold"] += 1       # a float32 pruning decision within 2e-4 of epsilon: outcome not judged
        return None
    d = None
    for key in sorted(set(S) | set(got)):
        e, g = float(S.get(key, 0)), got.get(key, 0.0)
        if not close(e, g):
            d = "cell %s: documented procedure gives %.9g, got %.9g" % (key, e, g)
            break
    if d is not None:
        ctx.report("matrix differs from normalise -> threshold -> (EM step -> normalise -> threshold)^%d with epsilon=%s: %s"
                   % (n_iter, float(eps), d),
                   {"stage": "oracle", "case": case, "expected": sorted([k[0], k[1], float(v)] for k, v in S.items()),
                    "actual": out["triples"]})
        return None
    stats["oracle_ok"] += 1
    if model_val is None:
        return None
    stats["corr"] += 1
    Mm = {(r, c): F(num, den) for r, row in enumerate(model_val) for (c, (num, den)) in row}
    if not exact:
        if set(Mm) != set(S) or any(not close(float(Mm[k]), float(S[k]), 1e-9, 1e-12) for k in Mm):
            return "model pipeline (Coq) and documented procedure (float64) differ: %s vs %s" % (str(Mm)[:200], str(S)[:200])
        return None
    if Mm != S:
        keys = [k for k in sorted(set(Mm) | set(S)) if Mm.get(k) != S.get(k)]
        if all(close(float(Mm.get(k, 0)), float(S.get(k, 0)), 1e-9, 1e-12) for k in keys) and p["kind"] == "timed":
            return None
        return "model pipeline (Coq) and documented procedure differ at %s: model %s, spec %s" % (keys[0], Mm.get(keys[0]), S.get(keys[0]))
    return None


def judge_direct(ctx, case, res, model_val, stats):
    ctx.count_case(case, nontrivial=bool(case["indices"]), kind="em_direct")
    S = direct_spec(case)
    if "err" in res:
        ctx.report("em_update_matrix raised %s: %s" % (res["err"], res.get("msg", "")), {"stage": "oracle", "case": case, "actual": res})
        return None
    got = res["ok"]
    for j, (e, g) in enumerate(zip(S, got)):
        if not close(float(e), g, 1e-9, 1e-12):
            row = max(i for i in range(len(case["indptr"]) - 1) if case["indptr"][i] <= j)
            ctx.report("em_update_matrix: posterior[%d] (row %d, column %d) = %.9g, the documented share is %.9g "
                       "(mass of an occurrence must stay in its own row)" % (j, row, case["indices"][j], g, float(e)),
                       {"stage": "oracle", "case": case, "expected": [float(x) for x in S], "actual": got})
            return None
    stats["direct_ok"] += 1
    if model_val is not None:
        stats["direct_corr"] += 1
        Mm = [F(a, b) for a, b in model_val]
        if Mm != S:
            return "model em_update (Coq) differs from the documented step: %s vs %s" % (Mm, S)
    return None


def eval_model(ctx, exprs, idx, shard=12):
    """vm_compute in parallel shards; exact rationals can blow up on a rare case, so a shard that exceeds its budget is
    re-run case by case and the slow cases are dropped from the in-Coq sample (counted in evidence)."""
    from concurrent.futures import ThreadPoolExecutor
    shards = [(idx[i:i + shard], exprs[i:i + shard]) for i in range(0, len(exprs), shard)]
    model, slow, errors = {}, [0], []

    def one(k):
        ii, ee = shards[k]
        try:
            return dict(zip(ii, C.coq_eval("C11_s%d" % k, HEADER, ee, timeout=45)))
        except RuntimeError:
            pass
        out = {}
        for j, (i, e1) in enumerate(zip(ii, ee)):
            try:
                out[i] = C.coq_eval("C11_s%d_%d" % (k, j), HEADER, [e1], timeout=10)[0]
            except RuntimeError as e:
                if "Error" in str(e)[-3000:]:
                    errors.append(str(e)[-1500:])
                slow[0] += 1
        return out
    with ThreadPoolExecutor(max_workers=8) as ex:
        for d in ex.map(one, range(len(shards))):
            model.update(d)
    if errors:
        ctx.report("model evaluation in Coq failed: %s" % errors[0], {"stage": "correspondence", "error": errors[0]}, found_input=False)
    return model, slow[0]


STAT_KEYS = ["degenerate", "undefined", "near_threshold", "oracle_ok", "corr", "direct_ok", "direct_corr"]


def run(ctx, replay=None):
    C.run_gate(ctx)
    n_fit = 220 if ctx.quick else 2500
    n_direct = 300 if ctx.quick else 3000
    n_model = 70 if ctx.quick else 500
    if replay:
        cases = [replay["case"]]
    else:
        cases = list(CORPUS) + [gen_fit_case(ctx.rng) for _ in range(n_fit)] + [gen_direct_case(ctx.rng) for _ in range(n_direct)]
    from concurrent.futures import ThreadPoolExecutor
    ex = ThreadPoolExecutor(max_workers=6)
    fit_idx = [i for i, c in enumerate(cases) if c["kind"] != "em_direct"]
    dir_idx = [i for i, c in enumerate(cases) if c["kind"] == "em_direct"]
    if ctx.quick and not replay:
        # compiled: the first n_iter > 0 case of each vectorizer kind (numba compiles build + EM drivers: ~1 min each)
        first = {}
        for j, i in enumerate(fit_idx):
            if int(cases[i]["kw"].get("n_iter", 0)) > 0:
                first.setdefault(cases[i]["kind"], j)
        order = sorted(first.values()) + [j for j in range(len(fit_idx)) if j not in first.values()]
        fit_idx = [fit_idx[j] for j in order]
        n_jit = len(first)
    else:
        n_jit = 120
    budget = c03.JIT_BUDGET_S[ctx.tier]
    jit_idx, futs = c03.start_compiled(ex, [cases[i] for i in fit_idx], n_jit, budget)
    f_dir = ex.submit(c03.delayed_impl, 0.5, [cases[i] for i in dir_idx], None, budget)   # em_update_matrix compiled
    impl, info = C.run_impl("c03", cases, {"NUMBA_DISABLE_JIT": "1"})
    if impl is None or len(impl) != len(cases):
        done = len(impl) if impl else 0
        ctx.report("implementation child died (rc=%s) on case %d: %s" % (info["rc"], done, info["tail"][-400:]),
                   {"stage": "impl-crash", "case": cases[done] if done < len(cases) else None}, found_input=True)
        impl = (impl or []) + [{"err": "crash"}] * (len(cases) - done)
    # model evaluation
    exprs, idx = [], []
    n_fit_model = 0
    for i, (c, r) in enumerate(zip(cases, impl)):
        if c["kind"] == "em_direct":
            if replay or len([1 for j in idx if cases[j]["kind"] == "em_direct"]) < (150 if ctx.quick else 1500):
                exprs.append(coq_direct_expr(c))
                idx.append(i)
            continue
        if n_fit_model >= n_model and not replay:
            continue
        p = c03.plan_of(c)
        if "error" in p or "ok" not in r:
            continue
        if p["kind"] == "timed" and p["delta_mean"] == 0 and any(b["kind"] != "flat" for b in p["blocks"]):
            continue
        if not replay and int(c["kw"].get("n_iter", 0)) >= 1 and (
                sum(len(t) for t in c03.tokens_of(c)) > 24 and int(c["kw"].get("n_iter", 0)) >= 2
                or p["kind"] == "timed" and any(b["kind"] != "flat" for b in p["blocks"])):
            continue       # exact rationals grow quickly (53-bit timed weights, long corpora): keep the in-Coq sample small
        radii, _ = c03.expected_radii(p, r["ok"]["radii"])
        exprs.append(coq_pipeline_expr(p, radii, c))
        idx.append(i)
        n_fit_model += 1
    import time
    t_coq = time.time()
    model, n_slow = eval_model(ctx, exprs, idx)
    t_coq = round(time.time() - t_coq, 1)
    jit, jit_info = c03.collect_compiled(jit_idx, futs)
    dres, dinfo = f_dir.result()
    ex.shutdown()
    for j, rj in sorted(jit.items()):
        i = fit_idx[j]
        if rj.get("err") == "crash":
            ctx.report("compiled-mode implementation child died: %s" % rj.get("msg", ""), {"stage": "impl-crash", "case": cases[i]})
            break
        if "ok" in rj:
            impl[i] = rj            # judge the compiled result where there is one
    mode_diffs = []
    if dinfo["rc"] == 124:          # budget exhausted: compare what was reached
        dres = dres or []
        for i, r in zip(dir_idx, dres):
            impl[i] = r
    elif dres is None or len(dres) != len(dir_idx):
        done = len(dres) if dres else 0
        ctx.report("compiled em_update_matrix child died (rc=%s) on direct case %d: %s" % (dinfo["rc"], done, dinfo["tail"][-300:]),
                   {"stage": "impl-crash", "case": cases[dir_idx[done]] if done < len(dir_idx) else None})
    else:
        for i, r in zip(dir_idx, dres):
            ri = impl[i]
            if ("ok" in r) != ("ok" in ri) or ("ok" in r and any(not close(a, b, 1e-12, 1e-15) for a, b in zip(r["ok"], ri["ok"]))):
                mode_diffs.append(("em_update_matrix: compiled and interpreted execution differ: %s vs %s" % (str(r)[:200], str(ri)[:200]),
                                   {"stage": "oracle", "case": cases[i], "compiled": r, "interpreted": ri}))
            impl[i] = r
    ctx.coverage["modes"] = {"NUMBA_DISABLE_JIT=1": len(impl), "compiled_fit": len(jit), "compiled_em_direct": len(dres or []),
                             "compiled_wall_s": {k: v["wall_s"] for k, v in jit_info.items()},
                             "compiled_budget_exhausted": sorted(k for k, v in jit_info.items() if v["rc"] == 124) + (["em_direct"] if dinfo["rc"] == 124 else []),
                             "interpreted_wall_s": info["wall_s"], "coq_eval_wall_s": t_coq, "coq_cases_dropped_as_slow": n_slow,
                             "em_direct_compiled_wall_s": dinfo["wall_s"]}
    stats = {k: 0 for k in STAT_KEYS}
    corr_bad = []
    for i, (c, r) in enumerate(zip(cases, impl)):
        d = (judge_direct if c["kind"] == "em_direct" else judge_fit)(ctx, c, r, model.get(i), stats)
        if d is not None:
            corr_bad.append((c, d))
    for what, rep in mode_diffs[:3]:          # after the property-level reports
        ctx.report(what, rep)
    ctx.coverage["rule"] = ("whole fit_transform (4 vectorizers) x n_iter 0-3 x epsilon {0,.05,.2,.5}: 45% corpora of increasing "
                            "token runs (a pruned largest-column cell that a later iteration looks up while the next row starts "
                            "with that column), the rest random C03-style cases; em_update_matrix called directly on random CSR "
                            "priors/windows/kernels (60% with the next row starting at an absent, larger column); "
                            "non-trivial = some document with >= 2 tokens / non-empty CSR; distinct by case hash")
    ctx.coverage["correspondence"] = {"pipeline_cases": stats["corr"], "em_update_cases": stats["direct_corr"],
                                      "disagreements": len(corr_bad),
                                      "model": "Model/K04_EM.v on Qc via vm_compute (pipeline over the K3 event list; em_update)"}
    ctx.coverage["oracle"] = {"fit_cases": stats["oracle_ok"], "em_update_cases": stats["direct_ok"],
                              "near_threshold_not_judged": stats["near_threshold"], "degenerate": stats["degenerate"],
                              "undefined_mean_gap_0": stats["undefined"]}
    ctx.coverage["traces_validated_against_impl"] = stats["corr"] + stats["direct_corr"]
    ctx.assumptions += ["float32 storage of the matrix (2e-5 relative + 1e-7 absolute); a pruning decision whose value is within "
                        "2e-4 (relative) of epsilon is not judged (float32 vs exact comparison is discontinuous there)",
                        "em_update_matrix direct calls use dyadic float64 inputs: 1e-9 relative",
                        "values are non-negative (kernels, mix weights, counts), so |x| = x in the L1 normalisation",
                        "n_threads = 1; dask chunking is C04's"]
    if corr_bad and not any(v["found_input"] for v in ctx.violations):
        c, d = corr_bad[0]
        ctx.report("model K04 and documented procedure / implementation disagree (no property-level failure found): " + d,
                   {"stage": "correspondence", "correspondence": "Model/K04_EM.v <-> em_update_matrix / _build_token_cooccurrence_matrix",
                    "case": c}, found_input=False)
    C.gate_violation(ctx)
    return ctx.finish("proof")
