"""Implementation side of C07: runs vectorizers.linear_optimal_transport.transport_plan (kind "direct") and the plan
computed inside lot_vectors_dense_internal / lot_vectors_sparse_internal (kinds "dense" / "sparse") on JSON cases.

How the plan is observed inside the lot_vectors_*_internal kernels (they return only raw LOT vectors): the n support
points are the unit vectors e_i of R^(2n) and reference point j is (0_n, C[:, j]); the metric handed to the kernel is
the symmetric bilinear form  swapdot(x, y) = sum_k x[k]*y[n+k] + y[k]*x[n+k]  so that metric(e_i, ref_j) = C[i, j]
exactly (the kernel stores costs as float32: the parent generates float32-representable costs for these kinds).  With
spherical_vectors=False the kernel returns (plan * (1/q)).T @ E - ref, whose first n coordinates of block j are
plan[:, j] * (1/q[j]) and whose last n coordinates are -C[:, j].  JSON floats round-trip exactly (repr)."""
import json, sys, traceback, warnings
warnings.filterwarnings("ignore")
import numpy as np
import numba
from vectorizers.linear_optimal_transport import (transport_plan, lot_vectors_dense_internal,
                                                   lot_vectors_sparse_internal)


@numba.njit(fastmath=False)
def swapdot(x, y):
    h = x.shape[0] // 2
    s = 0.0
    for k in range(h):
        s += x[k] * y[h + k] + y[k] * x[h + k]
    return s


def embed(case):
    C = np.asarray(case["C"], dtype=np.float64)
    n, m = C.shape
    E = np.zeros((n, 2 * n))
    E[np.arange(n), np.arange(n)] = 1.0
    ref = np.zeros((m, 2 * n))
    ref[:, n:] = C.T
    return C, n, m, E, ref


def unpack(out, n, m, q):
    out = np.asarray(out).reshape(m, 2 * n)
    scaled = out[:, :n].T          # [i, j] = plan[i, j] * (1 / q[j])
    negC = out[:, n:].T            # [i, j] = -C[i, j]
    return {"scaled": scaled.tolist(), "negC": negC.tolist()}


def run(case):
    kind = case["kind"]
    if kind == "direct":
        p = np.asarray(case["p"], dtype=np.float64)
        q = np.asarray(case["q"], dtype=np.float64)
        C = np.asarray(case["C"], dtype=np.float64)
        if case.get("layout") == "F":
            C = np.asfortranarray(C)
        elif case.get("layout") == "T":          # a transposed view, as the kernels pass when n <= m
            C = np.ascontiguousarray(C.T).T
        X = transport_plan(p, q, C)
        return {"X": np.asarray(X).tolist()}
    C, n, m, E, ref = embed(case)
    w = np.asarray(case["p"], dtype=np.float64).copy()     # weights; the kernel normalises them itself
    q = np.asarray(case["q"], dtype=np.float64).copy()
    mds = int(case.get("max_distribution_size", 256))
    if kind == "dense":
        vs = numba.typed.List.empty_list(numba.float64[:, :])
        ds = numba.typed.List.empty_list(numba.float64[:])
        vs.append(np.ascontiguousarray(E))
        ds.append(w)
        out = lot_vectors_dense_internal(vs, ds, ref, q, metric=swapdot, max_distribution_size=mds,
                                         chunk_size=256, spherical_vectors=False)
    else:
        indptr = np.array([0, n], dtype=np.int32)
        indices = np.arange(n, dtype=np.int32)
        out = lot_vectors_sparse_internal(indptr, indices, w, E, ref, q, metric=swapdot, max_distribution_size=mds,
                                          chunk_size=256, spherical_vectors=False)
    return unpack(out[0], n, m, q)


cases = json.load(open(sys.argv[1]))
res = []
for c in cases:
    try:
        res.append(run(c))
    except Exception as e:
        res.append({"err": type(e).__name__, "msg": str(e)[:300], "tb": traceback.format_exc()[-600:]})
    if len(res) % 50 == 0:
        json.dump(res, open(sys.argv[2], "w"))
json.dump(res, open(sys.argv[2], "w"))
