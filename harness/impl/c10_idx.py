"""Implementation side of the index-level part of C10: direct calls of coo_utils.em_update_matrix,
_window_kernels.window_at_index, flat/harmonic/geometric_kernel and fixed/variable_window_radii on the given inputs.
One process per execution mode (compiled, NUMBA_BOUNDSCHECK=1, NUMBA_DISABLE_JIT=1).  JSON in, JSON out."""
import json
import sys
import traceback

import numpy as np


def kernel_fn(name):
    from vectorizers import _window_kernels as wk
    return {"flat": wk.flat_kernel, "harmonic": wk.harmonic_kernel, "geometric": wk.geometric_kernel}[name]


def call_kernel(case, window):
    fn = kernel_fn(case["kernel"])
    mask = None if case.get("mask") is None else np.int32(case["mask"])
    args = (window, mask, bool(case["normalize"]), int(case["offset"]))
    if case["kernel"] == "geometric":
        args += (float(case["power"]),)
    return [float(x) for x in fn(*args)]


def run_em(case):
    from vectorizers.coo_utils import em_update_matrix
    import numba
    post = np.asarray(case["post"], dtype=np.float64)
    indices = np.asarray(case["indices"], dtype=np.int32)
    indptr = np.asarray(case["indptr"], dtype=np.int32)
    prior = np.asarray(case["prior"], dtype=np.float64)
    for occ in case["occs"]:
        windows = numba.typed.List([np.asarray(w, dtype=np.int64) for w in occ["windows"]])
        kernels = numba.typed.List([np.asarray(k, dtype=np.float64) for k in occ["kernels"]])
        post = em_update_matrix(post, indices, indptr, prior, int(case["n"]), int(occ["target"]), windows, kernels)
    return [float(x) for x in post]


class AppendLog:
    """Interpreted mode only: records the tuples (row, col, val, key) of every coo_append call of the token driver."""
    def __init__(self):
        import vectorizers.token_cooccurrence_vectorizer as mod
        self.mod, self.log = mod, []

    def __enter__(self):
        self.orig = self.mod.coo_append

        def rec(coo, tup):
            self.log.append([int(tup[0]), int(tup[1]), float(tup[2]), int(tup[3])])
            return self.orig(coo, tup)
        self.mod.coo_append = rec
        return self

    def __exit__(self, *a):
        self.mod.coo_append = self.orig


def run_driver(case):
    """numba_build_skip_grams called directly, with the argument types the vectorizer passes."""
    import os
    import numba
    from vectorizers.token_cooccurrence_vectorizer import numba_build_skip_grams
    interpreted = os.environ.get("NUMBA_DISABLE_JIT") == "1"
    if not interpreted and not case.get("jit"):
        return {"skip": True}        # one compilation per tuple type: only the `jit` family runs compiled
    blocks = case["blocks"]
    seqs = numba.typed.List([np.asarray(d, dtype=np.int64) for d in case["docs"]])
    wsa = np.asarray([b["radii"] for b in blocks], dtype=np.int64)
    revs = np.asarray([b["rev"] for b in blocks], dtype=bool)
    kfs = tuple(kernel_fn(case["kernel"]) for _ in blocks)
    kargs = numba.typed.List([])
    for b in blocks:
        t = (None if b["mask"] is None else np.int32(b["mask"]), bool(b["normalize"]), int(b["offset"]))
        if case["kernel"] == "geometric":
            t += (float(case["power"]),)
        kargs.append(t)
    mix = np.asarray([b["mix"] for b in blocks], dtype=np.float64)
    sizes = np.asarray(case["array_lengths"], dtype=np.int64)
    args = (seqs, wsa, revs, kfs, kargs, mix, bool(case["nw"]), int(case["n"]), sizes)
    log = None
    if interpreted:
        with AppendLog() as L:
            coo = numba_build_skip_grams(*args)
        log = L.log
    else:
        coo = numba_build_skip_grams(*args)
    out = {"coo": [[[int(c.row[k]), int(c.col[k]), float(c.val[k]), int(c.key[k])] for k in range(int(c.ind[0]))] for c in coo]}
    if log is not None:
        out["log"] = log
    return out


def run(case):
    from vectorizers import _window_kernels as wk
    kind = case["kind"]
    if kind == "drv":
        return run_driver(case)
    if kind == "em":
        return run_em(case)
    if kind == "win":
        w = wk.window_at_index(np.asarray(case["s"], dtype=np.int64), int(case["R"]), int(case["p"]), bool(case["reverse"]))
        return [int(x) for x in w]
    if kind == "wk":      # the kernel is applied to the view window_at_index returns, as in the drivers
        w = wk.window_at_index(np.asarray(case["s"], dtype=np.int64), int(case["R"]), int(case["p"]), bool(case["reverse"]))
        return {"window": [int(x) for x in w], "kernel": call_kernel(case, w)}
    if kind == "ker":
        return call_kernel(case, np.asarray(case["win"], dtype=np.int64))
    if kind == "radii":
        freq = np.asarray(case["freq"], dtype=np.float64)
        mask = None if case.get("mask") is None else np.int32(case["mask"])
        if case["fn"] == "fixed":
            r = wk.fixed_window_radii(int(case["R"]), freq, mask)
        else:
            r = wk.variable_window_radii(int(case["R"]), freq, mask, float(case["power"]))
        return [int(x) for x in r]
    raise ValueError("unknown kind %r" % kind)


def main():
    cases = json.load(open(sys.argv[1]))
    res = []
    for c in cases:
        try:
            res.append({"ok": run(c)})
        except Exception as e:
            res.append({"err": type(e).__name__, "msg": str(e)[:300], "tb": traceback.format_exc()[-600:]})
        if len(res) % 50 == 0:
            json.dump(res, open(sys.argv[2], "w"))
    json.dump(res, open(sys.argv[2], "w"))


if __name__ == "__main__":
    main()
