"""Implementation side of the co-occurrence / NgramVectorizer part of C01 (harness/c01.py, Properties/C01_cooc.v,
C01_ngram_mask.v): a zoo estimator is fitted on X, then transform is applied to
  X2                      (unseen tokens, tokens pruned at fit, empty / short items),
  X2 with every token outside the fitted vocabulary deleted          (no mask_string: C01_cooc_strip_unseen), or
  X2 with every such token replaced by the mask string itself        (mask_string set: C01_cooc_mask_unseen),
  a corpus made of unseen tokens only                                (C01_cooc_all_unseen),
and the outputs come back as canonical sparse triples together with the fitted sizes."""
import copy
import json
import os
import sys
import traceback
import warnings

warnings.filterwarnings("ignore")
sys.path.insert(0, os.path.dirname(os.path.abspath(__file__)))
import zoo

UNSEEN = "zz"


def exc(e):
    return {"err": type(e).__name__, "msg": str(e)[:300], "tb": traceback.format_exc()[-700:]}


def relabel(name, X, f):
    """Apply f : token -> token | None (None = delete) to every token of X, keeping the container structure."""
    if name == "TimedTokenCooccurrenceVectorizer":
        return [[(f(t), s) for (t, s) in d if f(t) is not None] for d in X]
    if name == "MultiSetCooccurrenceVectorizer":
        return [[[f(t) for t in ms if f(t) is not None] for ms in d] for d in X]
    return [[f(t) for t in d if f(t) is not None] for d in X]


def all_unseen(name):
    if name == "TimedTokenCooccurrenceVectorizer":
        return [[(UNSEEN, 1.0), (UNSEEN, 2.5)], [(UNSEEN, 1.0), ("yy", 4.0), (UNSEEN, 4.5)]]
    if name == "MultiSetCooccurrenceVectorizer":
        return [[[UNSEEN, "yy"], [UNSEEN]], [[UNSEEN]]]
    return [[UNSEEN, "yy", UNSEEN], [UNSEEN]]


def run(name, seed):
    c = zoo.build(name, seed)
    out = c.describe()
    dc = copy.deepcopy
    est = c.make()
    try:
        A = est.fit_transform(dc(c.X))
    except Exception as e:
        out["fit_transform"] = exc(e)
        return out
    out["fit_transform"] = zoo.canon(A)
    tokdict = getattr(est, "token_label_dictionary_", None)
    if tokdict is None:
        tokdict = est._token_dictionary_
    mask = c.params.get("mask_string")
    out["n_dict"] = len(tokdict)
    out["mask_is_last"] = (mask is None) or (tokdict.get(mask) == len(tokdict) - 1)
    out["n_columns"] = len(est.column_label_dictionary_)
    out["n_items"] = len(c.X2)
    if hasattr(est, "ngram_label_dictionary_"):
        out["n_rows_fitted"] = len(est.ngram_label_dictionary_)
    orient = c.params.get("window_orientations")
    if orient is not None:
        orient = orient if isinstance(orient, list) else [orient]
        out["n_blocks"] = sum(2 if o == "directional" else 1 for o in orient)
    vocab = set(tokdict.keys())
    try:
        out["transform_x2"] = zoo.canon(est.transform(dc(c.X2)))
    except Exception as e:
        out["transform_x2"] = exc(e)
    if mask is None:
        X2s = relabel(name, c.X2, lambda t: t if t in vocab else None)
        out["variant"] = "tokens outside the vocabulary deleted"
    else:
        X2s = relabel(name, c.X2, lambda t: t if t in vocab else mask)
        out["variant"] = "tokens outside the vocabulary replaced by the mask string"
    out["n_unseen_tokens"] = sum(1 for t in json.dumps(c.X2).split('"') if t == UNSEEN)
    # a multiset emptied by the deletion is not an input the vectorizer is documented to accept: compare only otherwise
    if name == "MultiSetCooccurrenceVectorizer" and any(len(ms) == 0 for d in X2s for ms in d):
        out["variant_skipped"] = "deleting the unseen tokens empties a multiset"
    else:
        try:
            out["transform_variant"] = zoo.canon(est.transform(dc(X2s)))
        except Exception as e:
            out["transform_variant"] = exc(e)
    try:
        out["transform_all_unseen"] = zoo.canon(est.transform(all_unseen(name)))
        out["n_items_all_unseen"] = len(all_unseen(name))
    except Exception as e:
        out["transform_all_unseen"] = exc(e)
    out["exact"], out["rtol"], out["rowwise"] = c.exact, c.rtol, c.rowwise
    return out


cases = json.load(open(sys.argv[1]))
res = []
for name, seed in cases:
    try:
        res.append(run(name, seed))
    except Exception as e:
        res.append({"estimator": name, "seed": seed, "harness_error": True, "err": type(e).__name__, "msg": str(e)[:300],
                    "tb": traceback.format_exc()[-1200:]})
    if len(res) % 20 == 0:
        json.dump(res, open(sys.argv[2], "w"))
json.dump(res, open(sys.argv[2], "w"))
