"""Implementation side of C16: LZCompressionVectorizer, hashed and un-hashed.  Strings travel as lists of code points."""
import json, sys, traceback, warnings
warnings.filterwarnings("ignore")
import numpy as np
from sklearn.utils.validation import check_random_state
from vectorizers import LZCompressionVectorizer
from vectorizers.mixed_gram_vectorizer import make_hash, MAX_INT32


def S(cps):
    return "".join(chr(c) for c in cps)


def U(s):
    return [ord(c) for c in s]


def mat(m):
    m = m.tocsr()
    rows = []
    for i in range(m.shape[0]):
        lo, hi = m.indptr[i], m.indptr[i + 1]
        cells = [(int(j), float(v)) for j, v in zip(m.indices[lo:hi], m.data[lo:hi])]
        rows.append([[j, int(v)] if v == int(v) else [j, v] for j, v in cells])
    return {"shape": [int(m.shape[0]), int(m.shape[1])], "rows": rows, "dtype": str(m.dtype)}


def guarded(f):
    try:
        return {"ok": f()}
    except Exception as e:
        return {"err": type(e).__name__, "msg": str(e)[:200], "tb": traceback.format_exc()[-500:]}


def substrings(strs):
    out = {()}
    for s in strs:
        for i in range(len(s)):
            for j in range(i + 1, len(s) + 1):
                out.add(tuple(s[i:j]))
    return sorted(out)


def fit_and_transform(case, max_columns, base, hashed):
    X = [S(s) for s in case["X"]]
    Xn = [S(s) for s in case["Xnew"]]
    m = LZCompressionVectorizer(max_dict_size=case["cap"], max_columns=max_columns, base_dictionary=base,
                                random_state=case["seed"])
    if case.get("prehistory"):
        # the estimator object has a past: an earlier fit on other strings and earlier transforms, so that anything the
        # object remembers across fits (caches, column numbering) shows up in the measured calls below
        try:
            past = [s[::-1] + "q" for s in (Xn + X)] + ["qq"]
            m.fit_transform(past)
            m.transform(X + Xn)
            m.transform(past)
        except Exception:  # noqa
            pass
    out = {"fit_transform": guarded(lambda: mat(m.fit_transform(X)))}
    if "ok" not in out["fit_transform"]:
        return out
    cd = m.column_label_dictionary_
    out["columns"] = [[int(k) if hashed else U(k), int(v)] for k, v in cd.items()]
    out["transform_train"] = guarded(lambda: mat(m.transform(X)))
    if Xn:
        out["transform_new"] = guarded(lambda: mat(m.transform(Xn)))
        out["transform_new_reversed"] = guarded(lambda: mat(m.transform(Xn[::-1])))
        out["transform_new_single"] = guarded(lambda: [mat(m.transform([s]))["rows"][0] for s in Xn[:4]])
    if hashed:
        hf = m.hash_function_
        out["hashes"] = [[list(p), int(hf(S(p)))] for p in substrings(case["X"] + case["Xnew"] + [b[0] for b in case["base"]])]
    return out


def run(case):
    mc = case["max_columns"]
    base_u = {S(p): int(v) for p, v in case["base"]} if case["base"] else None
    out = {}
    if mc is None:
        out["plain"] = fit_and_transform(case, None, base_u, False)
        return out
    seed = int(check_random_state(case["seed"]).randint(MAX_INT32))
    out["seed"] = seed
    base_h = None
    if case["base"]:
        if mc > 1:
            hf = make_hash(mc, int(seed))
            items = [[int(hf(S(p))), int(v)] for p, v in case["base"]]
        else:
            items = [[0, int(v)] for p, v in case["base"]]
        base_h = {}
        for k, v in items:
            base_h[k] = v
        out["base_h"] = [[k, v] for k, v in base_h.items()]
    out["hashed"] = fit_and_transform(case, mc, base_h, True)
    if case.get("twin", True):
        out["plain"] = fit_and_transform(case, None, base_u, False)
    return out


cases = json.load(open(sys.argv[1]))
res = []
for c in cases:
    try:
        res.append(run(c))
    except Exception as e:
        res.append({"err": type(e).__name__, "msg": str(e)[:300], "tb": traceback.format_exc()[-600:]})
    if len(res) % 20 == 0:
        json.dump(res, open(sys.argv[2], "w"))
json.dump(res, open(sys.argv[2], "w"))
