"""Implementation side of the model-level correspondence of C02 (harness/c02.py): NgramVectorizer and
TokenCooccurrenceVectorizer on integer tokens; the three pipelines (fit_transform(X), fit(X) then transform(X), and
transform(X2) with the same fitted estimator) are run separately and returned as canonical sparse triples."""
import copy
import json
import sys
import warnings

warnings.filterwarnings("ignore")
import numpy as np
import vectorizers as V


def canon(M):
    o = M.tocoo()
    o.sum_duplicates()
    return {"shape": [int(s) for s in M.shape],
            "triples": sorted([int(i), int(j), float(v)] for i, j, v in zip(o.row, o.col, o.data) if v != 0)}


def attempt(f):
    try:
        return f()
    except Exception as e:  # the class is compared with the model's error code
        return {"err": type(e).__name__, "msg": str(e)[:200]}


def run(case):
    cls = V.NgramVectorizer if case["kind"] == "ngram" else V.TokenCooccurrenceVectorizer
    kw = dict(case["params"])
    X, X2 = case["X"], case["X2"]
    dc = copy.deepcopy
    out = {}
    e1 = cls(**dc(kw))
    out["fit_transform"] = attempt(lambda: canon(e1.fit_transform(dc(X))))
    e2 = cls(**dc(kw))
    fitted = attempt(lambda: e2.fit(dc(X)))
    if isinstance(fitted, dict):
        out["fit"] = fitted
        return out
    out["fit_returns_self"] = fitted is e2
    if case["kind"] == "ngram":
        out["fit"] = canon(e2._train_matrix)
        out["token_dictionary"] = sorted([int(k), int(v)] for k, v in e2._token_dictionary_.items())
        out["n_columns"] = len(e2.column_label_dictionary_)
    else:
        out["fit"] = canon(e2.cooccurrences_)
        out["token_dictionary"] = sorted([int(k), int(v)] for k, v in e2.token_label_dictionary_.items())
    out["transform_X"] = attempt(lambda: canon(e2.transform(dc(X))))
    out["transform_X2"] = attempt(lambda: canon(e2.transform(dc(X2))))
    return out


cases = json.load(open(sys.argv[1]))
res = []
for c in cases:
    try:
        res.append(run(c))
    except Exception as e:
        res.append({"harness_error": type(e).__name__ + ": " + str(e)[:300]})
    if len(res) % 10 == 0:
        json.dump(res, open(sys.argv[2], "w"))
json.dump(res, open(sys.argv[2], "w"))
