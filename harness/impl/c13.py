"""Implementation side of C13: side effects, repeatability, leftovers, for every public estimator.

JSON in: {"jobs": [[estimator_name, seed], ...], "tmpdir": <private empty dir>}   (TMPDIR is set by the parent)
JSON out: one record per job: {"est", "seed", "desc", "calls", "raised", "aliases", "violations": [{kind, detail}], "error"}.

For one job (a scenario drawn deterministically from (estimator, seed)):
  1. build the constructor parameter objects and the data; snapshot EVERY caller-owned object;
  2. [optional fault stage] a fit made to raise part-way (blockwise Wasserstein fit with a fault injected into the k-th
     block, an invalid reference distribution, a generator that raises), checked like every other call;
  3. fit (or fit_transform); then a random history of transform calls over a pool of persistent caller objects,
     possibly containing a poisoned input that raises;
  after EVERY call (returning or raising): all snapshots are compared (array level incl. dtype; sparse: format, data,
  indices/indptr order, explicit zeros; dict contents; lists of lists; lil rows), TMPDIR and cachedir are listed;
  4. every history output is compared with the output of a single transform on a freshly constructed and fitted
     estimator (fresh copies of parameters and data), exceptions by class;
  5. the public fitted attributes of the two fits (same integer random_state where there is one) are compared to 1e-9.
"""
import copy, json, os, sys, tempfile, traceback, types, warnings, zlib
warnings.filterwarnings("ignore")
import numpy as np
import scipy.sparse as sp
import pandas as pd
import numba
import vectorizers as V
import vectorizers.transformers as T
import vectorizers.linear_optimal_transport as LOT

RTOL, ATOL = 1e-9, 1e-12


# ------------------------------------------------------------------ snapshots of caller-owned objects
def snap(o, depth=0):
    if depth > 8:
        return ("deep",)
    if o is None or isinstance(o, (bool, int, float, str, bytes, complex)):
        return ("v", repr(o))
    if isinstance(o, np.generic):
        return ("npv", o.dtype.str, repr(o.item()))
    if isinstance(o, np.ndarray):
        if o.dtype == object:
            return ("ndo", o.shape, [snap(x, depth + 1) for x in o.ravel().tolist()])
        return ("nd", o.dtype.str, o.shape, o.tobytes())
    if sp.issparse(o):
        f = o.format
        head = ("sp", f, o.shape, o.dtype.str)
        if f in ("csr", "csc", "bsr"):
            return head + (snap(o.data), snap(o.indices), snap(o.indptr))
        if f == "coo":
            return head + (snap(o.data), snap(o.row), snap(o.col))
        if f == "lil":
            return head + ([list(r) for r in o.rows], [list(map(repr, r)) for r in o.data])
        if f == "dia":
            return head + (snap(o.data), snap(o.offsets))
        if f == "dok":
            return head + (sorted((k, repr(v)) for k, v in o.items()),)
        return head + (snap(o.tocoo()),)
    if isinstance(o, dict):
        return ("dict", sorted(((repr(k), snap(v, depth + 1)) for k, v in o.items())))
    if isinstance(o, (list, tuple, numba.typed.List)):
        return ("seq", type(o).__name__, [snap(x, depth + 1) for x in o])
    if isinstance(o, (set, frozenset)):
        return ("set", sorted(repr(x) for x in o))
    if isinstance(o, pd.DataFrame):
        return ("df", list(map(repr, o.columns)), snap(o.index.to_numpy()), [snap(o[c].to_numpy(), depth + 1) for c in o.columns])
    if isinstance(o, pd.Series):
        return ("ser", repr(o.name), snap(o.index.to_numpy()), snap(o.to_numpy(), depth + 1))
    if isinstance(o, types.GeneratorType):
        return ("gen",)                       # consumed by design; not comparable
    return ("obj", type(o).__name__)


def diff_where(a, b, path=""):
    """first place where two snapshots differ (for the report)"""
    if type(a) != type(b):
        return path + ": type"
    if isinstance(a, tuple) and len(a) == 4 and a[0] == "nd" and isinstance(b, tuple) and len(b) == 4 and b[0] == "nd":
        if a[1:3] != b[1:3]:
            return path + ": array %s%s -> %s%s" % (a[1], a[2], b[1], b[2])
        x, y = np.frombuffer(a[3], dtype=a[1]), np.frombuffer(b[3], dtype=b[1])
        i = int(np.flatnonzero(x != y)[0]) if x.dtype.kind != "V" and np.any(x != y) else 0
        return path + ": array%s flat index %d: %r -> %r (%d entries differ)" % (a[2], i, x[i].item(), y[i].item(), int(np.sum(x != y)))
    if isinstance(a, (tuple, list)):
        if len(a) != len(b):
            return path + ": length %d -> %d" % (len(a), len(b))
        for i, (x, y) in enumerate(zip(a, b)):
            if x != y:
                return diff_where(x, y, path + "/%d" % i)
        return path
    return path + ": %s -> %s" % (str(a)[:60], str(b)[:60])


# ------------------------------------------------------------------ canonical outputs
def canon(o):
    if isinstance(o, Exception):
        return ("exc", type(o).__name__)
    if o is None:
        return ("none",)
    if sp.issparse(o):
        return ("arr", np.asarray(o.todense(), dtype=np.float64))
    if isinstance(o, np.ndarray):
        if o.dtype == object:
            return ("seq", [canon(x) for x in o.tolist()])
        if o.dtype.kind in "biuf":
            return ("arr", np.asarray(o, dtype=np.float64))
        return ("val", repr(o.tolist()))
    if isinstance(o, (list, tuple, numba.typed.List)):
        return ("seq", [canon(x) for x in o])
    if isinstance(o, numba.typed.Dict):
        o = dict(o)
    if isinstance(o, dict):
        return ("seq", [("val", repr(k)) for k in sorted(o, key=repr)] + [canon(o[k]) for k in sorted(o, key=repr)])
    if isinstance(o, (pd.DataFrame, pd.Series)):
        return canon(o.to_numpy())
    if isinstance(o, (int, float, np.generic)) and not isinstance(o, (bool, str)):
        try:
            return ("arr", np.asarray(o, dtype=np.float64))
        except Exception:
            return ("val", repr(o))
    return ("val", repr(o))


def same(a, b):
    if a[0] != b[0]:
        return False
    if a[0] == "arr":
        return a[1].shape == b[1].shape and bool(np.allclose(a[1], b[1], rtol=RTOL, atol=ATOL, equal_nan=True))
    if a[0] == "seq":
        return len(a[1]) == len(b[1]) and all(same(x, y) for x, y in zip(a[1], b[1]))
    return a == b


def brief(c):
    if c[0] == "arr":
        return "array%s %s" % (c[1].shape, np.array2string(c[1].ravel()[:6], precision=6))
    if c[0] == "seq":
        return "seq[%d] %s" % (len(c[1]), brief(c[1][0]) if c[1] else "")
    return str(c)[:80]


# ------------------------------------------------------------------ scenarios
class Scenario:
    """params(): fresh constructor kwargs; fit_data(): fresh (X, kwargs); pool: list of factories of fresh (X, kwargs)
    for transform; poison: optional factory of an input meant to make transform raise; seeded: takes random_state;
    claim_seed: False for estimators documented as random without a seed."""
    def __init__(self, cls, desc, params, fit_data, pool, poison=None, seeded=False, claim_seed=True,
                 has_transform=True, fault=None, fit_transform_only=False, compare_attrs=True):
        self.cls, self.desc, self.params, self.fit_data, self.pool = cls, desc, params, fit_data, pool
        self.poison, self.seeded, self.claim_seed, self.has_transform = poison, seeded, claim_seed, has_transform
        self.fault, self.fit_transform_only, self.compare_attrs = fault, fit_transform_only, compare_attrs


def freeze(obj):
    """factory returning a fresh deep copy of obj each time"""
    return lambda: copy.deepcopy(obj)


VOC = ["a", "b", "c", "d", "e", "f"]


def docs(rng, n=None, voc=VOC, maxlen=9, minlen=0, extra=None):
    n = n or rng.randint(3, 7)
    v = list(voc) + ([extra] if extra else [])
    return [[v[rng.randint(len(v))] for _ in range(rng.randint(minlen, maxlen + 1))] for _ in range(n)]


def token_common(rng):
    kw = {}
    r = rng.rand()
    if r < 0.35:
        sub = [VOC[i] for i in rng.permutation(len(VOC))[: rng.randint(2, len(VOC) + 1)]]
        kw["token_dictionary"] = {t: i for i, t in enumerate(sub)}
    elif r < 0.5:
        kw["min_occurrences"] = 2
    if rng.rand() < 0.5:
        kw["mask_string"] = "[MASK]"
        if rng.rand() < 0.4 and "token_dictionary" not in kw:
            kw["nullify_mask"] = True
    return kw


def sc_token(rng):
    kw = token_common(rng)
    kw.update(window_radii=int(rng.randint(1, 4)), kernel_functions=str(rng.choice(["flat", "harmonic", "geometric"])),
              window_orientations=str(rng.choice(["before", "after", "directional"])),
              normalize_windows=bool(rng.rand() < 0.5), n_iter=int(rng.choice([0, 0, 1])))
    D = docs(rng, minlen=1)
    pool = [freeze(docs(rng, minlen=1)), freeze(docs(rng, n=2, minlen=1, extra="zz")), freeze(D[:2])]
    return Scenario(V.TokenCooccurrenceVectorizer, "TokenCooccurrenceVectorizer(%r)" % kw, freeze(kw), freeze((D, {})),
                    [(lambda f=f: (f(), {})) for f in pool], poison=lambda: ([["a", "b"], ["a", 3.5, None]], {}))


def timed(rng, D):
    out = []
    for d in D:
        t = np.cumsum(rng.rand(len(d)) + 0.1)
        out.append([(tok, float(tt)) for tok, tt in zip(d, t)])
    return out


def sc_timed(rng):
    kw = token_common(rng)
    kw.update(window_radii=float(rng.choice([0.5, 1.0, 2.0])), kernel_functions=str(rng.choice(["flat", "geometric"])),
              window_orientations=str(rng.choice(["before", "after", "directional"])),
              normalize_windows=bool(rng.rand() < 0.5))
    D = timed(rng, docs(rng, minlen=2))
    pool = [freeze(timed(rng, docs(rng, minlen=2))), freeze(timed(rng, docs(rng, n=2, minlen=2, extra="zz"))), freeze(D[:2])]
    return Scenario(V.TimedTokenCooccurrenceVectorizer, "TimedTokenCooccurrenceVectorizer(%r)" % kw, freeze(kw),
                    freeze((D, {})), [(lambda f=f: (f(), {})) for f in pool])


def sc_ngramcooc(rng):
    kw = token_common(rng)
    kw.pop("nullify_mask", None)
    kw.update(ngram_size=int(rng.choice([1, 2])), window_radii=int(rng.randint(1, 3)),
              window_orientations=str(rng.choice(["before", "after", "directional"])))
    D = docs(rng, minlen=3)
    pool = [freeze(docs(rng, minlen=3)), freeze(D[:2])]
    return Scenario(V.NgramCooccurrenceVectorizer, "NgramCooccurrenceVectorizer(%r)" % kw, freeze(kw), freeze((D, {})),
                    [(lambda f=f: (f(), {})) for f in pool])


def multisets(rng, n=None, extra=None):
    n = n or rng.randint(3, 6)
    v = VOC + ([extra] if extra else [])
    return [[[v[rng.randint(len(v))] for _ in range(rng.randint(1, 4))] for _ in range(rng.randint(2, 6))] for _ in range(n)]


def sc_multiset(rng):
    kw = token_common(rng)
    kw.update(window_radii=int(rng.randint(1, 3)), kernel_functions=str(rng.choice(["flat", "geometric"])),
              window_orientations=str(rng.choice(["before", "after", "directional"])),
              normalize_windows=bool(rng.rand() < 0.5))
    D = multisets(rng)
    pool = [freeze(multisets(rng)), freeze(multisets(rng, n=2, extra="zz")), freeze(D[:2])]
    return Scenario(V.MultiSetCooccurrenceVectorizer, "MultiSetCooccurrenceVectorizer(%r)" % kw, freeze(kw), freeze((D, {})),
                    [(lambda f=f: (f(), {})) for f in pool])


def sc_skipgram(rng):
    kw = token_common(rng)
    kw.pop("nullify_mask", None)
    kw.update(window_radius=int(rng.randint(1, 4)), kernel_function=str(rng.choice(["flat", "harmonic"])))
    # (a non-empty kernel_args is unusable here: fit passes tuple(*self.kernel_args.values()) to the kernel - not C13's)
    D = docs(rng, minlen=2)
    pool = [freeze(docs(rng, minlen=2)), freeze(D[:3]), freeze(D)]
    return Scenario(V.SkipgramVectorizer, "SkipgramVectorizer(%r)" % kw, freeze(kw), freeze((D, {})),
                    [(lambda f=f: (f(), {})) for f in pool])


def sc_ngram(rng):
    kw = token_common(rng)
    kw.pop("nullify_mask", None)
    kw.update(ngram_size=int(rng.choice([1, 2, 3])), ngram_behaviour=str(rng.choice(["exact", "subgrams"])))
    D = docs(rng, minlen=1)
    pool = [freeze(docs(rng, minlen=1)), freeze(docs(rng, n=2, minlen=1, extra="zz")), freeze(D[:2])]
    return Scenario(V.NgramVectorizer, "NgramVectorizer(%r)" % kw, freeze(kw), freeze((D, {})),
                    [(lambda f=f: (f(), {})) for f in pool])


def trees(rng, n=None, extra=None):
    n = n or rng.randint(1, 4)
    v = VOC[:4] + ([extra] if extra else [])
    out = []
    for _ in range(n):
        m = rng.randint(1, 7)
        A = np.zeros((m, m), dtype=np.int64)
        for c in range(1, m):
            if rng.rand() < 0.85:
                A[rng.randint(c), c] = 1
        fmt = rng.choice(["csr", "csc", "coo", "lil"])
        out.append((getattr(sp, fmt + "_matrix")(A), np.array([v[rng.randint(len(v))] for _ in range(m)])))
    return out


def sc_tree(rng):
    kw = {}
    r = rng.rand()
    if r < 0.3:
        kw["token_dictionary"] = {t: i for i, t in enumerate(VOC[: rng.randint(2, 5)])}
    elif r < 0.5:
        kw["ignored_tokens"] = {VOC[rng.randint(4)]}
    if rng.rand() < 0.5:
        kw["mask_string"] = "[MASK]"
    ka = {}
    if rng.rand() < 0.4:
        ka["offset"] = 1
    kw.update(window_radius=int(rng.randint(1, 4)), kernel_function=str(rng.choice(["flat", "harmonic", "geometric"])),
              window_orientation=str(rng.choice(["before", "after", "symmetric", "directional"])), kernel_args=ka)
    D = trees(rng, n=rng.randint(2, 5))
    pool = [freeze(trees(rng)), freeze(trees(rng, extra="zz")), freeze(D[:1])]
    return Scenario(V.LabelledTreeCooccurrenceVectorizer, "LabelledTreeCooccurrenceVectorizer(%r)" % kw, freeze(kw),
                    freeze((D, {})), [(lambda f=f: (f(), {})) for f in pool])


def edges(rng, rows, cols, n):
    return [(rows[rng.randint(len(rows))], cols[rng.randint(len(cols))], int(rng.randint(1, 5))) for _ in range(n)]


def sc_edgelist(rng):
    rows, cols = ["r%d" % i for i in range(4)], ["c%d" % i for i in range(5)]
    kw = {}
    r = rng.rand()
    if r < 0.3:
        kw["row_label_dictionary"] = {t: i for i, t in enumerate(rows)}
    elif r < 0.6:
        kw["column_label_dictionary"] = {t: i for i, t in enumerate(cols)}
    if not kw and rng.rand() < 0.3:
        kw["joint_space"] = True
    D = edges(rng, rows, cols, rng.randint(5, 15))
    as_df = rng.rand() < 0.3
    conv = (lambda e: pd.DataFrame(e, columns=["r", "c", "v"])) if as_df else (lambda e: e)
    pool = [freeze(conv(edges(rng, rows, cols, rng.randint(3, 10)))), freeze(conv(D[:4])), freeze(conv(D))]
    return Scenario(V.EdgeListVectorizer, "EdgeListVectorizer(%r, df=%s)" % (kw, as_df), freeze(kw), freeze((conv(D), {})),
                    [(lambda f=f: (f(), {})) for f in pool])


def points(rng, n=None, dim=2):
    n = n or rng.randint(4, 7)
    return [rng.normal(loc=rng.normal(size=dim), size=(rng.randint(8, 20), dim)) for _ in range(n)]


def sc_distribution(rng):
    kw = {"n_components": int(rng.randint(2, 5)), "random_state": int(rng.randint(1000))}
    D = points(rng)
    pool = [freeze(points(rng, n=3)), freeze(D[:2])]
    return Scenario(V.DistributionVectorizer, "DistributionVectorizer(%r)" % kw, freeze(kw), freeze((D, {})),
                    [(lambda f=f: (f(), {})) for f in pool], seeded=True)


def values(rng, n=None, series=False):
    n = n or rng.randint(3, 7)
    out = [rng.poisson(rng.choice([2.0, 5.0, 9.0]), size=rng.randint(5, 30)).astype(rng.choice([np.int64, np.float64])) for _ in range(n)]
    return [pd.Series(x) for x in out] if series else out


def sc_histogram(rng):
    kw = {"n_components": int(rng.randint(3, 10)), "strategy": str(rng.choice(["uniform", "quantile"])),
          "append_outlier_bins": bool(rng.rand() < 0.5)}
    ser = False       # (a list of pd.Series makes fit raise "truth value of a Series is ambiguous" - not C13's)
    D = values(rng, series=ser)
    pool = [freeze(values(rng, n=3, series=ser)), freeze(D[:2])]
    return Scenario(V.HistogramVectorizer, "HistogramVectorizer(%r, series=%s)" % (kw, ser), freeze(kw), freeze((D, {})),
                    [(lambda f=f: (f(), {})) for f in pool])


def sc_kde(rng):
    kw = {"n_components": int(rng.randint(3, 10)), "kernel": str(rng.choice(["gaussian", "tophat"]))}
    if rng.rand() < 0.5:
        kw["bandwidth"] = float(rng.choice([0.5, 1.0]))
    D = values(rng)
    pool = [freeze(values(rng, n=3)), freeze(D[:2])]
    return Scenario(V.KDEVectorizer, "KDEVectorizer(%r)" % kw, freeze(kw), freeze((D, {})),
                    [(lambda f=f: (f(), {})) for f in pool])


def strings(rng, n=None):
    n = n or rng.randint(3, 7)
    al = "abcab "
    return ["".join(al[rng.randint(len(al))] for _ in range(rng.randint(2, 25))) for _ in range(n)]


def sc_lz(rng):
    # the hash of the (default) hashed mode is drawn from random_state: without an integer seed the fit is random
    # by documentation, so every scenario passes one
    kw = {"random_state": int(rng.randint(1000))}
    if rng.rand() < 0.4:
        kw.update(max_columns=int(rng.choice([8, 32])))
    if rng.rand() < 0.3:
        kw["max_dict_size"] = int(rng.choice([4, 16]))
    if rng.rand() < 0.3:
        kw["base_dictionary"] = {1: 1, 7: 1}                             # a caller-owned dictionary parameter
    D = strings(rng)
    pool = [freeze(strings(rng, n=3)), freeze(D[:2]), freeze(D[::-1])]
    return Scenario(V.LZCompressionVectorizer, "LZCompressionVectorizer(%r)" % kw, freeze(kw), freeze((D, {})),
                    [(lambda f=f: (f(), {})) for f in pool], seeded=True)


def sc_bpe(rng):
    # NOT OWNED (D14): contract_pair copies the tail of a string with a loop variable that may be unset; strings that
    # contract to very few codes pick up uninitialised memory as a "code" (seen: column label 94170064223248), which
    # makes two fits differ.  Scenarios therefore use strings of >= 8 characters and few merges.
    kw = {"max_vocab_size": int(rng.choice([3, 5, 8])), "return_type": str(rng.choice(["matrix", "sequences", "tokens"]))}
    mk = lambda n=None: [x + "abcab ab" for x in strings(rng, n)]
    D = mk()
    pool = [freeze(mk(3)), freeze(D[:2]), freeze(D[::-1])]
    return Scenario(V.BytePairEncodingVectorizer, "BytePairEncodingVectorizer(%r)" % kw, freeze(kw), freeze((D, {})),
                    [(lambda f=f: (f(), {})) for f in pool])


# ---- optimal transport family
def ot_matrix(rng, n_rows, n_cols, fmt="csr", zero_row=False):
    M = rng.rand(n_rows, n_cols) * (rng.rand(n_rows, n_cols) < 0.5)
    for i in range(n_rows):
        if M[i].sum() == 0:
            M[i, rng.randint(n_cols)] = 1.0
    if zero_row:
        M[n_rows - 1] = 0
    return getattr(sp, fmt + "_matrix")(M)


class Boom(RuntimeError):
    pass


def ot_components(rng, metric, method, ref, dim):
    """n_components must not exceed the rank of the vectors the SVD sees (ref x dim LOT coordinates, one less per
    reference point on the sphere, dim for the linear-algebra heuristics): beyond the rank the extra component is an
    arbitrary null-space direction decided by rounding noise, and 'the same model to 1e-9' is not a meaningful claim."""
    eff = dim if method in ("HeuristicLinearAlgebra", "approx") else ref * (dim - 1 if metric == "cosine" else dim)
    return int(rng.randint(2, min(3, eff) + 1)) if eff >= 2 else 1


def sc_wasserstein(rng):
    n_cols, dim = int(rng.randint(5, 9)), int(rng.randint(2, 4))
    im = str(rng.choice(["spmatrix", "lil", "generator"], p=[0.5, 0.35, 0.15]))
    method = "LOT_exact"
    if im == "spmatrix":
        method = str(rng.choice(["LOT_exact", "LOT_sinkhorn", "HeuristicLinearAlgebra"], p=[0.6, 0.25, 0.15]))
    ref = int(rng.randint(2, 5))
    metric = str(rng.choice(["cosine", "euclidean"]))
    kw = {"input_method": im, "method": method, "n_components": ot_components(rng, metric, method, ref, dim),
          "random_state": int(rng.randint(1000)), "metric": metric,
          # small memory sizes force the blockwise paths (a size below one LOT vector divides by zero in transform:
          # not C13's, and it would only make every call of the history raise)
          "memory_size": str(rng.choice(["400", "400", "800", "1k", "2G"]))}
    if method != "HeuristicLinearAlgebra":
        kw["reference_size"] = ref
    cachedir = None
    if rng.rand() < 0.5:
        cachedir = "CACHEDIR"                  # replaced by a private directory by the runner
        kw["cachedir"] = cachedir
    n_rows = int(rng.randint(8, 20))
    vecs = rng.normal(size=(n_cols, dim))
    if im == "spmatrix":
        fmt = str(rng.choice(["csr", "csc", "coo"]))
        X = ot_matrix(rng, n_rows, n_cols, fmt, zero_row=(method == "LOT_exact" and rng.rand() < 0.2))
        fitd = freeze((X, {"vectors": vecs}))
        pool = [freeze((ot_matrix(rng, int(rng.randint(2, 8)), n_cols, "csr"), {"vectors": vecs})),
                freeze((X[:3].tocsr() if fmt != "coo" else X.tocsr()[:3], {"vectors": vecs})),
                freeze((ot_matrix(rng, 5, n_cols, "csc"), {"vectors": vecs}))]
        fault = ("svd", int(rng.choice([1, 1, 2, 2, 3])))
    else:
        def lil(nr):
            d, v = [], []
            for _ in range(nr):
                k = int(rng.randint(2, 6))
                d.append(rng.rand(k) * 3 + 0.05)
                v.append(rng.normal(size=(k, dim)))
            return d, v
        d, v = lil(n_rows)
        if im == "lil":
            fitd = freeze((d, {"vectors": v}))
            mk = lambda dv: freeze((dv[0], {"vectors": dv[1]}))
            pool = [mk(lil(int(rng.randint(2, 7)))), mk((d[:3], v[:3])), mk(lil(4))]
            fault = ("svd", int(rng.choice([1, 1, 2, 2, 3]))) if rng.rand() < 0.6 else ("badref", 0)
        else:
            kw["generator_vector_dim"] = dim
            kw["generator_n_distributions"] = n_rows
            rv, rd = rng.normal(size=(ref, dim)), np.full(ref, 1.0 / ref)
            gen = lambda seq: (x for x in copy.deepcopy(seq))
            fitd = lambda: (gen(d), {"vectors": gen(v), "reference_vectors": rv.copy(), "reference_distribution": rd.copy()})
            pool = [lambda: (gen(d), {"vectors": gen(v)})]
            fault = ("gen", int(rng.randint(1, n_rows)))
            kw.pop("reference_size", None)
            return Scenario(V.WassersteinVectorizer, "WassersteinVectorizer(%r) rows=%d" % (kw, n_rows), freeze(kw), fitd, pool,
                            seeded=True, fault=fault)
    return Scenario(V.WassersteinVectorizer, "WassersteinVectorizer(%r) rows=%d" % (kw, n_rows), freeze(kw), fitd, pool,
                    seeded=True, fault=fault)


def sc_sinkhorn(rng):
    n_cols, dim = int(rng.randint(5, 9)), int(rng.randint(2, 4))
    ref, metric = int(rng.randint(2, 5)), str(rng.choice(["cosine", "euclidean"]))
    kw = {"n_components": ot_components(rng, metric, "LOT_sinkhorn", ref, dim), "random_state": int(rng.randint(1000)),
          "reference_size": ref, "metric": metric, "memory_size": str(rng.choice(["400", "1k", "2G"]))}
    if rng.rand() < 0.5:
        kw["cachedir"] = "CACHEDIR"
    vecs = rng.normal(size=(n_cols, dim))
    X = ot_matrix(rng, int(rng.randint(6, 14)), n_cols, str(rng.choice(["csr", "csc"])))
    pool = [freeze((ot_matrix(rng, 4, n_cols), {"vectors": vecs})), freeze((X[:3], {"vectors": vecs}))]
    return Scenario(V.SinkhornVectorizer, "SinkhornVectorizer(%r)" % kw, freeze(kw), freeze((X, {"vectors": vecs})), pool,
                    seeded=True, fault=("svd", int(rng.randint(1, 4))))


def sc_approxw(rng):
    n_cols, dim = int(rng.randint(5, 9)), int(rng.randint(2, 4))
    kw = {"n_components": ot_components(rng, "euclidean", "approx", 0, dim), "random_state": int(rng.randint(1000))}
    vecs = rng.normal(size=(n_cols, dim))
    X = ot_matrix(rng, int(rng.randint(6, 14)), n_cols, str(rng.choice(["csr", "csc", "coo"])))
    pool = [freeze((ot_matrix(rng, 4, n_cols), {"vectors": vecs})), freeze((X.tocsr()[:3], {"vectors": vecs}))]
    return Scenario(V.ApproximateWassersteinVectorizer, "ApproximateWassersteinVectorizer(%r)" % kw, freeze(kw),
                    freeze((X, {"vectors": vecs})), pool, seeded=True)


# ---- transformers
def count_matrix(rng, n_rows, n_cols, fmt, explicit_zero=True, unsorted=True):
    M = (rng.poisson(1.0, size=(n_rows, n_cols)) * (rng.rand(n_rows, n_cols) < 0.6)).astype(np.float64)
    M[0, 0] = 2.0
    M[1 % n_rows, 1 % n_cols] = 1.0
    A = getattr(sp, fmt + "_matrix")(M)
    if fmt in ("csr", "csc") and A.nnz > 2:
        if unsorted:                                   # reverse the entries of the first non-trivial row/column
            for i in range(len(A.indptr) - 1):
                lo, hi = A.indptr[i], A.indptr[i + 1]
                if hi - lo >= 2:
                    A.indices[lo:hi] = A.indices[lo:hi][::-1].copy()
                    A.data[lo:hi] = A.data[lo:hi][::-1].copy()
                    A.has_sorted_indices = False
                    break
        if explicit_zero:
            A.data[A.nnz - 1] = 0.0                    # an explicit zero
    return A


def sc_infoweight(rng):
    kw = {"prior_strength": float(rng.choice([1e-4, 0.1, 1.0])), "approx_prior": bool(rng.rand() < 0.5)}
    n_rows, n_cols = int(rng.randint(4, 9)), int(rng.randint(3, 7))
    fmt = str(rng.choice(["csr", "csc", "csc", "coo"]))
    X = count_matrix(rng, n_rows, n_cols, fmt, explicit_zero=rng.rand() < 0.5, unsorted=rng.rand() < 0.7)
    fk = {}
    if rng.rand() < 0.3:
        fk["y"] = rng.randint(0, 2, size=n_rows)
    pool = [freeze((count_matrix(rng, 4, n_cols, "csc"), {})), freeze((count_matrix(rng, 3, n_cols, "csr"), {})),
            freeze((X, {}))]
    return Scenario(T.InformationWeightTransformer, "InformationWeightTransformer(%r) X=%s y=%s" % (kw, fmt, "y" in fk),
                    freeze(kw), freeze((X, fk)), pool)


def sc_rowdenoise(rng):
    kw = {"normalize": bool(rng.rand() < 0.5), "em_background_prior": float(rng.choice([5.0, 10.0]))}
    n_rows, n_cols = int(rng.randint(4, 9)), int(rng.randint(3, 7))
    fmt = str(rng.choice(["csr", "csr", "csc", "coo"]))
    X = count_matrix(rng, n_rows, n_cols, fmt, explicit_zero=True, unsorted=rng.rand() < 0.5)
    pool = [freeze((count_matrix(rng, 4, n_cols, "csr"), {})), freeze((X, {}))]
    return Scenario(T.RowDenoisingTransformer, "RowDenoisingTransformer(%r) X=%s" % (kw, fmt), freeze(kw), freeze((X, {})), pool)


def sc_cfc(rng):
    kw = {"n_components": 2, "algorithm": str(rng.choice(["randomized", "arpack"])), "random_state": int(rng.randint(1000))}
    n_rows, n_cols = int(rng.randint(6, 10)), int(rng.randint(4, 8))
    fmt = str(rng.choice(["csr", "csc"]))
    X = count_matrix(rng, n_rows, n_cols, fmt, explicit_zero=rng.rand() < 0.5, unsorted=rng.rand() < 0.5)
    pool = [freeze((count_matrix(rng, 4, n_cols, "csr"), {})), freeze((X, {}))]
    return Scenario(T.CountFeatureCompressionTransformer, "CountFeatureCompressionTransformer(%r) X=%s" % (kw, fmt), freeze(kw),
                    freeze((X, {})), pool, seeded=True)


def seqs(rng, n=None, minlen=6):
    n = n or rng.randint(2, 5)
    return [rng.normal(size=rng.randint(minlen, 20)) for _ in range(n)]


def sc_sliding(rng):
    w = int(rng.randint(2, 5))
    kw = {"window_width": w, "window_stride": int(rng.randint(1, 3))}
    claim = True
    r = rng.rand()
    if r < 0.25:
        kw["window_sample"] = "random"
        kw["window_sample_size"] = int(rng.randint(1, w + 1))
        claim = False         # documented as random, no seed parameter (np.random.choice in fit)
    elif r < 0.5:
        kw["window_sample"] = np.arange(w)[::-1].copy()          # an index array: a caller-owned parameter object
    if rng.rand() < 0.3:
        kw["kernels"] = [("differences", 0, 1, 1)]
    D = seqs(rng)
    pool = [freeze((seqs(rng), {})), freeze((D[:1], {}))]
    return Scenario(T.SlidingWindowTransformer, "SlidingWindowTransformer(%r)" % kw, freeze(kw), freeze((D, {})), pool,
                    claim_seed=claim, compare_attrs=claim)


def sc_seqdiff(rng):
    kw = {"stride": int(rng.randint(1, 4))}
    D = seqs(rng)
    pool = [freeze((seqs(rng), {})), freeze((D[:1], {}))]
    return Scenario(T.SequentialDifferenceTransformer, "SequentialDifferenceTransformer(%r)" % kw, freeze(kw), freeze((D, {})), pool)


def sc_categorical(rng):
    n = int(rng.randint(6, 15))
    df = pd.DataFrame({"obj": [["x", "y", "z"][rng.randint(3)] for _ in range(n)],
                       "d1": [VOC[rng.randint(4)] for _ in range(n)],
                       "d2": [VOC[rng.randint(6)] for _ in range(n)]})
    desc = ["d1", "d2"] if rng.rand() < 0.5 else "d1"
    kw = {"object_column_name": "obj", "descriptor_column_name": desc, "include_column_name": bool(rng.rand() < 0.5),
          "unique_values": bool(rng.rand() < 0.5)}
    if isinstance(desc, str):
        kw["include_column_name"] = False
    pool = [freeze((df.iloc[: max(2, n // 2)].reset_index(drop=True), {})), freeze((df, {}))]
    return Scenario(T.CategoricalColumnTransformer, "CategoricalColumnTransformer(%r)" % kw, freeze(kw), freeze((df, {})), pool,
                    fit_transform_only=True)


REGISTRY = {
    "TokenCooccurrenceVectorizer": sc_token, "TimedTokenCooccurrenceVectorizer": sc_timed,
    "NgramCooccurrenceVectorizer": sc_ngramcooc, "MultiSetCooccurrenceVectorizer": sc_multiset,
    "SkipgramVectorizer": sc_skipgram, "NgramVectorizer": sc_ngram, "LabelledTreeCooccurrenceVectorizer": sc_tree,
    "EdgeListVectorizer": sc_edgelist, "DistributionVectorizer": sc_distribution, "HistogramVectorizer": sc_histogram,
    "KDEVectorizer": sc_kde, "LZCompressionVectorizer": sc_lz, "BytePairEncodingVectorizer": sc_bpe,
    "WassersteinVectorizer": sc_wasserstein, "SinkhornVectorizer": sc_sinkhorn,
    "ApproximateWassersteinVectorizer": sc_approxw, "InformationWeightTransformer": sc_infoweight,
    "RowDenoisingTransformer": sc_rowdenoise, "CountFeatureCompressionTransformer": sc_cfc,
    "SlidingWindowTransformer": sc_sliding, "SequentialDifferenceTransformer": sc_seqdiff,
    "CategoricalColumnTransformer": sc_categorical,
}


# ------------------------------------------------------------------ the runner
class Watch:
    """all caller-owned objects of a scenario, their pristine snapshots, the watched directories"""
    def __init__(self, dirs):
        self.objs, self.snaps, self.dirs = [], [], dirs
        self.listing = {d: sorted(os.listdir(d)) for d in dirs}

    def add(self, name, obj):
        self.objs.append((name, obj))
        self.snaps.append(snap(obj))

    def check(self, after, out):
        for j, ((name, obj), s0) in enumerate(zip(self.objs, self.snaps)):
            s1 = snap(obj)
            if s1 != s0:
                out.append({"kind": "caller-object-modified", "detail": "%s changed by %s at %s" % (name, after, diff_where(s0, s1))})
                self.snaps[j] = s1             # report each modification once
        for d in self.dirs:
            now = sorted(os.listdir(d))
            if now != self.listing[d]:
                left = []
                for x in sorted(set(now) - set(self.listing[d])):
                    p = os.path.join(d, x)
                    left.append(x + ("/" + ",".join(sorted(os.listdir(p))) if os.path.isdir(p) else ""))
                out.append({"kind": "temporary-path-left", "detail": "after %s: %s" % (after, left)})
                self.listing[d] = now          # report each leftover once


def fix_cachedir(kw, cachedir):
    if kw.get("cachedir") == "CACHEDIR":
        kw["cachedir"] = cachedir
    return kw


def call(fn, *a, **k):
    try:
        return fn(*a, **k), None
    except Exception as e:            # an exception is an outcome, compared by class
        return e, traceback.format_exc()[-500:]


def mutable_ids(o, acc, depth=0):
    if depth > 3:
        return
    if isinstance(o, (dict, np.ndarray)) or sp.issparse(o):
        acc[id(o)] = o
    if isinstance(o, dict):
        for v in o.values():
            mutable_ids(v, acc, depth + 1)
    elif isinstance(o, (list, tuple)):
        for v in o:
            mutable_ids(v, acc, depth + 1)


def public_model(est):
    """public fitted attributes (trailing underscore) in canonical form; callables and estimators are skipped"""
    out = {}
    for k, v in sorted(vars(est).items()):
        if k.endswith("_") and not k.startswith("_") and not callable(v) and not hasattr(v, "get_params"):
            out[k] = canon(v)
    return out


def degenerate_svd(est):
    """SVD based models (embedding_ = U * S): when a requested component has a (relatively) vanishing singular value,
    or two singular values coincide, the singular vectors are decided by rounding noise and 'the same model to 1e-9'
    is not a meaningful claim; such fits are counted, not compared."""
    E = getattr(est, "embedding_", None)
    if not isinstance(E, np.ndarray) or E.ndim != 2 or min(E.shape) == 0 or not np.all(np.isfinite(E)):
        return False
    sv = np.linalg.svd(E, compute_uv=False)
    k = min(getattr(est, "n_components", len(sv)), len(sv))
    sv = sv[:k]
    if sv[0] == 0 or sv[-1] < 1e-6 * sv[0]:
        return True
    return bool(np.any(np.abs(np.diff(sv)) < 1e-6 * sv[0]))


def run_job(name, seed, tmpdir):
    rng = np.random.RandomState(zlib.crc32(("%s/%d" % (name, seed)).encode()) % (2 ** 31))
    sc = REGISTRY[name](rng)
    res = {"est": name, "seed": seed, "desc": sc.desc, "calls": 0, "raised": 0, "aliases": [], "violations": [], "checks": {}}
    viol = res["violations"]
    cachedir = tempfile.mkdtemp(prefix="cachedir_", dir=os.path.dirname(tmpdir))
    W = Watch([tmpdir, cachedir])
    params = fix_cachedir(sc.params(), cachedir)
    for k, v in params.items():
        W.add("constructor parameter %s" % k, v)
    est = sc.cls(**params)
    W.check("the constructor", viol)

    def watched_call(what, fn, X, kw):
        out, tb = call(fn, X, **kw)
        res["calls"] += 1
        if isinstance(out, Exception):
            res["raised"] += 1
        W.check(what + (" (raised %s)" % type(out).__name__ if isinstance(out, Exception) else ""), viol)
        return out

    # ---- 2. a fit that raises part-way
    if sc.fault is not None and rng.rand() < 0.7:
        kind, k = sc.fault
        X, kw = sc.fit_data()
        W.add("fit input X (faulting fit)", X)
        for a, v in kw.items():
            W.add("fit argument %s (faulting fit)" % a, v)
        if kind == "svd":
            orig, count = LOT.randomized_svd, [0]

            def faulty(*a, **kk):
                count[0] += 1
                if count[0] == k:
                    raise Boom("fault injected into block %d" % k)
                return orig(*a, **kk)
            LOT.randomized_svd = faulty
            try:
                out = watched_call("fit with a fault in block %d" % k, est.fit, X, kw)
            finally:
                LOT.randomized_svd = orig
            res["checks"]["fault_svd"] = type(out).__name__ if isinstance(out, Exception) else "no-raise"
        elif kind == "badref":
            d = X
            nref = 3
            kw2 = dict(kw, reference_distribution=np.full(nref, 0.3), reference_vectors=rng.normal(size=(nref, kw["vectors"][0].shape[1])))
            W.add("invalid reference_distribution", kw2["reference_distribution"])
            W.add("reference_vectors", kw2["reference_vectors"])
            out = watched_call("fit with an invalid reference distribution", est.fit, d, kw2)
            res["checks"]["fault_badref"] = type(out).__name__ if isinstance(out, Exception) else "no-raise"
        elif kind == "gen":
            def bad(g, at):
                for i, x in enumerate(g):
                    if i == at:
                        raise Boom("generator failed at item %d" % at)
                    yield x
            kw2 = dict(kw, vectors=bad(kw["vectors"], k))
            out = watched_call("fit on a generator failing at item %d" % k, est.fit, X, kw2)
            res["checks"]["fault_gen"] = type(out).__name__ if isinstance(out, Exception) else "no-raise"
        est = sc.cls(**params)          # the property says nothing about a half-fitted estimator: start again

    # ---- 3. fit, history
    X, kw = sc.fit_data()
    W.add("fit input X", X)
    for a, v in kw.items():
        W.add("fit argument %s" % a, v)
    use_ft = rng.rand() < 0.4 or sc.fit_transform_only
    tr_name = "fit_transform" if sc.fit_transform_only else "transform"      # estimators without a transform method
    fit_out = watched_call("fit_transform" if use_ft else "fit", est.fit_transform if use_ft else est.fit, X, kw)
    if isinstance(fit_out, Exception):
        res["error"] = "fit raised %s: %s" % (type(fit_out).__name__, str(fit_out)[:200])
        return res
    # aliases: fitted attributes that ARE caller objects (informational; a later in-place edit through such an
    # alias is caught by the snapshots, which stay under watch for the whole history)
    caller = {}
    for _, o in W.objs:
        mutable_ids(o, caller)
    for k2, v in vars(est).items():
        if k2 not in params and id(v) in caller and v is caller[id(v)]:
            res["aliases"].append(k2)
    model0 = public_model(est) if sc.compare_attrs else {}
    try:
        clone0 = copy.deepcopy(est)
    except Exception:
        clone0 = None
    # ---- 5. two fits (same integer random_state where there is one) give the same model
    if sc.compare_attrs and sc.claim_seed:
        fresh = sc.cls(**fix_cachedir(sc.params(), cachedir))
        Xf, kwf = sc.fit_data()
        r, _ = call(fresh.fit_transform if use_ft else fresh.fit, Xf, **kwf)
        if isinstance(r, Exception):
            res["error"] = "second fit raised %s" % type(r).__name__
            return res
        model1 = public_model(fresh)
        res["checks"]["attrs_compared"] = len(model1)
        if degenerate_svd(est):
            res["checks"]["degenerate_svd"] = 1       # more components than the rank: the model is not determined
        else:
            for k2 in model0:
                if k2 not in model1 or not same(model0[k2], model1[k2]):
                    viol.append({"kind": "two-fits-differ", "detail": "fitted attribute %s differs between two fits%s: %s vs %s"
                                 % (k2, " with random_state=%r" % params.get("random_state") if sc.seeded else "",
                                    brief(model0[k2]), brief(model1.get(k2, ("none",))))})
                    break
    hist = []
    if sc.has_transform:
        pool = [f() for f in sc.pool]
        for i, (Xi, kwi) in enumerate(pool):
            W.add("transform input #%d" % i, Xi)
            for a, v in kwi.items():
                W.add("transform argument %s of input #%d" % (a, i), v)
        order = [int(rng.randint(len(pool))) for _ in range(int(rng.randint(3, 7)))]
        if len(pool) > 1:
            order[0], order[-1] = 0, 0                       # the same object first and last
        poison_at = int(rng.randint(1, len(order))) if (sc.poison is not None and rng.rand() < 0.6) else None
        is_gen = any(isinstance(x, types.GeneratorType) for x in (pool[0][0],) + tuple(pool[0][1].values()))
        for step, i in enumerate(order):
            if poison_at == step:
                Xp, kwp = sc.poison()
                W.add("poisoned transform input", Xp)
                watched_call("%s of a malformed input" % tr_name, getattr(est, tr_name), Xp, kwp)
            if is_gen:                                       # a generator can be consumed once: a fresh one per call
                Xi, kwi = sc.pool[i]()
            else:
                Xi, kwi = pool[i]
            out = watched_call("%s call %d (input #%d)" % (tr_name, step + 1, i), getattr(est, tr_name), Xi, kwi)
            hist.append((step, i, canon(out)))
        # ---- 4. single-call references: one transform on an untouched deep copy of the estimator taken right after fit
        # (a freshly constructed and fitted estimator when the object cannot be copied and its fit is deterministic)
        refs = {}
        for i in sorted({i for _, i, _ in hist}):
            if clone0 is not None:
                ref_est = copy.deepcopy(clone0)
            elif sc.claim_seed:
                ref_est = sc.cls(**fix_cachedir(sc.params(), cachedir))
                Xf, kwf = sc.fit_data()
                r, _ = call(ref_est.fit_transform if use_ft else ref_est.fit, Xf, **kwf)
                if isinstance(r, Exception):
                    res["error"] = "second fit raised %s" % type(r).__name__
                    return res
            else:
                break
            Xi, kwi = sc.pool[i]()
            o, _ = call(getattr(ref_est, tr_name), Xi, **kwi)
            refs[i] = canon(o)
        res["checks"]["reference"] = "deepcopy" if clone0 is not None else "fresh-fit"
        for step, i, c in hist:
            if i in refs and not same(c, refs[i]):
                viol.append({"kind": "history-differs-from-single-call",
                             "detail": "transform call %d of the history %s (input #%d) returned %s, a single call on a fresh fit returns %s"
                                       % (step + 1, [j for _, j, _ in hist], i, brief(c), brief(refs[i]))})
                break
        res["checks"]["history"] = len(hist)
    W.check("the end of the scenario", viol)
    res["watched"] = len(W.objs)
    return res


def main():
    payload = json.load(open(sys.argv[1]))
    tmpdir = payload["tmpdir"]
    assert os.path.realpath(tempfile.gettempdir()) == os.path.realpath(tmpdir), (tempfile.gettempdir(), tmpdir)
    out = []
    for name, seed in payload["jobs"]:
        try:
            out.append(run_job(name, seed, tmpdir))
        except Exception as e:
            out.append({"est": name, "seed": seed, "error": "harness: %s %s" % (type(e).__name__, str(e)[:300]),
                        "tb": traceback.format_exc()[-1500:], "violations": []})
        json.dump(out, open(sys.argv[2], "w"))
    json.dump(out, open(sys.argv[2], "w"))


if __name__ == "__main__":
    main()
