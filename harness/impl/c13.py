"""Implementation side of C13: side effects, repeatability, leftovers, for every public estimator.

JSON in:  {"jobs": [{"est", "seed", "part", "nparts", "only", "where"}, ...], "tmpdir": <private empty dir>}   (TMPDIR set by the parent)
JSON out: one record per scenario (= one CELL of the estimator's table, see TABLES below).

The table.  For every estimator `cells_<name>(seed)` lists the sensitive configurations (deterministically: the
primary dimensions are fully crossed, the secondary ones are rotated through the cells starting at an offset drawn from
the seed, and there are at least as many cells as a secondary dimension has values, so EVERY run covers every value of
every dimension).  `sc_<name>(rng, cell, fixed)` builds the scenario of one cell; the data inside a scenario again rotate
through every per-item container/format (each tree a different adjacency format, each sequence a different inner
container, each pool input a different sparse format ...).

One scenario:
  1. build the constructor parameter objects and the data; snapshot EVERY caller-owned object (values, dtypes, sparse
     internals, and the IDENTITY of the elements of lists / tuples / dicts / object arrays);
  2. [fault stage] a fit made to raise part-way (fault injected into the k-th block, an invalid reference distribution,
     a generator that raises at item k), checked like every other call;
  3. fit or fit_transform; a deterministic history over a pool of persistent caller objects
        A, B, A, B-raising-in-block-k, A, malformed input, every other pool input, A
     where B has the SAME SHAPE as A and different contents (different `vectors`, different tokens over a vocabulary of
     the same size, a different matrix of the same shape);
  4. every history output is compared with a single transform on an untouched deep copy of the fitted estimator (a
     freshly constructed and fitted estimator where the object cannot be copied), exceptions by class;
  5. the public fitted attributes of two fits (same integer random_state where there is one) are compared;
  6. REFIT of the same estimator object on other data of the same shape, transforms of A and B, compared with a fresh
     estimator fitted on the new data only (model and outputs);
  after EVERY call (returning or raising): all snapshots are compared, TMPDIR, cachedir and the working directory are
  listed recursively, and the estimator's constructor parameters (get_params(deep=False); the constructor-named
  attributes where get_params raises) are compared with their values right after construction.

Sizes.  Every table with a random_state and an SVD / mixture inside has, beside the tiny cells, "big" cells (size=big:
40-60 rows, n_components 2-3, a vector / LOT dimension above n_components + 10, memory_size giving 2-4 blocks of at least
n_components + 12 rows) at which sklearn's randomized_svd is NOT exact, so that a generator that is not the seeded one
shows in "two fits give the same model".  The child records every randomized_svd / svds call (exact or not) per cell,
and numpy's and Python's global generators are seeded per cell and advanced by unrelated draws before every call.

Keywords.  Where transform accepts **kwargs or y (read from the signature), the history ends with a keyword phase
  S+kw, A, A+kw, S, B       (S the shortest pool input, +kw: keywords describing THAT input - its number of rows under
the names the library uses for such hints, the vector dimension, a y of that length)
and every output is compared with the single call (same keywords) on an untouched deep copy of the fitted estimator.
"""
import copy, inspect, json, os, random, sys, tempfile, traceback, types, warnings, zlib
warnings.filterwarnings("ignore")
import numpy as np
import scipy.sparse as sp
import pandas as pd
import numba
import vectorizers as V
import vectorizers.transformers as T
import vectorizers.linear_optimal_transport as LOT

TOL = 1e-9          # "to 1e-9": max |a - b| <= TOL * max(1, max |b|)

# Speed only: NgramCooccurrenceVectorizer asks utils.make_tuple_converter(ngram_size) for a NEW numba closure in every
# fit, and numba recompiles the whole skip-gram kernel for each new closure (~3 s per fit, ~12 fits per scenario).  The
# closure depends on ngram_size only, so the harness hands back the same one for the same size.
import functools
import vectorizers.ngram_token_cooccurence_vectorizer as _NGC
_NGC.make_tuple_converter = functools.lru_cache(maxsize=None)(_NGC.make_tuple_converter)

# Evidence only: every call of the SVD solvers is counted (the modules look the names up at call time).  sklearn's
# randomized_svd is EXACT when n_components + n_oversamples >= min(shape) (the range finder spans everything): only the
# "non_exact" calls can show a generator that is not the seeded one, and the parent demands them in the big cells.
import vectorizers.transformers.count_feature_compression as _CFC
SVD_LOG = {"randomized_non_exact": 0, "randomized_exact": 0, "arpack": 0}


def _count_randomized(orig):
    def randomized_svd(M, *a, **k):
        nc = a[0] if a else k["n_components"]
        over = k.get("n_oversamples", 10)
        SVD_LOG["randomized_non_exact" if min(M.shape) > nc + over else "randomized_exact"] += 1
        return orig(M, *a, **k)
    return randomized_svd


def _count_arpack(orig):
    def svds(*a, **k):
        SVD_LOG["arpack"] += 1
        return orig(*a, **k)
    return svds


LOT.randomized_svd = _count_randomized(LOT.randomized_svd)
_CFC.randomized_svd = _count_randomized(_CFC.randomized_svd)
_CFC.svds = _count_arpack(_CFC.svds)


class GenOf:
    """a generator input: the items live in a caller-owned list (watched); a fresh generator is made for every call"""
    def __init__(self, src):
        self.src = src

    def make(self):
        return (x for x in self.src)


# ------------------------------------------------------------------ snapshots of caller-owned objects
_SCALAR = (bool, int, float, str, bytes, complex, type(None), np.generic)


def ident(x):
    """identity of an element of a caller's container (0 for immutable scalars, whose identity means nothing)"""
    return ("id", 0 if isinstance(x, _SCALAR) else id(x))


def snap(o, depth=0):
    if depth > 8:
        return ("deep",)
    if o is None or isinstance(o, (bool, int, float, str, bytes, complex)):
        return ("v", repr(o))
    if isinstance(o, np.generic):
        return ("npv", o.dtype.str, repr(o.item()))
    if isinstance(o, np.ndarray):
        if o.dtype == object:
            return ("ndo", o.shape, [(ident(x), snap(x, depth + 1)) for x in o.ravel().tolist()])
        return ("nd", o.dtype.str, o.shape, o.tobytes())
    if sp.issparse(o):
        f = o.format
        head = ("sp", f, o.shape, o.dtype.str)
        if f in ("csr", "csc", "bsr"):
            return head + (snap(o.data), snap(o.indices), snap(o.indptr))
        if f == "coo":
            return head + (snap(o.data), snap(o.row), snap(o.col))
        if f == "lil":
            return head + ([list(r) for r in o.rows], [list(map(repr, r)) for r in o.data])
        if f == "dia":
            return head + (snap(o.data), snap(o.offsets))
        if f == "dok":
            return head + (sorted((k, repr(v)) for k, v in o.items()),)
        return head + (snap(o.tocoo()),)
    if isinstance(o, GenOf):
        return ("genof", snap(o.src, depth + 1))
    if isinstance(o, dict):
        return ("dict", sorted(((repr(k), ident(v), snap(v, depth + 1)) for k, v in o.items())))
    if isinstance(o, (list, tuple)):
        return ("seq", type(o).__name__, [(ident(x), snap(x, depth + 1)) for x in o])
    if isinstance(o, numba.typed.List):
        return ("seq", "typedlist", [(("id", 0), snap(x, depth + 1)) for x in o])
    if isinstance(o, (set, frozenset)):
        return ("set", sorted(repr(x) for x in o))
    if isinstance(o, pd.DataFrame):
        return ("df", list(map(repr, o.columns)), snap(o.index.to_numpy()), [snap(o[c].to_numpy(), depth + 1) for c in o.columns])
    if isinstance(o, pd.Series):
        return ("ser", repr(o.name), snap(o.index.to_numpy()), snap(o.to_numpy(), depth + 1))
    if isinstance(o, types.GeneratorType):
        return ("gen",)                       # consumed by design; not comparable
    return ("obj", type(o).__name__)


def diff_where(a, b, path=""):
    """first place where two snapshots differ (for the report)"""
    if type(a) != type(b):
        return path + ": type"
    if isinstance(a, tuple) and isinstance(b, tuple) and a[:1] == ("id",) and b[:1] == ("id",):
        return path + ": element replaced by another object (identity changed)"
    if isinstance(a, tuple) and len(a) == 4 and a[0] == "nd" and isinstance(b, tuple) and len(b) == 4 and b[0] == "nd":
        if a[1:3] != b[1:3]:
            return path + ": array %s%s -> %s%s" % (a[1], a[2], b[1], b[2])
        x, y = np.frombuffer(a[3], dtype=a[1]), np.frombuffer(b[3], dtype=b[1])
        i = int(np.flatnonzero(x != y)[0]) if x.dtype.kind != "V" and np.any(x != y) else 0
        return path + ": array%s flat index %d: %r -> %r (%d entries differ)" % (a[2], i, x[i].item(), y[i].item(), int(np.sum(x != y)))
    if isinstance(a, (tuple, list)):
        if len(a) != len(b):
            return path + ": length %d -> %d" % (len(a), len(b))
        for i, (x, y) in enumerate(zip(a, b)):
            if x != y:
                return diff_where(x, y, path + "/%d" % i)
        return path
    return path + ": %s -> %s" % (str(a)[:60], str(b)[:60])


# ------------------------------------------------------------------ canonical outputs
def canon(o):
    if isinstance(o, Exception):
        return ("exc", type(o).__name__)
    if o is None:
        return ("none",)
    if sp.issparse(o):
        return ("arr", np.asarray(o.todense(), dtype=np.float64))
    if isinstance(o, np.ndarray):
        if o.dtype == object:
            return ("seq", [canon(x) for x in o.tolist()])
        if o.dtype.kind in "biuf":
            return ("arr", np.asarray(o, dtype=np.float64))
        return ("val", repr(o.tolist()))
    if isinstance(o, (list, tuple, numba.typed.List)):
        return ("seq", [canon(x) for x in o])
    if isinstance(o, numba.typed.Dict):
        o = dict(o)
    if isinstance(o, dict):
        return ("seq", [("val", repr(k)) for k in sorted(o, key=repr)] + [canon(o[k]) for k in sorted(o, key=repr)])
    if isinstance(o, (pd.DataFrame, pd.Series)):
        return canon(o.to_numpy())
    if isinstance(o, (int, float, np.generic)) and not isinstance(o, (bool, str)):
        try:
            return ("arr", np.asarray(o, dtype=np.float64))
        except Exception:
            return ("val", repr(o))
    return ("val", repr(o))


def same(a, b):
    if a[0] != b[0]:
        return False
    if a[0] == "arr":
        if a[1].shape != b[1].shape:
            return False
        if a[1].size == 0:
            return True
        fin = np.abs(b[1][np.isfinite(b[1])])
        scale = max(1.0, float(fin.max())) if fin.size else 1.0
        return bool(np.allclose(a[1], b[1], rtol=0.0, atol=TOL * scale, equal_nan=True))
    if a[0] == "seq":
        return len(a[1]) == len(b[1]) and all(same(x, y) for x, y in zip(a[1], b[1]))
    return a == b


def brief(c):
    if c[0] == "arr":
        return "array%s %s" % (c[1].shape, np.array2string(c[1].ravel()[:6], precision=6))
    if c[0] == "seq":
        return "seq[%d] %s" % (len(c[1]), brief(c[1][0]) if c[1] else "")
    return str(c)[:80]


def maxdiff(a, b):
    if a[0] == "arr" and b[0] == "arr" and a[1].shape == b[1].shape and a[1].size:
        with np.errstate(all="ignore"):
            return " (max |diff| %.3g)" % float(np.nanmax(np.abs(a[1] - b[1])))
    return ""


# ------------------------------------------------------------------ scenarios
class Scenario:
    """params(): fresh constructor kwargs; fit_data(): fresh (X, kwargs); refit_data(): fresh (X, kwargs) of the same
    shape and other contents; pool: factories of fresh (X, kwargs) for transform - pool[0] = A, pool[1] = B (same shape
    as A, other contents), the rest in other containers / shapes; poison: factory of an input meant to make the call
    raise; fault: how to make fit raise part-way; fault_tr: names of the per-block functions of the module LOT that a
    transform calls (made to raise at the k-th call); no_alias: {constructor parameter: fitted attributes that are
    documented to be copies}."""
    def __init__(self, cls, desc, params, fit_data, pool, poison=None, seeded=False, claim_seed=True,
                 has_transform=True, fault=None, fault_tr=None, fit_transform_only=False, compare_attrs=True,
                 refit_data=None, use_ft=False, no_alias=None, tr_blocks=1):
        self.cls, self.desc, self.params, self.fit_data, self.pool = cls, desc, params, fit_data, pool
        self.poison, self.seeded, self.claim_seed, self.has_transform = poison, seeded, claim_seed, has_transform
        self.fault, self.fault_tr, self.fit_transform_only, self.compare_attrs = fault, fault_tr, fit_transform_only, compare_attrs
        self.refit_data, self.use_ft, self.no_alias, self.tr_blocks = refit_data, use_ft, no_alias or {}, tr_blocks


def freeze(obj):
    """factory returning a fresh deep copy of obj each time"""
    return lambda: copy.deepcopy(obj)


def obj_array(items):
    a = np.empty(len(items), dtype=object)
    for i, x in enumerate(items):
        a[i] = x
    return a


def cross(**dims):
    """full cross product of the given dimensions, as a list of dicts (first dimension slowest)"""
    out = [{}]
    for k, vals in dims.items():
        out = [dict(c, **{k: v}) for c in out for v in vals]
    return out


def rotate(cells, seed, **dims):
    """add secondary dimensions: cell i gets vals[(i + offset) % len(vals)], offset from the seed; cells are repeated
    (cyclically) until every value of every secondary dimension occurs"""
    need = max([len(v) for v in dims.values()] + [len(cells)])
    cells = [dict(cells[i % len(cells)]) for i in range(need)]
    for j, (k, vals) in enumerate(sorted(dims.items())):
        off = (seed * 7 + j * 3) % len(vals)
        for i, c in enumerate(cells):
            c[k] = vals[(i + i // len(vals) + off) % len(vals)]      # (the i // len term decorrelates it from the primary dimensions)
    return cells


def with_big(cells, big, seed):
    """the tiny cells get size=tiny; the cells of `big` (size=big) are appended, the primary dimensions they lack are
    walked cyclically from the seed.  svd_iter (the number of power iterations of the randomised SVD, None = the
    library's default in the tiny cells) alternates 0, 1 along `big`, whose LAST dimension has two values: of the two
    cells that differ in it only, one has no power iteration at all (the random range finder is all there is)."""
    keys = {k: [] for c in cells for k in c}
    for c in cells:
        for k, v in c.items():
            if v not in keys[k]:
                keys[k].append(v)
    out = [dict(c, size="tiny", svd_iter=None) for c in cells]
    for i, c in enumerate(big):
        c = dict(c, size="big", svd_iter=(i + seed) % 2)
        for j, (k, vals) in enumerate(sorted(keys.items())):
            if k not in c:
                c[k] = vals[(i + seed + j) % len(vals)]
        out.append(c)
    return out


OUTER = {"list": list, "tuple": tuple, "ndarray_obj": obj_array, "series": lambda x: pd.Series(list(x))}
# inner containers of one sequence.  "mixed": the sequences of one data set rotate through list / tuple / object array
# (the tokens stay Python str); "ndarray_str": every sequence is a numpy string array (tokens are np.str_: mixing them
# with Python str is rejected by the library as heterogeneous token types, so this is a mode of its own)
INNER_MIXED = [list, tuple, lambda d: obj_array(list(d))]
INNER_MODES = ["mixed", "ndarray_str"]
VOC = ["a", "b", "c", "d", "e", "f"]


def docs(rng, n, voc=VOC, maxlen=9, minlen=1):
    return [[voc[rng.randint(len(voc))] for _ in range(rng.randint(minlen, maxlen + 1))] for _ in range(n)]


def relabel(rng, D, voc=VOC):
    """other tokens, same shape, same vocabulary size: the vocabulary is shifted cyclically by 1..len-1"""
    s = int(rng.randint(1, len(voc)))
    m = {t: voc[(i + s) % len(voc)] for i, t in enumerate(voc)}
    return [[m.get(t, t) for t in d] for d in D]


def revocab(D, old="a", new="q"):
    """the same documents over a vocabulary of the same size with one member exchanged (for refits: a model that
    keeps anything of the previous vocabulary shows)"""
    return [[new if t == old else t for t in d] for d in D]


def with_rare(D, tag="r"):
    """every document gets one token that occurs nowhere else (pruned by min_occurrences=2, unknown to a dictionary)"""
    return [list(d[: len(d) // 2]) + ["%s%d" % (tag, i)] + list(d[len(d) // 2:]) for i, d in enumerate(D)]


def pack(D, outer, off=0, inner="mixed"):
    """documents in the given outer container; inner containers as described at INNER_MODES"""
    if inner == "ndarray_str":
        items = [np.array(d, dtype=str) for d in D]
    else:
        items = [INNER_MIXED[(i + off) % len(INNER_MIXED)](d) for i, d in enumerate(D)]
    return OUTER[outer](items)


def token_prune(cell, kw, ignored_name="excluded_tokens"):
    """pruning on/off: data driven (min_occurrences), a caller dictionary lacking tokens, a caller set of tokens"""
    p = cell["prune"]
    if p == "min_occ":
        kw["min_occurrences"] = 2
    elif p == "dict":
        kw["token_dictionary"] = {t: i for i, t in enumerate(["b", "a", "d", "c"])}          # e, f and the rare ones are unknown
    elif p == "excluded":
        kw[ignored_name] = {"c", "e"}
    m = cell["mask"]
    if m != "off":
        kw["mask_string"] = "[MASK]"
        if m == "nullify":
            kw["nullify_mask"] = True
    return kw


def token_cells(seed, nullify=True):
    cells = cross(prune=["off", "min_occ", "dict", "excluded"], mask=["off", "on"], outer=list(OUTER))
    if nullify:
        cells += cross(prune=["min_occ", "off"], mask=["nullify"], outer=list(OUTER))
    return rotate(cells, seed, use_ft=[False, True], pool_outer=list(OUTER), inner=INNER_MODES)


def token_like(cls, name, rng, cell, kw, conv=lambda D: D, minlen=2, poison=None, alias_attrs=("token_label_dictionary_",), plain=True):
    """the scenario shared by the estimators that take sequences of tokens; conv turns token documents into the
    estimator's items (timestamps, multisets)"""
    n = int(rng.randint(4, 7))
    base = docs(rng, n, minlen=minlen)
    D = with_rare(base)
    A = with_rare(docs(rng, 4, minlen=minlen), tag="zz")               # unknown tokens in every document
    B = relabel(rng, A)                                                # same shape, other tokens, same vocabulary size
    C = docs(rng, 2, minlen=minlen)
    D2 = revocab(relabel(rng, D))
    o, po = cell["outer"], cell["pool_outer"]
    others = [x for x in OUTER if x != po]
    # plain token documents can also be numpy string arrays; items with structure (timestamps, multisets) cannot
    modes = [cell["inner"], INNER_MODES[1 - INNER_MODES.index(cell["inner"])]] if plain else ["mixed", "mixed"]
    fitd = freeze((pack(conv(D), o, 0, modes[0]), {}))
    pool = [freeze((pack(conv(A), po, 1, modes[1]), {})), freeze((pack(conv(B), po, 1, modes[1]), {})),
            freeze((pack(conv(C), others[0], 2, modes[0]), {})), freeze((pack(conv(D[:3]), others[1], 3, modes[1]), {})),
            freeze((pack(conv(A), others[2], 0, modes[0]), {}))]
    no_alias = {"token_dictionary": list(alias_attrs)} if "token_dictionary" in kw else {}
    if poison is None:                      # the last item is not a sequence at all: the call fails part-way
        poison = lambda: (conv([["a", "b", "a"], ["b", "a", "a", "b"]]) + [7], {})
    return Scenario(cls, "%s(%r) fit:%s/%s pool:%s/%s" % (name, kw, o, modes[0], po, modes[1]), freeze(kw), fitd, pool, poison=poison,
                    refit_data=freeze((pack(conv(D2), o, 1, modes[0]), {})), use_ft=cell["use_ft"], no_alias=no_alias)


def cells_token(seed):
    return token_cells(seed)


def sc_token(rng, cell, fx):
    kw = token_prune(cell, {})
    kw.update(window_radii=fx["radius"], kernel_functions=fx["kernel"], window_orientations=fx["orient"],
              normalize_windows=fx["normalize"], n_iter=fx["n_iter"])
    return token_like(V.TokenCooccurrenceVectorizer, "TokenCooccurrenceVectorizer", rng, cell, kw,
                      poison=lambda: ([["a", "b"], ["a", 3.5, None]], {}))


def fx_token(rng):
    return {"radius": int(rng.randint(1, 4)), "kernel": str(rng.choice(["flat", "harmonic", "geometric"])),
            "orient": str(rng.choice(["before", "after", "directional"])), "normalize": bool(rng.rand() < 0.5),
            "n_iter": int(rng.choice([0, 0, 1]))}


def timed_conv(rng):
    def conv(D):
        out = []
        for d in D:
            t = np.cumsum(rng.rand(len(d)) + 0.1)
            out.append([(tok, float(tt)) for tok, tt in zip(d, t)])
        return out
    return conv


def cells_timed(seed):
    return token_cells(seed)


def sc_timed(rng, cell, fx):
    kw = token_prune(cell, {})
    kw.update(window_radii=fx["radius"], kernel_functions=fx["kernel"], window_orientations=fx["orient"],
              normalize_windows=fx["normalize"])
    return token_like(V.TimedTokenCooccurrenceVectorizer, "TimedTokenCooccurrenceVectorizer", rng, cell, kw, conv=timed_conv(rng), plain=False)


def fx_timed(rng):
    return {"radius": float(rng.choice([0.5, 1.0, 2.0])), "kernel": str(rng.choice(["flat", "geometric"])),
            "orient": str(rng.choice(["before", "after", "directional"])), "normalize": bool(rng.rand() < 0.5)}


def cells_ngramcooc(seed):
    return token_cells(seed, nullify=False)


def sc_ngramcooc(rng, cell, fx):
    kw = token_prune(cell, {})
    kw.update(ngram_size=fx["ngram"], window_radii=fx["radius"], window_orientations=fx["orient"])
    return token_like(V.NgramCooccurrenceVectorizer, "NgramCooccurrenceVectorizer", rng, cell, kw, minlen=3)


def fx_ngramcooc(rng):
    return {"ngram": int(rng.choice([1, 2])), "radius": int(rng.randint(1, 3)), "orient": str(rng.choice(["before", "after", "directional"]))}


def multiset_conv(rng):
    def conv(D):
        # a document of multisets: consecutive tokens grouped in bags of 1-3
        out = []
        for d in D:
            bags, i = [], 0
            while i < len(d):
                k = int(rng.randint(1, 4))
                bags.append(list(d[i:i + k]))
                i += k
            out.append(bags)
        return out
    return conv


def cells_multiset(seed):
    return token_cells(seed)


def sc_multiset(rng, cell, fx):
    kw = token_prune(cell, {})
    kw.update(window_radii=fx["radius"], kernel_functions=fx["kernel"], window_orientations=fx["orient"],
              normalize_windows=fx["normalize"])
    return token_like(V.MultiSetCooccurrenceVectorizer, "MultiSetCooccurrenceVectorizer", rng, cell, kw, conv=multiset_conv(rng), minlen=3, plain=False)


def fx_multiset(rng):
    return {"radius": int(rng.randint(1, 3)), "kernel": str(rng.choice(["flat", "geometric"])),
            "orient": str(rng.choice(["before", "after", "directional"])), "normalize": bool(rng.rand() < 0.5)}


def cells_skipgram(seed):
    return token_cells(seed, nullify=False)


def sc_skipgram(rng, cell, fx):
    kw = token_prune(cell, {}, ignored_name="ignored_tokens")
    # (a non-empty kernel_args is unusable here: fit passes tuple(*self.kernel_args.values()) to the kernel - not C13's)
    kw.update(window_radius=fx["radius"], kernel_function=fx["kernel"])
    return token_like(V.SkipgramVectorizer, "SkipgramVectorizer", rng, cell, kw, minlen=2)


def fx_skipgram(rng):
    return {"radius": int(rng.randint(1, 4)), "kernel": str(rng.choice(["flat", "harmonic"]))}


def cells_ngram(seed):
    return token_cells(seed, nullify=False)


def sc_ngram(rng, cell, fx):
    kw = token_prune(cell, {})
    kw.update(ngram_size=fx["ngram"], ngram_behaviour=fx["behaviour"])
    return token_like(V.NgramVectorizer, "NgramVectorizer", rng, cell, kw, minlen=1,
                      poison=lambda: ([["a", "b"], ["a", 3.5, None]], {}))


def fx_ngram(rng):
    return {"ngram": int(rng.choice([1, 2, 3])), "behaviour": str(rng.choice(["exact", "subgrams"]))}


# ---- labelled trees
ADJ = ["csr", "csc", "coo", "lil", "dok", "dia", "bsr"]
LABELS = [lambda l: np.array(l, dtype=str), list, lambda l: obj_array(list(l)), tuple]


def tree_shapes(rng, n):
    """adjacency structure (dense 0/1, parent -> child) of n small random trees/forests"""
    out = []
    for _ in range(n):
        m = int(rng.randint(3, 7))
        A = np.zeros((m, m), dtype=np.float64)
        for c in range(1, m):
            if rng.rand() < 0.9:
                A[rng.randint(c), c] = 1.0
        out.append(A)
    return out


def tree_labels(rng, shapes, voc, rare=None):
    out = []
    for i, A in enumerate(shapes):
        l = [voc[rng.randint(len(voc))] for _ in range(A.shape[0])]
        if rare is not None:
            l[int(rng.randint(1, len(l) - 1)) if len(l) > 2 else 0] = "%s%d" % (rare, i)     # an inner node: its removal rewires edges
        out.append(l)
    return out


def pack_trees(shapes, labels, outer, off=0, pair=tuple):
    items = []
    for i, (A, l) in enumerate(zip(shapes, labels)):
        adj = getattr(sp, ADJ[(i + off) % len(ADJ)] + "_matrix")(A)
        items.append(pair((adj, LABELS[(i + off) % len(LABELS)](l))))
    return {"list": list, "tuple": tuple, "ndarray_obj": obj_array}[outer](items)


def cells_tree(seed):
    cells = cross(prune=["off", "min_occ", "dict", "ignored"], mask=["off", "on"], outer=["list", "tuple", "ndarray_obj"])
    return rotate(cells, seed, use_ft=[False, True], pair=["tuple", "list"], fmt_off=list(range(len(ADJ))))


def sc_tree(rng, cell, fx):
    kw = {}
    p = cell["prune"]
    if p == "min_occ":
        kw["min_occurrences"] = 2
    elif p == "dict":
        kw["token_dictionary"] = {t: i for i, t in enumerate(["b", "a", "c"])}
    elif p == "ignored":
        kw["ignored_tokens"] = {"c", "d"}
    if cell["mask"] == "on":
        kw["mask_string"] = "[MASK]"
    kw.update(window_radius=fx["radius"], kernel_function=fx["kernel"], window_orientation=fx["orient"], kernel_args=dict(fx["kargs"]))
    voc = VOC[:4]
    pair = {"tuple": tuple, "list": list}[cell["pair"]]
    # every format occurs among the fitted trees (>= len(ADJ) trees), each tree with a label that occurs once
    sh = tree_shapes(rng, len(ADJ))
    lab = tree_labels(rng, sh, voc, rare="r")
    shA = tree_shapes(rng, len(ADJ))
    labA = tree_labels(rng, shA, voc, rare="zz")              # unknown labels at transform, in every tree
    labB = relabel(rng, labA, voc)
    shC = tree_shapes(rng, 2)
    labC = tree_labels(rng, shC, voc)
    o, f = cell["outer"], cell["fmt_off"]
    fitd = freeze((pack_trees(sh, lab, o, f, pair), {}))
    pool = [freeze((pack_trees(shA, labA, o, f + 1, pair), {})), freeze((pack_trees(shA, labB, o, f + 1, pair), {})),
            freeze((pack_trees(shC, labC, "list", f + 2, pair), {})), freeze((pack_trees(sh[:3], lab[:3], "tuple", f + 3, pair), {}))]
    no_alias = {"token_dictionary": ["token_label_dictionary_"]} if "token_dictionary" in kw else {}
    return Scenario(V.LabelledTreeCooccurrenceVectorizer, "LabelledTreeCooccurrenceVectorizer(%r) outer:%s pair:%s fmt+%d" % (kw, o, cell["pair"], f),
                    freeze(kw), fitd, pool, refit_data=freeze((pack_trees(sh, revocab(relabel(rng, lab, voc)), o, f + 4, pair), {})),
                    use_ft=cell["use_ft"], no_alias=no_alias,
                    poison=lambda: ([(sp.csr_matrix(np.eye(2, k=1)), np.array(["a", "b"])), (sp.csr_matrix(np.eye(3, k=1)), None)], {}))


def fx_tree(rng):
    return {"radius": int(rng.randint(1, 4)), "kernel": str(rng.choice(["flat", "harmonic", "geometric"])),
            "orient": str(rng.choice(["before", "after", "symmetric", "directional"])), "kargs": {"offset": 1} if rng.rand() < 0.4 else {}}


# ---- edge lists
EDGE_CONT = {"list_tuples": lambda e: list(e), "list_lists": lambda e: [list(x) for x in e], "tuple_tuples": lambda e: tuple(e),
             "df": lambda e: pd.DataFrame(list(e), columns=["r", "c", "v"]), "ndarray_obj": lambda e: np.array(list(e), dtype=object)}


def edges(rng, rows, cols, n):
    return [(rows[rng.randint(len(rows))], cols[rng.randint(len(cols))], int(rng.randint(1, 5))) for _ in range(n)]


def cells_edgelist(seed):
    cells = [dict(c, cont=k) for c in [{"dicts": "none", "joint": False}, {"dicts": "row", "joint": False}, {"dicts": "col", "joint": False},
                                       {"dicts": "both", "joint": False}, {"dicts": "none", "joint": True}, {"dicts": "row", "joint": True}]
             for k in EDGE_CONT]
    return rotate(cells, seed, use_ft=[False, True])


def sc_edgelist(rng, cell, fx):
    rows, cols = ["r%d" % i for i in range(4)], ["c%d" % i for i in range(5)]
    if cell["joint"]:
        cols = rows + ["c0"]
    kw = {}
    if cell["dicts"] in ("row", "both"):
        kw["row_label_dictionary"] = {t: i for i, t in enumerate(rows[:3])}           # r3 unknown: pruned
    if cell["dicts"] in ("col", "both"):
        kw["column_label_dictionary"] = {t: i for i, t in enumerate(cols[:4])}
    if cell["joint"]:
        kw["joint_space"] = True
    names = list(EDGE_CONT)
    c0 = names.index(cell["cont"])
    cont = lambda j: EDGE_CONT[names[(c0 + j) % len(names)]]
    D = edges(rng, rows, cols, int(rng.randint(8, 15)))
    A = edges(rng, rows + ["zz"], cols, 7)
    perm_r = {r: rows[(i + 1) % len(rows)] for i, r in enumerate(rows)}
    B = [(perm_r.get(r, r), c, v) for r, c, v in A]
    pool = [freeze((cont(1)(A), {})), freeze((cont(1)(B), {})), freeze((cont(2)(D[:4]), {})), freeze((cont(3)(A), {})), freeze((cont(4)(D), {}))]
    D2 = [("q0" if perm_r.get(r, r) == "r0" else perm_r.get(r, r), "q1" if c == "c1" else c, int(v) + 1) for r, c, v in D]   # other labels too
    no_alias = {}
    return Scenario(V.EdgeListVectorizer, "EdgeListVectorizer(%r) cont:%s" % (kw, cell["cont"]), freeze(kw), freeze((cont(0)(D), {})),
                    pool, refit_data=freeze((cont(0)(D2), {})), use_ft=cell["use_ft"], no_alias=no_alias,
                    poison=lambda: ([("r0", "c0", 1), ("r1",)], {}))


# ---- distributions, histograms, KDE
def points(rng, n, dim=2, size=None):
    return [rng.normal(loc=rng.normal(size=dim), size=(size or rng.randint(8, 16), dim)) for _ in range(n)]


DIST_CONT = {"list_arr": lambda v: list(v), "tuple_arr": lambda v: tuple(v), "nd3": lambda v: np.array(list(v)),
             "f32": lambda v: [x.astype(np.float32) for x in v], "forder": lambda v: [np.asfortranarray(x) for x in v]}


def cells_distribution(seed):
    return rotate(cross(size=["tiny", "big"]), seed, cont=list(DIST_CONT), use_ft=[False, True])


def sc_distribution(rng, cell, fx):
    kw = {"n_components": fx["k"], "random_state": fx["rs"]}
    names = list(DIST_CONT)
    c0 = names.index(cell["cont"])
    cont = lambda j: DIST_CONT[names[(c0 + j) % len(names)]]
    # big: a few dozen point clouds (the mixture's EM and its k-means start really iterate)
    D, A = points(rng, int(rng.randint(40, 61)) if cell["size"] == "big" else 5, size=10), points(rng, 3, size=9)
    B = [a[::-1] * 0.5 + 0.25 for a in A]
    pool = [freeze((cont(1)(A), {})), freeze((cont(1)(B), {})), freeze((cont(2)(D[:2]), {})), freeze((cont(3)(A), {})), freeze((cont(4)(B), {}))]
    return Scenario(V.DistributionVectorizer, "DistributionVectorizer(%r) cont:%s clouds=%d" % (kw, cell["cont"], len(D)), freeze(kw), freeze((cont(0)(D), {})), pool,
                    seeded=True, refit_data=freeze((cont(0)([d * 1.5 - 0.5 for d in D]), {})), use_ft=cell["use_ft"],
                    poison=lambda: ([np.zeros((3, 2)), "nope"], {}))


def fx_distribution(rng):
    return {"k": int(rng.randint(2, 5)), "rs": int(rng.randint(1000))}


def values(rng, n, size=None):
    return [rng.poisson(rng.choice([2.0, 5.0, 9.0]), size=size or rng.randint(6, 20)).astype(np.float64) for _ in range(n)]


HIST_CONT = {"list_arr": lambda v: list(v), "tuple_arr": lambda v: tuple(v), "list_list": lambda v: [x.tolist() for x in v],
             "list_tuple": lambda v: [tuple(x.tolist()) for x in v], "nd2": lambda v: np.array(list(v)),
             "series": lambda v: pd.Series([x.tolist() for x in v]), "ndarray_obj": lambda v: obj_array(list(v)),
             "list_int": lambda v: [x.astype(np.int64) for x in v]}
# (a list of pd.Series makes HistogramVectorizer.fit raise "truth value of a Series is ambiguous" - not C13's)
KDE_CONT = {k: HIST_CONT[k] for k in ("list_arr", "tuple_arr", "nd2", "ndarray_obj", "list_int")}


def value_like(cls, name, kw, rng, cell, conts):
    names = list(conts)
    c0 = names.index(cell["cont"])
    cont = lambda j: conts[names[(c0 + j) % len(names)]]
    D, A = values(rng, 5, size=12), values(rng, 3, size=10)       # equal lengths: valid in every container (2-d arrays too)
    B = [a[::-1].copy() + 1.0 for a in A]
    pool = [freeze((cont(1)(A), {})), freeze((cont(1)(B), {})), freeze((cont(2)(D[:2]), {})), freeze((cont(3)(A), {})), freeze((cont(4)(B), {}))]
    return Scenario(cls, "%s(%r) cont:%s" % (name, kw, cell["cont"]), freeze(kw), freeze((cont(0)(D), {})), pool,
                    refit_data=freeze((cont(0)([d[::-1].copy() + 2.0 for d in D]), {})), use_ft=cell["use_ft"],
                    poison=lambda: ([np.arange(4.0), "nope"], {}))


def cells_histogram(seed):
    return rotate(cross(outlier=[False, True], cont=list(HIST_CONT)), seed, use_ft=[False, True])


def sc_histogram(rng, cell, fx):
    kw = {"n_components": fx["k"], "strategy": fx["strategy"], "append_outlier_bins": cell["outlier"]}
    return value_like(V.HistogramVectorizer, "HistogramVectorizer", kw, rng, cell, HIST_CONT)


def fx_histogram(rng):
    return {"k": int(rng.randint(3, 10)), "strategy": str(rng.choice(["uniform", "quantile"]))}


def cells_kde(seed):
    return rotate(cross(bandwidth=[None, 0.5]), seed, cont=list(KDE_CONT), use_ft=[False, True])


def sc_kde(rng, cell, fx):
    kw = {"n_components": fx["k"], "kernel": fx["kernel"]}
    if cell["bandwidth"]:
        kw["bandwidth"] = cell["bandwidth"]
    return value_like(V.KDEVectorizer, "KDEVectorizer", kw, rng, cell, KDE_CONT)


def fx_kde(rng):
    return {"k": int(rng.randint(3, 10)), "kernel": str(rng.choice(["gaussian", "tophat"]))}


# ---- strings
def strings(rng, n):
    al = "abcab "
    return ["".join(al[rng.randint(len(al))] for _ in range(rng.randint(4, 25))) for _ in range(n)]


STR_CONT = {"list": lambda s: list(s), "tuple": lambda s: tuple(s), "ndarray_obj": lambda s: obj_array(list(s)),
            "series": lambda s: pd.Series(list(s)), "generator": lambda s: GenOf(list(s))}


def string_like(cls, name, kw, rng, cell, conts, mk, seeded=False):
    names = list(conts)
    c0 = names.index(cell["cont"])
    cont = lambda j: conts[names[(c0 + j) % len(names)]]
    D, A = mk(5), mk(3)
    tr = str.maketrans("abc", "bca")
    B = [a.translate(tr) for a in A]
    pool = [freeze((cont(1)(A), {})), freeze((cont(1)(B), {})), freeze((cont(2)(D[:2]), {})), freeze((cont(3)(D[::-1]), {})), freeze((cont(4)(A), {}))]
    return Scenario(cls, "%s(%r) cont:%s" % (name, kw, cell["cont"]), freeze(kw), freeze((cont(0)(D), {})), pool, seeded=seeded,
                    refit_data=freeze((cont(0)([d.translate(tr).replace("a", "q") for d in D]), {})), use_ft=cell["use_ft"],
                    poison=lambda: (["abcabc", 17], {}))


def cells_lz(seed):
    cells = [{"cols": None, "dsize": None, "based": False}, {"cols": 8, "dsize": None, "based": False},
             {"cols": None, "dsize": 4, "based": False}, {"cols": None, "dsize": None, "based": True}, {"cols": 32, "dsize": 16, "based": True}]
    return rotate(cells, seed, cont=list(STR_CONT), use_ft=[False, True])


def sc_lz(rng, cell, fx):
    # the hash of the (default) hashed mode is drawn from random_state: without an integer seed the fit is random
    # by documentation, so every scenario passes one
    kw = {"random_state": fx["rs"]}
    if cell["cols"]:
        kw["max_columns"] = cell["cols"]
    if cell["dsize"]:
        kw["max_dict_size"] = cell["dsize"]
    if cell["based"]:
        kw["base_dictionary"] = {1: 1, 7: 1}                             # a caller-owned dictionary parameter
    return string_like(V.LZCompressionVectorizer, "LZCompressionVectorizer", kw, rng, cell, STR_CONT, lambda n: strings(rng, n), seeded=True)


def fx_lz(rng):
    return {"rs": int(rng.randint(1000))}


def cells_bpe(seed):
    return rotate(cross(ret=["matrix", "sequences", "tokens"], vocab=[3, 8], cont=["list", "tuple"]), seed, use_ft=[False, True])


def sc_bpe(rng, cell, fx):
    # NOT OWNED (D14): contract_pair copied the tail of a string with a loop variable that may be unset; scenarios keep
    # using strings of >= 8 characters and few merges.
    kw = {"max_vocab_size": cell["vocab"], "return_type": cell["ret"]}
    conts = {k: STR_CONT[k] for k in ("list", "tuple")}
    return string_like(V.BytePairEncodingVectorizer, "BytePairEncodingVectorizer", kw, rng, cell, conts,
                       lambda n: [x + "abcab ab" for x in strings(rng, n)])


# ---- sparse matrix formats (shared by the optimal transport family and the transformers)
SPARSE = ["csr", "csc", "coo", "lil", "dok", "dia", "bsr", "csr_unsorted", "csc_unsorted", "csr_zeros", "csc_zeros"]


def mat_fmt(M, fmt):
    """the dense matrix M in the given format; *_unsorted: the entries of every row (column) in reverse order;
    *_zeros: with an explicitly stored zero at a position where M is zero"""
    if fmt == "ndarray":
        return np.array(M, copy=True)
    base, _, var = fmt.partition("_")
    if var == "zeros":
        r, c = np.nonzero(M)
        zr, zc = np.nonzero(M == 0)
        d = M[r, c]
        if len(zr):
            r, c, d = np.append(r, zr[0]), np.append(c, zc[0]), np.append(d, 0.0)
        A = getattr(sp, base + "_matrix")((d, (r, c)), shape=M.shape)
        return A
    A = getattr(sp, base + "_matrix")(M)
    if var == "unsorted":
        for i in range(len(A.indptr) - 1):
            lo, hi = A.indptr[i], A.indptr[i + 1]
            if hi - lo >= 2:
                A.indices[lo:hi] = A.indices[lo:hi][::-1].copy()
                A.data[lo:hi] = A.data[lo:hi][::-1].copy()
        A.has_sorted_indices = False
    return A


class Boom(RuntimeError):
    pass


# ---- optimal transport family
OT_FMT = SPARSE + ["ndarray"]
VEC = {"f64": lambda v: np.array(v, dtype=np.float64), "forder": lambda v: np.asfortranarray(v), "df": lambda v: pd.DataFrame(np.array(v))}
VEC_FIT = dict(VEC, list=lambda v: np.array(v).tolist())          # transform reads vectors.shape: no list there


def ot_dense(rng, n_rows, n_cols, zero_row=False):
    M = rng.rand(n_rows, n_cols) * (rng.rand(n_rows, n_cols) < 0.5)
    for i in range(n_rows):
        if M[i].sum() == 0:
            M[i, rng.randint(n_cols)] = 1.0
    if zero_row:
        M[n_rows - 1] = 0
    return M


def ot_components(rng, metric, method, ref, dim):
    """n_components must not exceed the rank of the vectors the SVD sees (ref x dim LOT coordinates, one less per
    reference point on the sphere, dim for the linear-algebra heuristics): beyond the rank the extra component is an
    arbitrary null-space direction decided by rounding noise, and 'the same model to 1e-9' is not a meaningful claim."""
    eff = dim if method in ("HeuristicLinearAlgebra", "approx") else ref * (dim - 1 if metric == "cosine" else dim)
    return int(rng.randint(2, min(3, eff) + 1)) if eff >= 2 else 1


def rot(names, start, j):
    return names[(names.index(start) + j) % len(names)]


def ot_sparse_data(rng, cell, n_cols, dim, n_rows, with_vec_kw=True, zero_row=False, na=None):
    """fit data, pool, refit data, poison for the estimators that take (matrix, vectors=...)"""
    fmt = lambda j: rot(OT_FMT, cell["fmt"], j)
    vec = lambda j: VEC[rot(list(VEC), cell["vec"] if cell["vec"] in VEC else "f64", j)]
    V1, V2, V3 = rng.normal(size=(n_cols, dim)), rng.normal(size=(n_cols, dim)), rng.normal(size=(n_cols, dim))
    X = ot_dense(rng, n_rows, n_cols, zero_row=zero_row)
    X2 = ot_dense(rng, n_rows, n_cols)
    na = na or int(rng.randint(6, 10))
    XA, XB, XC = ot_dense(rng, na, n_cols), ot_dense(rng, na, n_cols), ot_dense(rng, int(rng.randint(2, 5)), n_cols)
    kwv = (lambda v: {"vectors": v}) if with_vec_kw else (lambda v: {})
    fitd = freeze((mat_fmt(X, fmt(0)), {"vectors": VEC_FIT[cell["vec"]](V1)}))
    pool = [freeze((mat_fmt(XA, fmt(1)), kwv(vec(0)(V1)))), freeze((mat_fmt(XB, fmt(1)), kwv(vec(0)(V2)))),
            freeze((mat_fmt(XA, fmt(2)), kwv(vec(1)(V2)))), freeze((mat_fmt(XC, fmt(3)), kwv(vec(2)(V1)))),
            freeze((mat_fmt(XB, fmt(4)), kwv(vec(1)(V1)))), freeze((mat_fmt(XA, fmt(5)), kwv(vec(2)(V3))))]
    refit = freeze((mat_fmt(X2, fmt(6)), {"vectors": VEC_FIT[cell["vec"]](V3)}))
    poison = lambda: (mat_fmt(ot_dense(rng, 3, n_cols + 1), "csr"), kwv(np.array(V1)))
    return fitd, pool, refit, poison


def ot_lil(rng, nr, dim, sizes=None):
    d, v = [], []
    for i in range(nr):
        k = int(sizes[i]) if sizes is not None else int(rng.randint(2, 6))
        d.append(rng.rand(k) * 3 + 0.05)
        v.append(rng.normal(size=(k, dim)))
    return d, v


LIL_X = {"list": list, "tuple": tuple, "typedlist": lambda d: numba.typed.List(d)}
LIL_V = {"list": list, "tuple": tuple}


W_PATHS = ["spmatrix/LOT_exact", "spmatrix/LOT_sinkhorn", "spmatrix/HeuristicLinearAlgebra", "lil/LOT_exact", "generator/LOT_exact"]


def cells_wasserstein(seed):
    cells = cross(path=W_PATHS, memory=["small", "2G"], cachedir=[None, "CACHEDIR"], metric=["cosine", "euclidean"])
    # sizes at which the randomised SVD is not exact: every path, one block and several blocks, both metrics
    cells = with_big(cells, cross(path=W_PATHS, memory=["small", "2G"], metric=["cosine", "euclidean"]), seed)
    return rotate(cells, seed, fmt=OT_FMT, vec=list(VEC_FIT), ref=["default", "given"],
                  use_ft=[False, True], fault=["svd", "internal", "badref"], lilx=list(LIL_X), lilv=list(LIL_V))


def ot_sizes(rng, cell, method, uniform=False):
    """(n_cols, dim, ref, n_rows, n_components, block rows, memory_size, rows of the pool inputs A / B, n_svd_iter).
    tiny: reference 3 x dim 2-3, blocks of 3 rows (a size below one row divides by zero in transform: not C13's).
    big: 40-60 rows, LOT coordinates of rank >= 15 (reference 5 x dim 4-5, one less per reference point on the sphere;
    dim 16 for the linear-algebra heuristic, whose SVD sees rows x dim), n_components 2-3, so that
    n_components + 10 oversamples < min(rows of a block, rank): randomized_svd is really randomised, and 0 or 1 power
    iterations (n_svd_iter = the cell's svd_iter; with the default 7-10, and on the smooth Sinkhorn vectors already
    with 2, it converges to the exact SVD to ~1e-9 on such small matrices and the random start is forgotten - tiny
    cells keep the default); memory_size gives
    blocks of b rows, n_components + 12 <= b <= rows / 2, i.e. at least two full blocks.
    uniform (generator input under the cosine metric only): the library hands each chunk of a stream to numba as a
    TUPLE of arrays there, and numba compiles the kernel anew for every tuple length (3-7 s each), so these cells use
    few distinct lengths: rows a multiple of the block, 18 rows in blocks of 3 or 48 rows in blocks of 16 (the ragged
    last block is covered by the euclidean cells, where the chunks are typed lists)."""
    metric = cell["metric"]
    if cell.get("size") == "big":
        n_cols, dim, ref = (20, 16, 5) if method in ("HeuristicLinearAlgebra", "approx") else (12, int(rng.randint(4, 7)), 5)
        n_rows = int(rng.randint(40, 61))
        ncomp = int(rng.randint(2, 4))
        b = int(rng.randint(ncomp + 12, n_rows // 2 + 1))
        niter = cell["svd_iter"]
    else:
        n_cols, dim, ref = 6, int(rng.randint(2, 4)), 3
        n_rows = int(rng.randint(14, 20))
        ncomp = ot_components(rng, metric, method, ref, dim)
        b, niter = 3, None
    if uniform:
        n_rows, b = (48, 16) if cell.get("size") == "big" else (18, 3)
    if cell.get("memory") == "small":
        mem, block = str(ref * dim * 8 * b + ref * dim * 8 - 8), b           # one row of LOT coordinates takes ref * dim * 8 bytes
        na = b + int(rng.randint(3, 7))                                      # ... and every transform of A / B takes >= 2 blocks
    else:
        mem, block, na = "2G", 10 ** 9, int(rng.randint(6, 10))
    return n_cols, dim, ref, n_rows, ncomp, block, mem, na, niter


def sc_wasserstein(rng, cell, fx):
    im, method = cell["path"].split("/")
    metric = cell["metric"]
    uniform = im == "generator" and metric == "cosine"
    n_cols, dim, ref, n_rows, ncomp, block, mem, na, niter = ot_sizes(rng, cell, method, uniform)
    kw = {"input_method": im, "method": method, "n_components": ncomp,
          "random_state": int(rng.randint(1000)), "metric": metric, "memory_size": mem}
    if niter is not None:
        kw["n_svd_iter"] = niter
    if method != "HeuristicLinearAlgebra":
        kw["reference_size"] = ref
    if cell["cachedir"]:
        kw["cachedir"] = "CACHEDIR"                  # replaced by a private directory by the runner
    given = cell["ref"] == "given" and method != "HeuristicLinearAlgebra"
    refkw = lambda: {"reference_vectors": rng.normal(size=(ref, dim)), "reference_distribution": np.full(ref, 1.0 / ref)}
    internal = {"LOT_exact": "lot_vectors_sparse_internal", "LOT_sinkhorn": "sinkhorn_vectors_sparse_internal"}.get(method) if im == "spmatrix" \
        else "lot_vectors_dense_internal"
    fault = None
    nb_fit = n_rows // block + 1
    if method != "HeuristicLinearAlgebra":
        kind = cell["fault"]
        if kind == "badref" and im == "generator":
            kind = "gen"
        fault = {"svd": ("svd", int(rng.randint(1, min(nb_fit, 3) + 1))),
                 "internal": ("internal:" + internal, int(rng.randint(1, min(nb_fit, 3) + 1))),
                 "badref": ("badref", 0), "gen": ("gen", int(rng.randint(1, n_rows)))}[kind]
    tr_blocks = 2 if cell["memory"] == "small" else 1
    desc = "WassersteinVectorizer(%r) rows=%d block=%s X:%s vectors:%s ref:%s" % (kw, n_rows, block if block < 10 ** 9 else "all", cell["fmt"] if im == "spmatrix" else cell["lilx"],
                                                                                   cell["vec"] if im == "spmatrix" else cell["lilv"], "given" if given else "default")
    if im == "spmatrix":
        fitd0, pool, refit0, poison = ot_sparse_data(rng, cell, n_cols, dim, n_rows, zero_row=False, na=na)
        extra = refkw() if given else {}
        extra2 = refkw() if given else {}
        fitd = lambda: (lambda Xk: (Xk[0], dict(Xk[1], **copy.deepcopy(extra))))(fitd0())
        refit = lambda: (lambda Xk: (Xk[0], dict(Xk[1], **copy.deepcopy(extra2))))(refit0())
        return Scenario(V.WassersteinVectorizer, desc, freeze(kw), fitd, pool, poison=poison, seeded=True, fault=fault,
                        fault_tr=internal, refit_data=refit, use_ft=cell["use_ft"], tr_blocks=tr_blocks)
    sizes = rng.randint(2, 6, size=n_rows)
    d, v = ot_lil(rng, n_rows, dim, sizes)
    d2, v2 = ot_lil(rng, n_rows, dim, sizes)
    if im == "lil":
        cx, cv = LIL_X[cell["lilx"]], LIL_V[cell["lilv"]]
        sa = rng.randint(2, 6, size=na)
        (dA, vA), (dB, vB), (dC, vC) = ot_lil(rng, na, dim, sa), ot_lil(rng, na, dim, sa), ot_lil(rng, 3, dim)
        extra = refkw() if given else {}
        # (containers are built inside the factories: a numba typed List is not made to be deep-copied)
        mk = lambda dd, vv, x=cx, y=cv, e={}: (lambda: (x(copy.deepcopy(dd)), dict({"vectors": y(copy.deepcopy(vv))}, **copy.deepcopy(e))))
        pool = [mk(dA, vA), mk(dB, vB), mk(dA, vB), mk(dC, vC, list, tuple), mk(dB, vA, tuple, list), mk(d[:4], v[:4])]
        fitd = mk(d, v, e=extra)
        refit = mk(d2, v2, e=extra)
        return Scenario(V.WassersteinVectorizer, desc, freeze(kw), fitd, pool, seeded=True, fault=fault, fault_tr=internal,
                        poison=lambda: ([np.ones(2), "nope"], {"vectors": [np.zeros((2, dim)), np.zeros((2, dim))]}),
                        refit_data=refit, use_ft=cell["use_ft"], tr_blocks=tr_blocks)
    kw["generator_vector_dim"] = dim
    kw["generator_n_distributions"] = n_rows
    kw.pop("reference_size", None)
    extra = refkw()
    (dB, vB), (dC, vC) = ot_lil(rng, n_rows, dim, sizes), ot_lil(rng, n_rows, dim)
    g = lambda dd, vv: freeze((GenOf(dd), {"vectors": GenOf(vv)}))
    fitd = freeze((GenOf(d), dict({"vectors": GenOf(v)}, **extra)))
    refit = freeze((GenOf(d2), dict({"vectors": GenOf(v2)}, **extra)))
    # streams as long as generator_n_distributions says, and shorter ones (reading stops when the stream ends)
    ns = max(2, n_rows // 3)
    ns2 = n_rows if uniform else ns + 1
    pool = [g(d, v), g(dB, vB), g(d, vB), g(dC[:ns], vC[:ns]), g(dC, vC), g(dB[:ns2], vB[:ns2])]
    desc = "WassersteinVectorizer(%r) rows=%d block=%s generators" % (kw, n_rows, block if block < 10 ** 9 else "all")
    return Scenario(V.WassersteinVectorizer, desc, freeze(kw), fitd, pool, seeded=True, fault=fault, fault_tr=internal,
                    refit_data=refit, use_ft=cell["use_ft"], tr_blocks=tr_blocks)


def cells_sinkhorn(seed):
    cells = cross(memory=["small", "2G"], cachedir=[None, "CACHEDIR"], metric=["cosine", "euclidean"])
    cells = with_big(cells, cross(memory=["small", "2G"], metric=["cosine", "euclidean"]), seed)
    return rotate(cells, seed, fmt=OT_FMT, vec=list(VEC_FIT), use_ft=[False, True], fault=["svd", "internal"])


def sc_sinkhorn(rng, cell, fx):
    metric = cell["metric"]
    n_cols, dim, ref, n_rows, ncomp, block, mem, na, niter = ot_sizes(rng, cell, "LOT_sinkhorn")
    kw = {"n_components": ncomp, "random_state": int(rng.randint(1000)),
          "reference_size": ref, "metric": metric, "memory_size": mem}
    if niter is not None:
        kw["n_svd_iter"] = niter
    if cell["cachedir"]:
        kw["cachedir"] = "CACHEDIR"
    fitd, pool, refit, poison = ot_sparse_data(rng, cell, n_cols, dim, n_rows, na=na)
    k = int(rng.randint(1, min(n_rows // block + 1, 3) + 1))
    fault = ("svd", k) if cell["fault"] == "svd" else ("internal:sinkhorn_vectors_sparse_internal", k)
    return Scenario(V.SinkhornVectorizer, "SinkhornVectorizer(%r) rows=%d block=%s X:%s vectors:%s" % (kw, n_rows, block if block < 10 ** 9 else "all", cell["fmt"], cell["vec"]), freeze(kw),
                    fitd, pool, poison=poison, seeded=True, fault=fault, fault_tr="sinkhorn_vectors_sparse_internal",
                    refit_data=refit, use_ft=cell["use_ft"], tr_blocks=2 if cell["memory"] == "small" else 1)


def cells_approxw(seed):
    cells = with_big(cross(power=[1.0, 0.5], fmt=OT_FMT), cross(power=[1.0, 0.5, 1.0, 0.5]), seed)      # (the format of the big cells walks on)
    return rotate(cells, seed, vec=list(VEC_FIT), use_ft=[False, True])


def sc_approxw(rng, cell, fx):
    n_cols, dim, _, n_rows, ncomp, _, _, _, niter = ot_sizes(rng, dict(cell, metric="euclidean"), "approx")
    if cell["size"] != "big":
        n_rows = int(rng.randint(8, 14))
    kw = {"n_components": ncomp, "random_state": int(rng.randint(1000)), "normalization_power": cell["power"]}
    if niter is not None:
        kw["n_svd_iter"] = niter
    fitd, pool, refit, poison = ot_sparse_data(rng, cell, n_cols, dim, n_rows, with_vec_kw=False)
    return Scenario(V.ApproximateWassersteinVectorizer, "ApproximateWassersteinVectorizer(%r) rows=%d dim=%d X:%s vectors:%s" % (kw, n_rows, dim, cell["fmt"], cell["vec"]),
                    freeze(kw), fitd, pool, poison=poison, seeded=True, refit_data=refit, use_ft=cell["use_ft"])


# ---- transformers
def count_dense(rng, n_rows, n_cols):
    M = (rng.poisson(1.0, size=(n_rows, n_cols)) * (rng.rand(n_rows, n_cols) < 0.6)).astype(np.float64)
    M[0, 0] = 2.0
    M[1 % n_rows, 1 % n_cols] = 1.0
    M[:, n_cols - 1] = np.maximum(M[:, n_cols - 1], 1.0)      # no empty row
    M[n_rows - 1, :] = np.maximum(M[n_rows - 1, :], 1.0)      # no empty column
    M[0, n_cols - 1] = 0.0                                    # ... and at least one zero to store explicitly
    M[0, 1] = max(M[0, 1], 1.0)
    return M


def mirror(M):
    """boundary data: the matrix is made invariant under exchanging columns 1 and 3 together with rows 2 and 3, so it has
    a singular vector with entries of equal size and opposite sign (a tie for every sign convention)"""
    M = M.copy()
    M[:, 3] = M[:, 1]
    M[2:6] = 0.0
    M[2, 1] = M[3, 3] = M[4, 1] = M[5, 3] = 2.0          # (twice, so that this direction is among the leading ones)
    return M


def matrix_like(cls, name, kw, rng, cell, fit_fmts, pool_fmts, fit_kw=None, seeded=False, n_cols=None, strict_shape=False, n_rows=None):
    n_rows, n_cols = n_rows or int(rng.randint(6, 10)), n_cols or int(rng.randint(4, 7))
    ff = lambda j: rot(fit_fmts, cell["fmt"], j)
    pf = lambda j: rot(pool_fmts, cell["fmt"], j)
    X, X2 = count_dense(rng, n_rows, n_cols), count_dense(rng, n_rows, n_cols)
    if cell.get("data") == "mirror":
        X, X2 = mirror(X), mirror(X2)
    if cell.get("data") == "lowrank":
        # rank-deficient training data (every row a multiple of one of two base rows): a fitted scaling with a
        # vanishing singular value, the direction transform must treat as dead on EVERY call
        base = count_dense(rng, 2, n_cols) + 1.0
        pick = rng.randint(0, 2, size=n_rows)
        X = base[pick] * rng.randint(1, 4, size=(n_rows, 1))
        X2 = base[pick[::-1]] * rng.randint(1, 4, size=(n_rows, 1))
    A, B, C = count_dense(rng, 5, n_cols), count_dense(rng, 5, n_cols), count_dense(rng, 3, n_cols)
    fk = fit_kw or (lambda: {})
    pool = [freeze((mat_fmt(A, pf(1)), {})), freeze((mat_fmt(B, pf(1)), {})), freeze((mat_fmt(A, pf(2)), {})),
            freeze((mat_fmt(C, pf(3)), {})), freeze((mat_fmt(X, pf(4)), {})), freeze((mat_fmt(B, pf(5)), {}))]
    fkw = fk()
    return Scenario(cls, "%s(%r) X:%dx%d %s%s %s" % (name, kw, n_rows, n_cols, cell["fmt"], " y" if fkw else "", cell.get("data", "")), freeze(kw), freeze((mat_fmt(X, ff(0)), fkw)), pool,
                    seeded=seeded, refit_data=freeze((mat_fmt(X2, ff(3)), fk())), use_ft=cell["use_ft"],
                    poison=(lambda: (mat_fmt(count_dense(rng, 3, n_cols + 2), "csr"), {})) if strict_shape else (lambda: ("not a matrix", {})))


INFO_FMT = SPARSE + ["ndarray"]


def cells_infoweight(seed):
    return rotate(cross(approx=[True, False], y=[False, True], fmt=INFO_FMT), seed, use_ft=[False, True], prior=[1e-4, 0.1, 1.0], data=["random", "mirror"])


def sc_infoweight(rng, cell, fx):
    kw = {"prior_strength": cell["prior"], "approx_prior": cell["approx"]}
    n = [None]
    fk = (lambda: {"y": np.arange(64)[: n[0]] % 2}) if cell["y"] else None
    # y must have as many entries as X has rows: fix the row count first
    state = rng.get_state()
    n[0] = int(rng.randint(6, 10))
    rng.set_state(state)
    return matrix_like(T.InformationWeightTransformer, "InformationWeightTransformer", kw, rng, cell, INFO_FMT, INFO_FMT, fit_kw=fk)


def cells_rowdenoise(seed):
    return rotate(cross(normalize=[False, True], fmt=SPARSE), seed, use_ft=[False, True], prior=[5.0, 10.0], data=["random", "mirror"])


def sc_rowdenoise(rng, cell, fx):
    kw = {"normalize": cell["normalize"], "em_background_prior": cell["prior"]}
    return matrix_like(T.RowDenoisingTransformer, "RowDenoisingTransformer", kw, rng, cell, SPARSE, SPARSE)


CFC_FIT = ["csr", "csc", "coo", "dia", "bsr", "csr_unsorted", "csc_unsorted", "csr_zeros", "csc_zeros"]     # fit reads X.data: no lil / dok


def cells_cfc(seed):
    # big: 40-60 rows x 16-20 columns, n_components 2-3: randomized_svd's range finder does not span everything
    cells = with_big(cross(algorithm=["randomized", "arpack"], fmt=CFC_FIT), cross(algorithm=["randomized", "randomized", "arpack", "arpack"]), seed)
    return rotate(cells, seed, use_ft=[False, True], data=["random", "mirror", "lowrank"])


def sc_cfc(rng, cell, fx):
    big = cell["size"] == "big"
    kw = {"n_components": int(rng.randint(2, 4)) if big else 2, "algorithm": cell["algorithm"], "random_state": int(rng.randint(1000))}
    if cell.get("data") == "lowrank":
        kw["n_components"] = 3                      # above the rank (2) of the training data, below n_features
    if big:
        kw["n_iter"] = cell["svd_iter"]            # (as in ot_sizes: no or one power iteration, the random start matters)
    return matrix_like(T.CountFeatureCompressionTransformer, "CountFeatureCompressionTransformer", kw, rng, cell, CFC_FIT,
                       CFC_FIT + ["lil", "dok"], seeded=True, n_cols=int(rng.randint(16, 21) if big else rng.randint(5, 8)), strict_shape=True,
                       n_rows=int(rng.randint(40, 61)) if big else None)


def seqs(rng, n, size=None):
    return [rng.normal(size=size or rng.randint(8, 20)) for _ in range(n)]


SEQ_CONT = {"list_arr": lambda v: list(v), "tuple_arr": lambda v: tuple(v), "list_list": lambda v: [x.tolist() for x in v],
            "nd2": lambda v: np.array(list(v)), "list_series": lambda v: [pd.Series(x) for x in v]}


def seq_like(cls, name, kw, rng, cell, claim=True):
    names = list(SEQ_CONT)
    cont = lambda j: SEQ_CONT[rot(names, cell["cont"], j)]
    D, A = seqs(rng, 3, size=12), seqs(rng, 3, size=10)
    B = [a[::-1] * 2.0 for a in A]
    pool = [freeze((cont(1)(A), {})), freeze((cont(1)(B), {})), freeze((cont(2)(D[:1]), {})), freeze((cont(3)(A), {})), freeze((cont(4)(B), {}))]
    return Scenario(cls, "%s(%r) cont:%s" % (name, kw, cell["cont"]), freeze(kw), freeze((cont(0)(D), {})), pool,
                    claim_seed=claim, compare_attrs=claim, refit_data=freeze((cont(0)([d * -1.0 for d in D]), {})),
                    use_ft=cell["use_ft"], poison=lambda: ([np.arange(12.0), "nope"], {}))


def cells_sliding(seed):
    cells = cross(sample=[None, "index", "random"], kernels=[False, True])
    return rotate(cells, seed, cont=list(SEQ_CONT), use_ft=[False, True])


def sc_sliding(rng, cell, fx):
    w = fx["width"]
    kw = {"window_width": w, "window_stride": fx["stride"]}
    claim = True
    if cell["sample"] == "random":
        kw["window_sample"] = "random"
        kw["window_sample_size"] = max(1, w - 1)
        claim = False         # documented as random, no seed parameter (np.random.choice in fit)
    elif cell["sample"] == "index":
        kw["window_sample"] = np.arange(w)[::-1].copy()          # an index array: a caller-owned parameter object
    if cell["kernels"]:
        kw["kernels"] = [("differences", 0, 1, 1)]
    return seq_like(T.SlidingWindowTransformer, "SlidingWindowTransformer", kw, rng, cell, claim=claim)


def fx_sliding(rng):
    return {"width": int(rng.randint(2, 5)), "stride": int(rng.randint(1, 3))}


def cells_seqdiff(seed):
    return rotate(cross(stride=[1, 2, 3]), seed, cont=list(SEQ_CONT), use_ft=[False, True])


def sc_seqdiff(rng, cell, fx):
    return seq_like(T.SequentialDifferenceTransformer, "SequentialDifferenceTransformer", {"stride": cell["stride"]}, rng, cell)


def cells_categorical(seed):
    return cross(desc=["single", "multi"], unique=[False, True], include=[False, True])


def sc_categorical(rng, cell, fx):
    n = int(rng.randint(8, 15))
    mk = lambda: pd.DataFrame({"obj": [["x", "y", "z"][rng.randint(3)] for _ in range(n)],
                               "d1": [VOC[rng.randint(4)] for _ in range(n)], "d2": [VOC[rng.randint(6)] for _ in range(n)]})
    df, dfB, df2 = mk(), mk(), mk()
    desc = ["d1", "d2"] if cell["desc"] == "multi" else "d1"
    kw = {"object_column_name": "obj", "descriptor_column_name": desc, "include_column_name": cell["include"] and cell["desc"] == "multi",
          "unique_values": cell["unique"]}
    pool = [freeze((df, {})), freeze((dfB, {})), freeze((df.iloc[: n // 2].reset_index(drop=True), {}))]
    return Scenario(T.CategoricalColumnTransformer, "CategoricalColumnTransformer(%r)" % kw, freeze(kw), freeze((df, {})), pool,
                    fit_transform_only=True, refit_data=freeze((df2, {})), poison=lambda: (pd.DataFrame({"zzz": [1, 2]}), {}))


def nofx(rng):
    return {}


REGISTRY = {
    "TokenCooccurrenceVectorizer": (cells_token, sc_token, fx_token),
    "TimedTokenCooccurrenceVectorizer": (cells_timed, sc_timed, fx_timed),
    "NgramCooccurrenceVectorizer": (cells_ngramcooc, sc_ngramcooc, fx_ngramcooc),
    "MultiSetCooccurrenceVectorizer": (cells_multiset, sc_multiset, fx_multiset),
    "SkipgramVectorizer": (cells_skipgram, sc_skipgram, fx_skipgram),
    "NgramVectorizer": (cells_ngram, sc_ngram, fx_ngram),
    "LabelledTreeCooccurrenceVectorizer": (cells_tree, sc_tree, fx_tree),
    "EdgeListVectorizer": (cells_edgelist, sc_edgelist, nofx),
    "DistributionVectorizer": (cells_distribution, sc_distribution, fx_distribution),
    "HistogramVectorizer": (cells_histogram, sc_histogram, fx_histogram),
    "KDEVectorizer": (cells_kde, sc_kde, fx_kde),
    "LZCompressionVectorizer": (cells_lz, sc_lz, fx_lz),
    "BytePairEncodingVectorizer": (cells_bpe, sc_bpe, nofx),
    "WassersteinVectorizer": (cells_wasserstein, sc_wasserstein, nofx),
    "SinkhornVectorizer": (cells_sinkhorn, sc_sinkhorn, nofx),
    "ApproximateWassersteinVectorizer": (cells_approxw, sc_approxw, nofx),
    "InformationWeightTransformer": (cells_infoweight, sc_infoweight, nofx),
    "RowDenoisingTransformer": (cells_rowdenoise, sc_rowdenoise, nofx),
    "CountFeatureCompressionTransformer": (cells_cfc, sc_cfc, nofx),
    "SlidingWindowTransformer": (cells_sliding, sc_sliding, fx_sliding),
    "SequentialDifferenceTransformer": (cells_seqdiff, sc_seqdiff, nofx),
    "CategoricalColumnTransformer": (cells_categorical, sc_categorical, nofx),
}


# ------------------------------------------------------------------ the runner
def walk(d):
    out = []
    for root, dirs, files in os.walk(d):
        for x in dirs:
            out.append(os.path.relpath(os.path.join(root, x), d) + "/")
        for x in files:
            out.append(os.path.relpath(os.path.join(root, x), d))
    return sorted(out)


class Watch:
    """all caller-owned objects of a scenario, their pristine snapshots, the watched directories (recursive listings)"""
    def __init__(self, dirs):
        self.objs, self.snaps, self.dirs = [], [], dirs
        self.listing = {d: walk(d) for d in dirs.values()}

    def add(self, name, obj):
        self.objs.append((name, obj))
        self.snaps.append(snap(obj))

    def check(self, after, out):
        for j, ((name, obj), s0) in enumerate(zip(self.objs, self.snaps)):
            s1 = snap(obj)
            if s1 != s0:
                out.append({"kind": "caller-object-modified", "detail": "%s changed by %s at %s" % (name, after, diff_where(s0, s1))})
                self.snaps[j] = s1             # report each modification once
        for label, d in self.dirs.items():
            now = walk(d)
            if now != self.listing[d]:
                left = sorted(set(now) - set(self.listing[d]))
                gone = sorted(set(self.listing[d]) - set(now))
                out.append({"kind": "temporary-path-left", "detail": "after %s: in %s new %s%s" % (after, label, left, (" missing %s" % gone) if gone else "")})
                self.listing[d] = now          # report each leftover once


def fix_cachedir(kw, cachedir):
    if kw.get("cachedir") == "CACHEDIR":
        kw["cachedir"] = cachedir
    return kw


def mat(o):
    return o.make() if isinstance(o, GenOf) else o


_NOISE = [0]


def noise():
    """unrelated draws from numpy's and Python's global generators (a varying number of them): whatever a call takes
    from a global generator differs from one call to the next"""
    _NOISE[0] += 1
    np.random.random_sample(1 + _NOISE[0] % 5)
    np.random.randint(0, 10, size=1 + _NOISE[0] % 3)
    for _ in range(1 + _NOISE[0] % 4):
        random.random()


def call(fn, X, kw):
    noise()
    try:
        return fn(mat(X), **{k: mat(v) for k, v in kw.items()}), None
    except Exception as e:            # an exception is an outcome, compared by class
        return e, traceback.format_exc()[-500:]


def ctor_params(est):
    """the estimator's constructor parameters: get_params(deep=False); where that raises (a constructor that does not
    keep a parameter under its own name), the attributes named like the constructor's arguments"""
    try:
        return "get_params", dict(est.get_params(deep=False))
    except Exception:
        names = [n for n, q in inspect.signature(type(est).__init__).parameters.items()
                 if n != "self" and q.kind not in (q.VAR_KEYWORD, q.VAR_POSITIONAL)]
        return "constructor attributes", {n: vars(est)[n] for n in names if n in vars(est)}


def psnap(v):
    s = snap(v)
    return s + (id(v),) if s[0] == "obj" else s          # functions, random states, ...: by identity


class ParamWatch:
    """constructor parameters right after construction vs after every call (values; the objects are kept alive so that
    an identity cannot be reused)"""
    def __init__(self, est):
        self.how, self.keep = ctor_params(est)
        self.snaps = {k: psnap(v) for k, v in self.keep.items()}
        self.checks = 0

    def check(self, est, after, out):
        _, now = ctor_params(est)
        self.checks += 1
        for k in sorted(set(now) | set(self.snaps)):
            s1 = psnap(now[k]) if k in now else ("missing",)
            s0 = self.snaps.get(k, ("missing",))
            if s1 != s0:
                out.append({"kind": "constructor-parameter-changed",
                            "detail": "%s: parameter %s was %s right after construction and is %s after %s%s"
                                      % (self.how, k, prepr(self.keep.get(k)), prepr(now.get(k)), after,
                                         "" if s0[0] == "missing" or s1[0] == "missing" else " (at %s)" % diff_where(s0, s1))})
                self.snaps[k] = s1                       # report each change once
                self.keep[k] = now.get(k)


def prepr(v):
    r = repr(v)
    return r if len(r) <= 60 else r[:57] + "..."


def n_items(X):
    if isinstance(X, GenOf):
        return len(X.src)
    if sp.issparse(X) or isinstance(X, np.ndarray):
        return int(X.shape[0])
    return len(X)


def keyword_hints(est, tr_name, X, kw):
    """keywords that DESCRIBE the input of one call, for a transform that takes **kwargs and / or y (read from the
    signature): the number of rows under the names the library uses for such a hint (generator_n_distributions in
    the constructor, n_distributions in WassersteinVectorizerOld.transform and in the library's own tests), the vector
    dimension likewise, a y with one entry per row.  The unchanged library ignores all of them."""
    try:
        sig = inspect.signature(getattr(type(est), tr_name))
    except (TypeError, ValueError):
        return {}
    n = n_items(X)
    hints = {}
    if any(q.kind == q.VAR_KEYWORD for q in sig.parameters.values()):
        hints.update(n_distributions=n, generator_n_distributions=n)
        try:
            d = int(vec_dim(kw["vectors"])) if "vectors" in kw else int(np.shape(est.vectors_)[1])
            hints.update(vector_dim=d, generator_vector_dim=d)
        except Exception:
            pass
    if "y" in sig.parameters:
        hints["y"] = np.arange(n) % 2
    return {k: v for k, v in hints.items() if k not in kw and (k == "y" or k not in sig.parameters)}


def mutable_ids(o, acc, depth=0):
    if depth > 3:
        return
    if isinstance(o, (dict, np.ndarray)) or sp.issparse(o):
        acc[id(o)] = o
    if isinstance(o, dict):
        for v in o.values():
            mutable_ids(v, acc, depth + 1)
    elif isinstance(o, (list, tuple)):
        for v in o:
            mutable_ids(v, acc, depth + 1)


def public_model(est):
    """public fitted attributes (trailing underscore) in canonical form; callables and estimators are skipped"""
    out = {}
    for k, v in sorted(vars(est).items()):
        if k.endswith("_") and not k.startswith("_") and not callable(v) and not hasattr(v, "get_params"):
            out[k] = canon(v)
    return out


def degenerate_svd(est):
    """SVD based models (embedding_ = U * S): when a requested component has a (relatively) vanishing singular value,
    or two singular values coincide, the singular vectors are decided by rounding noise and 'the same model to 1e-9'
    is not a meaningful claim; such fits are counted, not compared."""
    cs = getattr(est, "component_scaling_", None)
    if isinstance(cs, np.ndarray) and cs.ndim == 1 and cs.size and np.all(np.isfinite(cs)):
        # CountFeatureCompressionTransformer: component_scaling_ = sqrt(singular values), no embedding_ attribute
        comp = getattr(est, "components_", None)
        if isinstance(comp, np.ndarray) and comp.ndim == 2 and comp.shape[0] == comp.shape[1] \
                and np.array_equal(comp, np.eye(comp.shape[0])):
            return False                                  # the no-compression branch: the model is exact
        sv = np.sort(np.abs(cs) ** 2)[::-1]
        if sv[0] == 0 or sv[-1] < 1e-6 * sv[0]:
            return True
        return bool(np.any(np.abs(np.diff(sv)) < 1e-6 * sv[0]))
    E = getattr(est, "embedding_", None)
    if not isinstance(E, np.ndarray) or E.ndim != 2 or min(E.shape) == 0 or not np.all(np.isfinite(E)):
        return False
    sv = np.linalg.svd(E, compute_uv=False)
    k = min(getattr(est, "n_components", len(sv)) or len(sv), len(sv))
    sv = sv[:k]
    if sv[0] == 0 or sv[-1] < 1e-6 * sv[0]:
        return True
    return bool(np.any(np.abs(np.diff(sv)) < 1e-6 * sv[0]))


def vec_dim(v):
    if isinstance(v, GenOf):
        v = v.src
    if isinstance(v, (list, tuple)) and len(v) and isinstance(v[0], np.ndarray) and v[0].ndim == 2:
        return v[0].shape[1]
    return np.shape(v)[1]


class Sabotage:
    """make the k-th call of LOT.<name> raise (the per-block functions are looked up in the module at call time)"""
    def __init__(self, name, k):
        self.name, self.k, self.count = name, k, 0

    def __enter__(self):
        self.orig = getattr(LOT, self.name)

        def faulty(*a, **kk):
            self.count += 1
            if self.count == self.k:
                raise Boom("fault injected into call %d of %s" % (self.k, self.name))
            return self.orig(*a, **kk)
        setattr(LOT, self.name, faulty)
        return self

    def __exit__(self, *exc):
        setattr(LOT, self.name, self.orig)
        return False


class Reseed:
    """the FIRST call of randomized_svd (in the optimal transport module and in the count feature compression module)
    gets a generator of the harness instead of the one it was given: what a fit would do if that call did not use the
    estimator's random_state.  Used to show that a cell can tell (evidence), never for a verdict."""
    def __enter__(self):
        self.count, self.orig = 0, {m: m.randomized_svd for m in (LOT, _CFC)}

        def wrap(orig):
            def randomized_svd(M, *a, **k):
                self.count += 1
                if self.count == 1:
                    k["random_state"] = np.random.RandomState(987654321)
                return orig(M, *a, **k)
            return randomized_svd
        for m, o in self.orig.items():
            m.randomized_svd = wrap(o)
        return self

    def __exit__(self, *exc):
        for m, o in self.orig.items():
            m.randomized_svd = o
        return False


def compare_models(m0, m1, what, viol, suffix=""):
    """every attribute that the reference fit m1 defines has the same value in m0 (attributes that only m0 has were
    assigned by transform calls made on it - RowDenoisingTransformer.mix_weights_ - and are not part of the fit)"""
    for k2 in m1:
        if k2 not in m0 or not same(m0[k2], m1[k2]):
            viol.append({"kind": what, "detail": "fitted attribute %s differs%s: %s vs %s%s"
                         % (k2, suffix, brief(m0.get(k2, ("none",))), brief(m1[k2]), maxdiff(m0.get(k2, ("none",)), m1[k2]))})
            return


def run_cell(name, ci, ncells, cell, seed, fx, dirs, base):
    import time
    t0 = time.time()
    rng = np.random.RandomState(zlib.crc32(("%s/%d/%d" % (name, seed, ci)).encode()) % (2 ** 31))
    # the global generators: a known state per cell (the run is a function of the seed even when a call uses them)
    np.random.seed(zlib.crc32(("global/%s/%d/%d" % (name, seed, ci)).encode()) % (2 ** 31))
    random.seed(zlib.crc32(("python/%s/%d/%d" % (name, seed, ci)).encode()))
    svd0 = dict(SVD_LOG)
    sc = REGISTRY[name][1](rng, cell, fx)
    res = {"est": name, "seed": seed, "cell_index": ci, "n_cells": ncells, "cell": {k: (v if isinstance(v, (str, int, float, bool, type(None))) else repr(v)) for k, v in cell.items()},
           "desc": sc.desc, "calls": 0, "raised": 0, "aliases": [], "violations": [], "checks": {}, "history": []}
    viol = res["violations"]
    cachedir = tempfile.mkdtemp(prefix="cachedir_", dir=base)
    W = Watch(dict(dirs, cachedir=cachedir))
    params = fix_cachedir(sc.params(), cachedir)
    for k, v in params.items():
        W.add("constructor parameter %s" % k, v)
    est = sc.cls(**params)
    W.check("the constructor", viol)
    PW = ParamWatch(est)

    def watched_call(what, fn, X, kw):
        out, tb = call(fn, X, kw)
        res["calls"] += 1
        if isinstance(out, Exception):
            res["raised"] += 1
        what += " (raised %s)" % type(out).__name__ if isinstance(out, Exception) else ""
        W.check(what, viol)
        PW.check(fn.__self__, what, viol)          # (every estimator of a scenario is built from the same parameters)
        return out

    def fresh_fit(data_factory):
        e = sc.cls(**fix_cachedir(sc.params(), cachedir))
        Xf, kwf = data_factory()
        r, _ = call(e.fit_transform if use_ft else e.fit, Xf, kwf)
        return e, r

    use_ft = sc.use_ft or sc.fit_transform_only
    tr_name = "fit_transform" if sc.fit_transform_only else "transform"      # estimators without a transform method

    # ---- 2. a fit that raises part-way
    if sc.fault is not None:
        kind, k = sc.fault
        X, kw = sc.fit_data()
        W.add("fit input X (faulting fit)", X)
        for a, v in kw.items():
            W.add("fit argument %s (faulting fit)" % a, v)
        if kind == "svd" or kind.startswith("internal:"):
            target = "randomized_svd" if kind == "svd" else kind.split(":", 1)[1]
            with Sabotage(target, k):
                out = watched_call("fit with a fault in call %d of %s" % (k, target), est.fit, X, kw)
        elif kind == "badref":
            nref, dim = 3, vec_dim(kw["vectors"])
            kw2 = dict(kw, reference_distribution=np.full(nref, 0.3), reference_vectors=rng.normal(size=(nref, dim)))
            W.add("invalid reference_distribution", kw2["reference_distribution"])
            W.add("reference_vectors", kw2["reference_vectors"])
            out = watched_call("fit with an invalid reference distribution", est.fit, X, kw2)
        elif kind == "gen":
            class BadGen(GenOf):
                def make(self2):
                    def g():
                        for i, x in enumerate(self2.src):
                            if i == k:
                                raise Boom("generator failed at item %d" % k)
                            yield x
                    return g()
            kw2 = dict(kw, vectors=BadGen(kw["vectors"].src))
            out = watched_call("fit on a generator failing at item %d" % k, est.fit, X, kw2)
        res["checks"]["fault_" + kind.split(":")[0]] = type(out).__name__ if isinstance(out, Exception) else "no-raise"
        est = sc.cls(**params)          # the property says nothing about a half-fitted estimator: start again

    # ---- 3. fit
    X, kw = sc.fit_data()
    W.add("fit input X", X)
    for a, v in kw.items():
        W.add("fit argument %s" % a, v)
    fit_out = watched_call("fit_transform" if use_ft else "fit", est.fit_transform if use_ft else est.fit, X, kw)
    if isinstance(fit_out, Exception):
        res["error"] = "fit raised %s: %s" % (type(fit_out).__name__, str(fit_out)[:200])
        res["wall_s"] = round(time.time() - t0, 2)
        return res
    # aliases: fitted attributes that ARE caller objects.  Informational (a later in-place edit through such an alias
    # is caught by the snapshots, which stay under watch for the whole history), except where the library documents
    # that it works on a copy (sc.no_alias): there the identity is a violation.
    caller = {}
    for _, o in W.objs:
        mutable_ids(o, caller)
    for k2, v in vars(est).items():
        if k2 not in params and id(v) in caller and v is caller[id(v)]:
            res["aliases"].append(k2)
    for pname, attrs in sc.no_alias.items():
        for a in attrs:
            if hasattr(est, a) and getattr(est, a) is params.get(pname):
                viol.append({"kind": "caller-object-aliased", "detail": "fitted attribute %s IS the caller's %s object (documented to be a copy)" % (a, pname)})
    model0 = public_model(est) if sc.compare_attrs else {}
    try:
        clone0 = copy.deepcopy(est)
    except Exception:
        clone0 = None
    # ---- 5. two fits (same integer random_state where there is one) give the same model
    if sc.compare_attrs and sc.claim_seed:
        fresh, r = fresh_fit(sc.fit_data)
        if isinstance(r, Exception):
            res["error"] = "second fit raised %s" % type(r).__name__
            res["wall_s"] = round(time.time() - t0, 2)
            return res
        model1 = public_model(fresh)
        res["checks"]["attrs_compared"] = len(model1)
        if degenerate_svd(est):
            res["checks"]["degenerate_svd"] = 1       # more components than the rank: the model is not determined
        else:
            compare_models(model0, model1, "two-fits-differ", viol,
                           " between two fits%s" % (" with random_state=%r" % params.get("random_state") if sc.seeded else ""))
            if sc.seeded and cell.get("size") == "big":
                # evidence: would this cell see one SVD call that does not use the estimator's random_state?
                with Reseed() as rs:
                    probe, r = fresh_fit(sc.fit_data)
                if rs.count and not isinstance(r, Exception):
                    tmp = []
                    compare_models(model0, public_model(probe), "probe", tmp)
                    res["checks"]["seed_sensitive"] = "yes" if tmp else "no"

    def reference(i, hinted, clone, data_factory):
        """a single call of input #i (with the same keywords) on an untouched copy of the fitted estimator / a freshly
        fitted estimator"""
        if clone is not None:
            ref_est = copy.deepcopy(clone)
        elif sc.claim_seed:
            ref_est, r = fresh_fit(data_factory)
            if isinstance(r, Exception):
                return None
        else:
            return None
        Xi, kwi = sc.pool[i]()
        if hinted:
            kwi = dict(kwi, **keyword_hints(ref_est, tr_name, Xi, kwi))
        o, _ = call(getattr(ref_est, tr_name), Xi, kwi)
        return canon(o)

    def check_history(hist, clone, data_factory, label):
        refs = {}
        for i in sorted({i for _, i, _ in hist}, key=repr):
            refs[i] = reference(i[0], i[1], clone, data_factory)
        for step, i, c in hist:
            if refs.get(i) is not None and not same(c, refs[i]):
                viol.append({"kind": "history-differs-from-single-call",
                             "detail": "%s: call %d of the history %s (input #%d%s) returned %s, a single call on a fresh fit returns %s%s"
                                       % (label, step, res["history"], i[0], " with the keywords describing it" if i[1] else "",
                                          brief(c), brief(refs[i]), maxdiff(c, refs[i]))})
                break

    hist = []
    pool = []
    if sc.has_transform:
        pool = [f() for f in sc.pool]
        for i, (Xi, kwi) in enumerate(pool):
            W.add("transform input #%d" % i, Xi)
            for a, v in kwi.items():
                W.add("transform argument %s of input #%d" % (a, i), v)
        plan = [("t", 0), ("t", 1), ("t", 0)]
        if sc.fault_tr:
            plan += [("fault", 1), ("t", 0)]
        if sc.poison is not None:
            plan += [("poison", 1)]
        plan += [("t", i) for i in range(2, len(pool))] + [("t", 1), ("t", 0)]
        # keyword phase (transform takes **kwargs or y): the SHORTEST pool input S with keywords describing it, the
        # longer A with none, A with its keywords, S with none, B
        hints = [keyword_hints(est, tr_name, Xi, kwi) if not sc.fit_transform_only else {} for Xi, kwi in pool]
        if any(hints) and len(pool) >= 2:
            for i, h in enumerate(hints):
                for a, v in h.items():
                    W.add("transform keyword %s describing input #%d" % (a, i), v)
            short = min(range(len(pool)), key=lambda i: (n_items(pool[i][0]), i < 2, i))
            plan += [("tk", short), ("t", 0), ("tk", 0), ("t", short), ("t", 1)]
            res["checks"]["keyword_phase"] = ",".join(sorted(hints[short]))
        trf = getattr(est, tr_name)
        for step, (what, i) in enumerate(plan, 1):
            if what in ("t", "tk"):
                kwi = dict(pool[i][1], **hints[i]) if what == "tk" else pool[i][1]
                tag = "+kw(%s)" % ",".join("%s=%s" % (a, "[%d]" % len(v) if isinstance(v, np.ndarray) else v) for a, v in sorted(hints[i].items())) if what == "tk" else ""
                out = watched_call("%s call %d (input #%d%s)" % (tr_name, step, i, tag), trf, pool[i][0], kwi)
                hist.append((step, (i, what == "tk"), canon(out)))
                res["history"].append("#%d%s" % (i, tag))
            elif what == "fault":
                kf = 2 if sc.tr_blocks >= 2 else 1
                with Sabotage(sc.fault_tr, kf):
                    out = watched_call("%s call %d (input #%d) with a fault in call %d of %s" % (tr_name, step, i, kf, sc.fault_tr), trf, pool[i][0], pool[i][1])
                res["checks"]["fault_transform"] = type(out).__name__ if isinstance(out, Exception) else "no-raise"
                res["history"].append("#%d!fault" % i)
            else:
                Xp, kwp = sc.poison()
                W.add("malformed transform input", Xp)
                out = watched_call("%s call %d of a malformed input" % (tr_name, step), trf, Xp, kwp)
                res["checks"]["poison"] = type(out).__name__ if isinstance(out, Exception) else "no-raise"
                res["history"].append("malformed")
        # ---- 4. single-call references
        res["checks"]["reference"] = "deepcopy" if clone0 is not None else "fresh-fit"
        check_history(hist, clone0, sc.fit_data, "after fit")
        res["checks"]["history"] = len(hist)

    # ---- 6. refit of the same object on other data of the same shape
    if sc.refit_data is not None and sc.claim_seed:
        X2, kw2 = sc.refit_data()
        W.add("refit input X", X2)
        for a, v in kw2.items():
            W.add("refit argument %s" % a, v)
        res["history"].append("refit")
        out = watched_call("refit (%s)" % ("fit_transform" if use_ft else "fit"), est.fit_transform if use_ft else est.fit, X2, kw2)
        if isinstance(out, Exception):
            res["error"] = "refit raised %s: %s" % (type(out).__name__, str(out)[:200])
        else:
            fresh2, r = fresh_fit(sc.refit_data)
            if isinstance(r, Exception):
                res["error"] = "fresh fit on the refit data raised %s" % type(r).__name__
            else:
                if sc.compare_attrs:
                    if degenerate_svd(fresh2):
                        res["checks"]["degenerate_svd_refit"] = 1
                    else:
                        compare_models(public_model(est), public_model(fresh2), "refit-differs-from-fresh-fit", viol,
                                       " between the refitted estimator and a fresh estimator fitted on the same data")
                if sc.fit_transform_only and not same(canon(out), canon(r)):
                    viol.append({"kind": "refit-differs-from-fresh-fit", "detail": "fit_transform of the refit returned %s, a fresh estimator %s"
                                 % (brief(canon(out)), brief(canon(r)))})
                if sc.has_transform and not sc.fit_transform_only:
                    try:
                        clone2 = copy.deepcopy(fresh2)
                    except Exception:
                        clone2 = None
                    hist2 = []
                    for step, i in enumerate([1, 0], 1):
                        o = watched_call("%s call %d after the refit (input #%d)" % (tr_name, step, i), getattr(est, tr_name), pool[i][0], pool[i][1])
                        hist2.append((step, (i, False), canon(o)))
                        res["history"].append("#%d" % i)
                    check_history(hist2, clone2, sc.refit_data, "after the refit")
                    res["checks"]["refit_history"] = len(hist2)
    W.check("the end of the scenario", viol)
    res["watched"] = len(W.objs)
    res["checks"]["params_compared"] = PW.checks
    res["params_via"] = PW.how
    res["svd"] = {k: SVD_LOG[k] - svd0[k] for k in SVD_LOG}
    res["wall_s"] = round(time.time() - t0, 2)
    return res


def main():
    payload = json.load(open(sys.argv[1]))
    tmpdir = payload["tmpdir"]
    base = os.path.dirname(tmpdir)
    assert os.path.realpath(tempfile.gettempdir()) == os.path.realpath(tmpdir), (tempfile.gettempdir(), tmpdir)
    cwd = os.path.join(base, "cwd")
    os.makedirs(cwd, exist_ok=True)
    os.chdir(cwd)
    dirs = {"TMPDIR": tmpdir, "the working directory": cwd}
    out = []
    for job in payload["jobs"]:
        # {"est", "seed", "part", "nparts", "only": cell index | None, "where": {dimension: [values]} | None}
        name, seed = job["est"], job["seed"]
        cells = REGISTRY[name][0](seed)
        fx = REGISTRY[name][2](np.random.RandomState(zlib.crc32(("%s/%d" % (name, seed)).encode()) % (2 ** 31)))
        todo = [ci for ci, c in enumerate(cells) if all(c.get(k) in vals for k, vals in (job.get("where") or {}).items())]
        todo = todo[job.get("part", 0)::job.get("nparts", 1)]
        for ci in todo:
            if job.get("only") is not None and ci != job["only"]:
                continue
            try:
                out.append(run_cell(name, ci, len(cells), cells[ci], seed, fx, dirs, base))
            except Exception as e:
                out.append({"est": name, "seed": seed, "cell_index": ci, "n_cells": len(cells), "cell": {}, "error": "harness: %s %s" % (type(e).__name__, str(e)[:300]),
                            "tb": traceback.format_exc()[-1500:], "violations": []})
            json.dump(out, open(sys.argv[2], "w"))
    json.dump(out, open(sys.argv[2], "w"))


if __name__ == "__main__":
    main()
