"""C04, data volume with post-processing: transform of a corpus of many thousand sequences must not depend on how the
sequences are grouped internally, also when epsilon > 0 / n_iter > 0 (column normalisation, thresholding and EM act
on the matrix of the WHOLE corpus).  Reference: the same estimator class given the fitted vocabulary as a fixed
token_dictionary and fitted on the big corpus in one go (fit_transform: another code path)."""
import json, sys, random, warnings
warnings.filterwarnings("ignore")
import numpy as np
import vectorizers as V

def corpus(rng, n_docs, alpha, lo, hi):
    return [[rng.choice(alpha) for _ in range(rng.randint(lo, hi))] for _ in range(n_docs)]

def canon(M):
    M = M.tocoo()
    return {(int(i), int(j)): float(v) for i, j, v in zip(M.row, M.col, M.data) if v != 0}

def run(case):
    rng = random.Random(case["seed"])
    alpha = ["t%d" % i for i in range(case["vocab"])]
    small = corpus(rng, 150, alpha, 2, 6) + [list(alpha)]
    big = corpus(rng, case["n_docs"], alpha, 2, 4)
    kw = dict(window_radii=case["radius"], window_orientations=case["orientation"], kernel_functions=case["kernel"],
              normalize_windows=case["normalize_windows"], n_iter=case["n_iter"], epsilon=case["epsilon"],
              n_threads=case["n_threads"])
    cls = getattr(V, case["cls"])
    if case["cls"] == "TimedTokenCooccurrenceVectorizer":
        stamp = lambda docs: [[(t, float(k)) for k, t in enumerate(d)] for d in docs]
        small, big = stamp(small), stamp(big)
    est = cls(**kw).fit(small)
    got = est.transform(big)
    ref = cls(token_dictionary=dict(est.token_label_dictionary_), **kw).fit_transform(big)
    a, b = canon(got), canon(ref)
    worst, where = 0.0, None
    for k in set(a) | set(b):
        x, y = a.get(k, 0.0), b.get(k, 0.0)
        d = abs(x - y) / max(abs(x), abs(y), 1e-12)
        if d > worst:
            worst, where = d, [list(k), x, y]
    colsum = np.asarray(got.sum(axis=0)).ravel()
    return {"shape": list(got.shape), "ref_shape": list(ref.shape), "worst_rel": worst, "where": where,
            "max_colsum": float(colsum.max()) if colsum.size else 0.0, "nnz": int(got.nnz)}

cases = json.load(open(sys.argv[1]))
res = []
for c in cases:
    try:
        res.append(run(c))
    except Exception as e:
        import traceback
        res.append({"err": type(e).__name__, "msg": str(e)[:300], "tb": traceback.format_exc()[-600:]})
    json.dump(res, open(sys.argv[2], "w"))
