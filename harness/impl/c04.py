"""Implementation side of C04.  Modes (payload["mode"]):
  state : drive the real numba accumulator kernels directly on a CooArray, COO_QUICKSORT_LIMIT overridden in this
          process BEFORE the first numba compilation (payload["limit"]; None = the library's own value); after every
          op record (ind, depth, capacity, |min|, min[:depth+1], digest of the live entries), at the end the live entries
  big   : the same kernels at the library's own threshold on generated event streams; returns the live entries
  api   : the four sequence co-occurrence vectorizers through their public API
One JSON line per finished case is appended to payload["progress"], so that the parent can attribute a dead child
(abort, segfault) to the case in flight."""
import json, os, sys, traceback, warnings

warnings.filterwarnings("ignore")
sys.path.insert(0, os.path.dirname(os.path.abspath(__file__)))
import c04_gen as G
import numpy as np

payload = json.load(open(sys.argv[1]))
mode = payload["mode"]
progress = open(payload["progress"], "a")

if mode in ("state", "big"):
    # the accumulator kernels need nothing but vectorizers/coo_utils.py: load that file on its own (same source, no
    # 9 s package import); cwd is the repo under test
    import importlib.util
    _spec = importlib.util.spec_from_file_location("coo_utils_under_test", os.path.join(os.getcwd(), "vectorizers", "coo_utils.py"))
    cu = importlib.util.module_from_spec(_spec)
    sys.modules["coo_utils_under_test"] = cu
    _spec.loader.exec_module(cu)
else:
    import vectorizers.coo_utils as cu

if payload.get("limit") is not None:
    cu.COO_QUICKSORT_LIMIT = int(payload["limit"])
CooArray, coo_append, coo_sum_duplicates, merge_all_sum_duplicates = (
    cu.CooArray, cu.coo_append, cu.coo_sum_duplicates, cu.merge_all_sum_duplicates)

MOD = 1099511627775


def digest(rows, cols, vals, keys):
    h = 7
    for r, c, v, k in zip(rows, cols, vals, keys):
        for x in (r, c, v, k):
            h = (33 * h + x + 1) & MOD
    return h


def mk(n, mlen):
    return CooArray(np.zeros(n, np.int32), np.zeros(n, np.int32), np.zeros(n, np.float32), np.zeros(n, np.int64),
                    np.zeros(1, np.int64), np.zeros(mlen, np.int64), np.zeros(1, np.int64))


def live(c):
    ind = int(c.ind[0])
    vals = c.val[:ind].tolist()
    iv = [int(v) for v in vals]
    return c.row[:ind].tolist(), c.col[:ind].tolist(), iv, c.key[:ind].tolist(), all(float(a) == b for a, b in zip(iv, vals))


def observe(c, prev):
    r, cc, v, k, integral = live(c)
    shapes = {int(c.row.shape[0]), int(c.col.shape[0]), int(c.val.shape[0]), int(c.key.shape[0])}
    depth, ind, mlen = int(c.depth[0]), int(c.ind[0]), int(c.min.shape[0])
    mv = c.min[:depth + 1].tolist()
    # after a plain append (ind + 1, same depth and min stack) the digest covers the appended entry only
    plain = prev is not None and ind == prev[0] + 1 and depth == prev[1] and mlen == prev[3] and mv == prev[4]
    lo = prev[0] if plain else 0
    return [ind, depth, int(c.key.shape[0]), mlen, mv, digest(r[lo:], cc[lo:], v[lo:], k[lo:])], (len(shapes) == 1 and integral)


def run_state(case):
    c = mk(case["cap"], case["mlen"])
    obs, ok = [], True
    prev = [0, 0, case["cap"], case["mlen"], [0]]
    keyset, keys_problem = set(), None          # key preservation: live keys after an op = live keys before (+ the appended)
    for j, o in enumerate(case["ops"]):
        if o[0] == "a":
            c = coo_append(c, (np.int32(o[1]), np.int32(o[2]), np.float32(o[3]), np.int64(o[4])))
            keyset.add(int(o[4]))
        elif o[0] == "s":
            coo_sum_duplicates(c)
        else:
            merge_all_sum_duplicates(c)
        ob, good = observe(c, prev)
        now = set(c.key[:int(c.ind[0])].tolist())
        if now != keyset and keys_problem is None:
            keys_problem = [j, sorted(keyset - now)[:5], sorted(now - keyset)[:5]]
        keyset = now
        prev = ob
        obs.append(ob)
        ok = ok and good
    r, cc, v, k, _ = live(c)
    return {"obs": obs, "final": [list(t) for t in zip(r, cc, v, k)], "wellformed": ok, "keys_problem": keys_problem}


def run_big(case):
    evs = G.gen_events(case["events"])
    c = mk(case["cap"], 2 * int(np.ceil(np.log2(case["cap"]))))
    for (r, cc, v, k) in evs:
        c = coo_append(c, (np.int32(r), np.int32(cc), np.float32(v), np.int64(k)))
    coo_sum_duplicates(c)
    merge_all_sum_duplicates(c)
    r, cc, v, k, integral = live(c)
    return {"rows": r, "cols": cc, "vals": v, "keys": k, "integral": integral, "cap": int(c.key.shape[0]),
            "depth": int(c.depth[0]), "mlen": int(c.min.shape[0])}


_vec = {}


def vectorizer(kind):
    if not _vec:
        import vectorizers as V
        import vectorizers.utils as VU, vectorizers.ngram_token_cooccurence_vectorizer as VN
        orig, memo = VU.make_tuple_converter, {}

        def make_tuple_converter(n):        # same converter object per size: avoids a recompilation per estimator
            if n not in memo:
                memo[n] = orig(n)
            return memo[n]
        VN.make_tuple_converter = make_tuple_converter
        _vec.update({"token": V.TokenCooccurrenceVectorizer, "timed": V.TimedTokenCooccurrenceVectorizer,
                     "multi": V.MultiSetCooccurrenceVectorizer, "ngram": V.NgramCooccurrenceVectorizer})
    return _vec[kind]


def run_api(case):
    kind = case["kind"]
    p = case["params"]
    kw = dict(window_radii=p["radii"], window_orientations=p["orientations"], kernel_functions=["flat"] * len(p["radii"]),
              window_functions=["fixed"] * len(p["radii"]), normalize_windows=False, n_threads=case["n_threads"])
    if case.get("mem") is not None:
        kw["coo_initial_memory"] = case["mem"]
    if kind == "ngram":
        kw["ngram_size"] = p["ngram_size"]
    model = vectorizer(kind)(**kw)
    if case.get("set_threads"):
        import numba
        numba.set_num_threads(int(case["set_threads"]))
    X = G.corpus_for(kind, case["corpus"])
    if case.get("fit_corpus") is not None:
        model.fit(G.corpus_for(kind, case["fit_corpus"]))
        M = model.transform(X)
    else:
        M = model.fit_transform(X)
    M = M.tocoo()
    M.sum_duplicates()
    vals = M.data.tolist()
    iv = [int(round(v)) for v in vals]
    if kind == "ngram":
        inv = {i: lab for lab, i in model.ngram_label_dictionary_.items()}
        row_labels = [inv[i] for i in range(len(inv))]
    else:
        row_labels = [str(model.token_index_dictionary_[i]) for i in range(len(model.token_index_dictionary_))]
    col_labels = [model.column_index_dictionary_[i] for i in range(len(model.column_index_dictionary_))]
    out = {"shape": list(M.shape), "rows": M.row.tolist(), "cols": M.col.tolist(), "vals": iv}
    if len(iv) > 20000:
        path = payload["progress"] + ".%d.npz" % len(res)
        np.savez(path, rows=M.row.astype(np.int64), cols=M.col.astype(np.int64), vals=np.asarray(iv, dtype=np.int64))
        out = {"shape": list(M.shape), "npz": path}
    out.update({"integral": all(float(a) == b for a, b in zip(iv, vals)), "row_labels": row_labels, "col_labels": col_labels,
            "coo_sizes": [int(x) for x in np.asarray(model._coo_sizes).ravel().tolist()]})
    return out


RUN = {"state": run_state, "big": run_big, "api": run_api}[mode]
res = []
import time
for i, c in enumerate(payload["cases"]):
    t0 = time.time()
    try:
        r = RUN(c)
    except Exception as e:
        r = {"err": type(e).__name__, "msg": str(e)[:300], "tb": traceback.format_exc()[-800:]}
    r["t"] = round(time.time() - t0, 3)
    res.append(r)
    progress.write(json.dumps(r) + "\n")
    progress.flush()
json.dump(res, open(sys.argv[2], "w"))
