"""Implementation side of C05 (and the vocabulary part of C14): runs the vocabulary construction of
vectorizers/preprocessing.py through several entry points on JSON cases; the exhaustive (count, total) sweep."""
import json, sys, traceback, warnings, random
from fractions import Fraction
import numpy as np

warnings.filterwarnings("ignore")
import scipy.sparse
from vectorizers import preprocessing as P


def key32(x):
    """float32 value -> integer multiple of 2^-149 (exact); NaN/inf (0/0 on an empty corpus with a supplied
    dictionary) -> 0, the convention of Model/K5_Float.v's [key]."""
    x = float(x)
    if x != x or x in (float("inf"), float("-inf")):
        return 0
    return int(Fraction(x) * (1 << 149))


def tok(t):
    return tuple(tok(x) for x in t) if isinstance(t, (list, tuple)) else t


def cfg_kwargs(cfg, tree=False):
    d = "tree" if tree else "document"
    kw = dict(min_occurrences=cfg["min_occ"], max_occurrences=cfg["max_occ"],
              min_frequency=cfg["min_freq"], max_frequency=cfg["max_freq"])
    kw["min_%s_occurrences" % d] = cfg["min_dococc"]
    kw["max_%s_occurrences" % d] = cfg["max_dococc"]
    kw["min_%s_frequency" % d] = cfg["min_docfreq"]
    kw["max_%s_frequency" % d] = cfg["max_docfreq"]
    if not tree:
        kw["max_unique_tokens"] = cfg["max_unique"]
    return kw


def path_tree(labels):
    n = len(labels)
    rows = list(range(n - 1))
    cols = list(range(1, n))
    adj = scipy.sparse.coo_matrix((np.ones(n - 1), (rows, cols)), shape=(n, n)).tocsr()
    return (adj, np.array(labels, dtype=object) if labels and isinstance(labels[0], str) else np.array(labels))


def py(k):
    if isinstance(k, tuple):
        return [py(x) for x in k]
    return k.item() if hasattr(k, "item") else k


def dict_out(d):
    return [[py(k), int(v)] for k, v in d.items()]


class _Stop(Exception):
    """raised by the probe subclass below once the vocabulary attributes are set"""


_NCV = []


def ngram_cooc_class():
    """NgramCooccurrenceVectorizer whose fit stops right after _set_row_information (= _process_n_grams): the
    library's own fit code runs unchanged up to and including both vocabulary stages; the co-occurrence kernels
    (a fresh numba compilation per estimator, ~3 s) are not built.  entry "ngramcooc_fit" runs the whole fit."""
    if not _NCV:
        from vectorizers import NgramCooccurrenceVectorizer

        class NgramCooccurrenceVocabularyProbe(NgramCooccurrenceVectorizer):
            def _set_additional_params(self, token_sequences):
                raise _Stop()

        _NCV.append(NgramCooccurrenceVocabularyProbe)
    return _NCV[0]


EXCL_TYPES = {"set": set, "list": list, "frozenset": frozenset}
ESTIMATOR_ENTRIES = ("cooc", "ngram1", "ngram2", "skipgram", "ngramcooc", "ngramcooc_fit")


def make_params(case):
    """The parameter OBJECTS of a case, built once: a history passes the very same objects to every call."""
    cfg = case["cfg"]
    excluded = None if cfg["excluded"] is None else EXCL_TYPES[case.get("excl_type", "set")](cfg["excluded"])
    given = None if case.get("dict") is None else {k: v for k, v in case["dict"]}
    return {"excluded": excluded, "given": given}


def frozen(x):
    """A value snapshot of a parameter object that exposes every change a caller could observe: type, content and
    (for ordered containers) order."""
    if isinstance(x, dict):
        return ("dict", [(frozen(k), frozen(v)) for k, v in x.items()])
    if isinstance(x, (set, frozenset)):
        return (type(x).__name__, sorted((frozen(e) for e in x), key=repr))
    if isinstance(x, (list, tuple)):
        return (type(x).__name__, [frozen(e) for e in x])
    if isinstance(x, np.ndarray):
        return ("ndarray", str(x.dtype), x.shape, x.tobytes())
    return (type(x).__name__, repr(x))


def snapshot(objs, est):
    snap = {k: frozen(v) for k, v in objs.items()}
    if est is not None:
        # the constructor parameters as stored on the estimator (get_params() itself raises AttributeError on the
        # co-occurrence vectorizers: coo_initial_memory is not stored under its own name)
        import inspect
        for k in inspect.signature(type(est).__init__).parameters:
            if k != "self" and hasattr(est, k):
                snap["param:" + k] = frozen(getattr(est, k))
    return snap


def param_change(before, after):
    ch = ["%s: %r -> %r" % (k, before[k], after.get(k)) for k in before if before[k] != after.get(k)]
    return "; ".join(ch)[:600] if ch else None


def shuffled(case, docs):
    if case.get("shuffle_seed") is None:
        return docs
    r = random.Random(case["shuffle_seed"])
    docs = [list(d) for d in docs]
    r.shuffle(docs)
    for d in docs:
        r.shuffle(d)
    return docs


def build_estimator(case, objs):
    cfg, entry = case["cfg"], case["entry"]
    excluded, given, mask = objs["excluded"], objs["given"], case.get("mask")
    if entry == "cooc":
        from vectorizers import TokenCooccurrenceVectorizer
        return TokenCooccurrenceVectorizer(token_dictionary=given, excluded_tokens=excluded,
                                           excluded_token_regex=cfg["regex"], mask_string=mask, window_radii=1,
                                           **cfg_kwargs(cfg))
    if entry in ("ngram1", "ngram2"):
        from vectorizers import NgramVectorizer
        n = case.get("ngram", {}).get("n", 1)
        beh = case.get("ngram", {}).get("behaviour", "exact")
        return NgramVectorizer(ngram_size=n, ngram_behaviour=beh, token_dictionary=given, excluded_tokens=excluded,
                               excluded_token_regex=cfg["regex"], mask_string=mask, **cfg_kwargs(cfg))
    if entry == "skipgram":
        from vectorizers import SkipgramVectorizer
        return SkipgramVectorizer(token_dictionary=given, ignored_tokens=excluded, excluded_token_regex=cfg["regex"],
                                  window_radius=1, **cfg_kwargs(cfg))
    if entry in ("ngramcooc", "ngramcooc_fit"):
        from vectorizers import NgramCooccurrenceVectorizer
        cls = ngram_cooc_class() if entry == "ngramcooc" else NgramCooccurrenceVectorizer
        return cls(token_dictionary=given, excluded_tokens=excluded, excluded_token_regex=cfg["regex"],
                   mask_string=mask, window_radii=1, ngram_size=case["ngram"]["n"], **cfg_kwargs(cfg))
    raise ValueError("unknown estimator entry " + entry)


def fit_estimator(case, v, docs):
    entry = case["entry"]
    if entry == "cooc":
        v.fit(docs)
        return {"dict": dict_out(v.token_label_dictionary_), "freq": [key32(x) for x in v._token_frequencies_]}
    if entry in ("ngram1", "ngram2"):
        v.fit(docs)
        out = {"dict": dict_out(v._token_dictionary_), "freq": [key32(x) for x in v._token_frequencies_]}
        out["columns"] = dict_out(v.column_label_dictionary_)
        return out
    if entry == "skipgram":
        v.fit(docs)
        return {"dict": dict_out(v._token_dictionary_), "freq": [key32(x) for x in v._token_frequencies_]}
    if entry in ("ngramcooc", "ngramcooc_fit"):
        try:
            v.fit(docs)
        except _Stop:
            pass
        inv = v.token_index_dictionary_
        return {"dict": dict_out(v.token_label_dictionary_), "freq": [key32(x) for x in v._token_frequencies_],
                "columns": [[[py(inv[int(i)]) for i in g], int(j)] for g, j in v._raw_ngram_dictionary_.items()]}
    raise ValueError("unknown estimator entry " + entry)


def call_function(case, docs, objs):
    cfg, entry = case["cfg"], case["entry"]
    excluded, given, mask = objs["excluded"], objs["given"], case.get("mask")
    if entry == "preprocess":
        seqs, d, inv, fr = P.preprocess_token_sequences(
            docs, token_dictionary=given, ignored_tokens=excluded, excluded_token_regex=cfg["regex"],
            masking=mask, **cfg_kwargs(cfg))
        return {"dict": dict_out(d), "freq": [key32(x) for x in fr], "freq_dtype": str(fr.dtype),
                "seqs": [[int(x) for x in s] for s in seqs]}
    if entry == "prune":
        # prune_token_dictionary called directly, on the tables preprocess_token_sequences would hand it
        flat = [t for d in docs for t in d]
        d0, tf, n = P.construct_token_dictionary_and_frequency(flat, None)
        need = any(cfg[b] is not None for b in ("min_dococc", "max_dococc", "min_docfreq", "max_docfreq", "max_unique"))
        df = P.construct_document_frequency(docs, d0) if need else np.array([])
        before = frozen([d0, tf, df])
        d, fr = P.prune_token_dictionary(d0, tf, token_doc_frequencies=df, ignored_tokens=excluded,
                                         excluded_token_regex=cfg["regex"], total_tokens=n, total_documents=len(docs),
                                         **cfg_kwargs(cfg))
        out = {"dict": dict_out(d), "freq": [key32(x) for x in fr]}
        if frozen([d0, tf, df]) != before:
            out["param_change"] = "prune_token_dictionary changed its token_dictionary / frequency arguments"
        return out
    if entry == "timed":
        tdocs = [[(t, float(i)) for i, t in enumerate(doc)] for doc in docs]
        seqs, d, inv, fr = P.preprocess_timed_token_sequences(
            tdocs, token_dictionary=given, ignored_tokens=excluded, excluded_token_regex=cfg["regex"],
            masking=mask, **cfg_kwargs(cfg))
        return {"dict": dict_out(d), "freq": [key32(x) for x in fr],
                "seqs": [[int(x[0]) for x in s] for s in seqs],
                "times": [[float(x[1]) for x in s] for s in seqs]}
    if entry == "multi":
        mdocs = case["multi_docs"]
        seqs, d, inv, fr = P.preprocess_multi_token_sequences(
            mdocs, token_dictionary=given, ignored_tokens=excluded, excluded_token_regex=cfg["regex"],
            masking=mask, **cfg_kwargs(cfg))
        return {"dict": dict_out(d), "freq": [key32(x) for x in fr],
                "mseqs": [[[int(x) for x in ms] for ms in doc] for doc in seqs]}
    if entry == "tree":
        trees = [path_tree(doc) for doc in docs]
        flat = [t for doc in docs for t in doc]
        res, d, inv, fr = P.preprocess_tree_sequences(
            trees, flat, token_dictionary=given, ignored_tokens=excluded, excluded_token_regex=cfg["regex"],
            masking=mask, **cfg_kwargs(cfg, tree=True))
        out = {"dict": dict_out(d), "freq": [key32(x) for x in fr]}
        if mask is not None:
            out["labels"] = [[py(x) for x in lab] for _, lab in res]
        return out
    raise ValueError("unknown entry " + entry)


def run_step(case, step, objs, est):
    """One call (a fit / a preprocess_* call) of a case on the documents of [step], with the parameter objects
    [objs] (and the estimator [est] when one is shared); the parameter objects are compared with a snapshot taken
    just before the call."""
    sub = dict(case)
    sub.update(step)
    docs = shuffled(sub, sub["docs"])
    before = snapshot(objs, est)
    try:
        if sub["entry"] in ESTIMATOR_ENTRIES:
            v = est if est is not None else build_estimator(sub, objs)
            out = fit_estimator(sub, v, docs)
        else:
            out = call_function(sub, docs, objs)
    except Exception as e:
        out = {"err": type(e).__name__, "msg": str(e)[:300], "tb": traceback.format_exc()[-600:]}
    ch = param_change(before, snapshot(objs, est))
    if ch:
        out["param_change"] = ch
    return out


def run_case(case):
    objs = make_params(case)
    if case["kind"] != "history":
        return run_step(case, {}, objs, None)
    est = None
    if case.get("share") == "estimator":
        est = build_estimator(case, objs)
    return {"steps": [run_step(case, st, objs, est) for st in case["steps"]]}


def sweep(T, T0):
    """Every (count c, total n), 1 <= c <= n <= T, through prune_token_dictionary's float32 comparisons with
    min_occurrences = max_occurrences = c on three tokens of counts c-1, c, c+1 (frequencies computed as the code
    does: counts.astype(float32) / n).  Returns the pairs whose kept set is not exactly {c}.
    For n <= T0 additionally end to end through preprocess_token_sequences on real sequences."""
    bad = []
    npairs = 0
    for n in range(1, T + 1):
        for c in range(1, n + 1):
            d = {c - 1: 0, c: 1, c + 1: 2}
            f = np.array([c - 1, c, c + 1]).astype(np.float32) / n      # token_counts.astype(np.float32) / n_tokens
            r, _ = P.prune_token_dictionary(d, f, min_occurrences=c, max_occurrences=c, min_frequency=None,
                                            max_frequency=None, total_tokens=n)
            npairs += 1
            if r != {c: 0}:
                bad.append([n, c, sorted(r.keys())])
    bad_e2e = []
    n_e2e = 0
    for n in range(1, T0 + 1):
        for c in range(1, n + 1):
            seq = ["a"] * c + ["b"] * (n - c)
            for which in ("min", "max"):
                kw = {"min_occurrences": c} if which == "min" else {"max_occurrences": c}
                _, d, _, _ = P.preprocess_token_sequences([seq], **kw)
                exp = {"a"}
                if n - c > 0 and ((which == "min" and n - c >= c) or (which == "max" and n - c <= c)):
                    exp.add("b")
                n_e2e += 1
                if set(d.keys()) != exp:
                    bad_e2e.append([n, c, which, sorted(d.keys())])
    return {"pairs": npairs, "bad": bad, "pairs_e2e": n_e2e, "bad_e2e": bad_e2e}


def probe_large(pairs):
    """(count, total) pairs with total >= 2^24 through prune_token_dictionary (known finding region)."""
    out = []
    for c, n in pairs:
        f = np.array([c]).astype(np.float32) / n
        kept_max, _ = P.prune_token_dictionary({"a": 0}, f, max_occurrences=c, min_frequency=None, max_frequency=None,
                                               total_tokens=n)
        kept_min, _ = P.prune_token_dictionary({"a": 0}, f, min_occurrences=c, min_frequency=None, max_frequency=None,
                                               total_tokens=n)
        out.append({"c": c, "n": n, "kept_under_max": bool(kept_max), "kept_under_min": bool(kept_min)})
    return out


def main():
    payload = json.load(open(sys.argv[1]))
    if payload["mode"] == "sweep":
        res = sweep(payload["T"], payload["T0"])
        res["large"] = probe_large(payload.get("large", []))
        if payload.get("large_e2e"):
            n = payload["large_e2e"]
            _, d, _, _ = P.preprocess_token_sequences([["a"] + ["b"] * (n - 1)], max_occurrences=1)
            res["large_e2e"] = {"n": n, "dict": sorted(d.keys())}
        json.dump(res, open(sys.argv[2], "w"))
        return
    res = []
    for c in payload["cases"]:
        try:
            res.append(run_case(c))
        except Exception as e:
            res.append({"err": type(e).__name__, "msg": str(e)[:300], "tb": traceback.format_exc()[-600:]})
        if len(res) % 100 == 0:
            json.dump(res, open(sys.argv[2], "w"))
    json.dump(res, open(sys.argv[2], "w"))


main()
