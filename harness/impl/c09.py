"""Implementation side of C09: BytePairEncodingVectorizer (all three return types) and the contraction kernels.
Strings travel as lists of code points.  JSON in, JSON out."""
import json, sys, traceback, warnings
warnings.filterwarnings("ignore")
import numpy as np
from vectorizers import BytePairEncodingVectorizer
from vectorizers.mixed_gram_vectorizer import contract_pair, contract_and_count_pairs, count_pairs, bpe_decode


def S(cps):
    return "".join(chr(c) for c in cps)


def U(s):
    return [ord(c) for c in s]


def seqs(out):
    return [[int(v) for v in row] for row in out]


def toks(out):
    return [[U(t) for t in row] for row in out]


def mat(m):
    m = m.tocsr()
    rows = []
    for i in range(m.shape[0]):
        lo, hi = m.indptr[i], m.indptr[i + 1]
        cells = sorted((int(j), float(v)) for j, v in zip(m.indices[lo:hi], m.data[lo:hi]))
        rows.append([[j, int(v)] if v == int(v) else [j, v] for j, v in cells])
    return {"shape": [int(m.shape[0]), int(m.shape[1])], "rows": rows, "canonical": bool(m.has_canonical_format),
            "dtype": str(m.dtype)}


def guarded(f):
    try:
        return {"ok": f()}
    except Exception as e:
        return {"err": type(e).__name__, "msg": str(e)[:200], "tb": traceback.format_exc()[-500:]}


def run_fit(case):
    X = [S(s) for s in case["X"]]
    Xn = [S(s) for s in case["Xnew"]]
    out = {}
    for rt in ("sequences", "tokens", "matrix"):
        m = BytePairEncodingVectorizer(max_vocab_size=case["vocab"], min_token_occurrence=case["mintok"],
                                       return_type=rt, max_char_code=case["mcc"])
        conv = {"sequences": seqs, "tokens": toks, "matrix": mat}[rt]
        if case.get("prehistory"):
            # an earlier fit and earlier transforms on the same object (see harness/impl/c16.py)
            try:
                past = [s[::-1] + "qq" for s in (Xn + X)] + ["qqqq", "qqqq"]
                m.fit_transform(past)
                m.transform(X + Xn)
            except Exception:  # noqa
                pass
        ft = guarded(lambda: conv(m.fit_transform(X)))
        out[rt] = {"fit_transform": ft}
        if "ok" not in ft:
            continue
        out[rt]["transform_train"] = guarded(lambda: conv(m.transform(X)))
        if Xn:
            out[rt]["transform_new"] = guarded(lambda: conv(m.transform(Xn)))
        out[rt]["tokens_"] = [U(t) for t in m.tokens_]
        out[rt]["code_list_"] = [[int(p[0]), int(p[1])] for p in m.code_list_]
        out[rt]["max_char_code_"] = int(m.max_char_code_)
        if rt == "matrix":
            out[rt]["columns"] = sorted([int(k), int(v)] for k, v in m.column_label_dictionary_.items())
        if rt == "sequences":
            # the module's own decoder on both encodings
            out[rt]["decoded_fit"] = guarded(lambda: [U(bpe_decode(np.asarray(r, dtype=np.int64), m.tokens_, m.max_char_code_))
                                                      for r in ft["ok"]])
            if Xn and "ok" in out[rt]["transform_new"]:
                out[rt]["decoded_new"] = guarded(lambda: [U(bpe_decode(np.asarray(r, dtype=np.int64), m.tokens_, m.max_char_code_))
                                                          for r in out[rt]["transform_new"]["ok"]])
    return out


def run_kernel(case):
    """contract_pair and the array output of contract_and_count_pairs on a raw code array."""
    a = np.asarray(case["codes"], dtype=np.int64)
    p = (int(case["pair"][0]), int(case["pair"][1]))
    c = int(case["code"])
    r1 = guarded(lambda: [int(v) for v in contract_pair(a.copy(), p, c)])
    box = {}
    def cacp():
        d = count_pairs([a.copy(), np.asarray([p[0], p[1], p[0], p[1]], dtype=np.int64)])
        out, d2 = contract_and_count_pairs(a.copy(), p, d, c)
        box["d"] = [[int(k[0]), int(k[1]), int(v)] for k, v in d2.items()]
        return [int(v) for v in out]
    r2 = guarded(cacp)
    return {"contract_pair": r1, "contract_and_count_pairs": r2, "cacp_dict": {"ok": box["d"]} if "d" in box else {"err": "raised"}}


cases = json.load(open(sys.argv[1]))
res = []
for c in cases:
    try:
        res.append(run_kernel(c) if c["kind"] == "kernel" else run_fit(c))
    except Exception as e:
        res.append({"err": type(e).__name__, "msg": str(e)[:300], "tb": traceback.format_exc()[-600:]})
    if len(res) % 20 == 0:
        json.dump(res, open(sys.argv[2], "w"))
json.dump(res, open(sys.argv[2], "w"))
