"""Implementation side of C12: fits one estimator per case and evaluates `transform` on the requested sub-batches
(index lists into the case's items) under the requested block / chunk sizes.  JSON in, JSON out.
Outputs are normalised to nested lists (sparse -> dense rows; lists of arrays -> lists of lists)."""
import json, sys, traceback, warnings
warnings.filterwarnings("ignore")
import numpy as np
import scipy.sparse as sp
import pandas as pd
import vectorizers as V
from vectorizers.transformers import (InformationWeightTransformer, RowDenoisingTransformer,
                                      CountFeatureCompressionTransformer, SlidingWindowTransformer)


import vectorizers.linear_optimal_transport as lot

CALLS = []
LAST = {}
ORIG = {}


def _wrap(name, sizefn):
    """record the number of rows handed to each call of a per-block / per-chunk kernel (and the arguments of the
    last call, for the chunk-loop probe)"""
    orig = getattr(lot, name)
    ORIG[name] = orig

    def w(*a, **k):
        CALLS.append(int(sizefn(a)))
        LAST["call"] = (name, a, k)
        return orig(*a, **k)
    setattr(lot, name, w)


_wrap("lot_vectors_sparse_internal", lambda a: len(a[0]) - 1)
_wrap("lot_vectors_dense_internal", lambda a: len(a[0]))
_wrap("sinkhorn_vectors_sparse_internal", lambda a: a[0].shape[0])


def norm_out(r):
    if sp.issparse(r):
        return {"shape": list(r.shape), "rows": np.asarray(r.todense(), dtype=np.float64).tolist()}
    if isinstance(r, np.ndarray) or isinstance(r, np.matrix):
        a = np.asarray(r, dtype=np.float64)
        return {"shape": list(a.shape), "rows": a.tolist()}
    # list-like of per-item results (BPE sequences/tokens, sliding windows)
    rows = []
    for item in r:
        if isinstance(item, np.ndarray):
            rows.append(np.asarray(item).tolist())
        else:
            rows.append([x if isinstance(x, str) else (np.asarray(x).tolist()) for x in item])
    return {"shape": [len(rows)], "rows": rows}


class Runner:
    """kind-specific data handling: build(), fit(), select(idx) -> transform input, set_block(b, c)"""

    def __init__(self, c):
        self.c = c
        self.est = c["est"]
        p = dict(c.get("params", {}))
        E, k = self.est, c["data_kind"]
        if E == "Ngram":
            self.m = V.NgramVectorizer(**p)
        elif E == "Skipgram":
            self.m = V.SkipgramVectorizer(**p)
        elif E == "LZ":
            self.base_items = []
            if c.get("base"):
                p["base_dictionary"] = self.lz_base(c["base"], p)
            self.m = V.LZCompressionVectorizer(**p)
        elif E == "BPE":
            self.m = V.BytePairEncodingVectorizer(**p)
        elif E == "Histogram":
            if "absolute_range" in p:
                p["absolute_range"] = tuple(float(x) for x in p["absolute_range"])
            self.m = V.HistogramVectorizer(**p)
        elif E == "KDE":
            self.m = V.KDEVectorizer(**p)
        elif E == "Distribution":
            self.m = V.DistributionVectorizer(**p)
        elif E == "Wasserstein":
            self.m = V.WassersteinVectorizer(**p)
        elif E == "Sinkhorn":
            self.m = V.SinkhornVectorizer(**p)
        elif E == "ApproxWasserstein":
            self.m = V.ApproximateWassersteinVectorizer(**p)
        elif E == "InfoWeight":
            self.m = InformationWeightTransformer(**p)
        elif E == "RowDenoise":
            self.m = RowDenoisingTransformer(**p)
        elif E == "CFC":
            self.m = CountFeatureCompressionTransformer(**p)
        elif E == "SlidingWindow":
            if isinstance(p.get("window_sample"), list):
                p["window_sample"] = np.asarray(p["window_sample"], dtype=np.int64)
            elif isinstance(p.get("window_sample"), dict):
                p["window_sample"] = tuple(int(x) for x in p["window_sample"]["pair"])
            if p.get("kernels"):
                p["kernels"] = [tuple(k) if isinstance(k, list) else k for k in p["kernels"]]
            self.m = SlidingWindowTransformer(**p)
        else:
            raise ValueError(E)
        self.kind = k
        self.vectors = None

    def lz_base(self, base, p):
        """base_dictionary of the case (phrase -> count) in the key space of the estimator: the phrases themselves, or
        (max_columns set) their hashes under the hash function the estimator will build in fit: make_hash(max_columns,
        check_random_state(random_state).randint(MAX_INT32)), i.e. murmurhash(code points, seed) % max_columns"""
        if p.get("max_columns") is None:
            d = {k: int(v) for k, v in base}
        else:
            from sklearn.utils import check_random_state
            from vectorizers.mixed_gram_vectorizer import murmurhash, unicode_string_to_int_array, MAX_INT32
            seed = int(check_random_state(p.get("random_state")).randint(MAX_INT32))
            d = {}
            for k, v in base:
                d[int(murmurhash(unicode_string_to_int_array(k), seed) % p["max_columns"])] = int(v)
        self.base_items = list(d.items())
        return d

    def conv(self, data, zeros=None):
        k = self.kind
        if zeros and k in ("spmatrix", "counts"):
            # explicitly stored zeros at the given (row, column) positions
            A = np.asarray(data, dtype=np.float64)
            r, cidx = np.nonzero(A)
            zr = np.asarray([z[0] for z in zeros], dtype=r.dtype)
            zc = np.asarray([z[1] for z in zeros], dtype=cidx.dtype)
            M = sp.coo_matrix((np.concatenate([A[r, cidx], np.zeros(len(zeros))]),
                               (np.concatenate([r, zr]), np.concatenate([cidx, zc]))), shape=A.shape).tocsr()
            M.sort_indices()
            assert M.nnz == len(r) + len(zeros)
            return M
        if k in ("tokens", "strings"):
            return list(data)
        if k == "numlists":
            return [list(map(float, s)) for s in data]
        if k == "numarrays":
            return [np.asarray(s, dtype=np.float64) for s in data]
        if k == "clouds":
            return [np.asarray(s, dtype=np.float64) for s in data]
        if k in ("spmatrix", "counts"):
            return sp.csr_matrix(np.asarray(data, dtype=np.float64))
        if k in ("lil", "generator"):
            return [np.asarray(d, dtype=np.float64) for d in data]
        raise ValueError(k)

    def fit(self):
        c, m = self.c, self.m
        X = self.conv(c["fit"])
        if self.est in ("Wasserstein", "Sinkhorn", "ApproxWasserstein"):
            if self.kind == "spmatrix":
                self.vectors = np.asarray(c["vectors"], dtype=np.float64)
                m.fit(X, vectors=self.vectors)
            elif self.kind == "lil":
                vs = [np.asarray(v, dtype=np.float64) for v in c["fit_vectors"]]
                m.fit(X, vectors=vs)
            else:
                vs = [np.asarray(v, dtype=np.float64) for v in c["fit_vectors"]]
                m.generator_n_distributions = len(X)
                m.fit((d for d in X), vectors=(v for v in vs),
                      reference_vectors=np.asarray(c["reference_vectors"], dtype=np.float64))
        elif c.get("y") is not None:
            m.fit(X, np.asarray(c["y"]))
        else:
            m.fit(X)
        self.items = self.conv(c["items"], c.get("explicit_zeros"))
        if self.kind in ("lil", "generator"):
            self.item_vectors = [np.asarray(v, dtype=np.float64) for v in c["item_vectors"]]
        self.lot_dim = int(m.reference_vectors_.size) if hasattr(m, "reference_vectors_") else None

    def transform(self, idx, block=None, chunk=None):
        m, k = self.m, self.kind
        if block is not None:
            m.memory_size = "%d" % (int(block) * self.lot_dim * 8)
        elif self.lot_dim is not None:
            m.memory_size = "2G"
        if chunk is not None:
            if self.est == "Sinkhorn":
                m.chunk_size = int(chunk)
            else:
                m.sinkhorn_chunk_size = int(chunk)
        elif self.est == "Sinkhorn":
            m.chunk_size = 32
        elif self.est == "Wasserstein":
            m.sinkhorn_chunk_size = 32
        if k in ("spmatrix", "counts"):
            X = self.items[np.asarray(idx, dtype=np.int64)]
            if self.c.get("explicit_zeros"):
                # the sub-batch holds the same stored entries (explicit zeros included) as the rows of the batch
                want = sum(int(self.items.indptr[i + 1] - self.items.indptr[i]) for i in idx)
                assert X.nnz == want, "row selection dropped stored entries"
            # the storage format of the batch is the caller's choice: the same rows as CSR / CSC / COO
            fmt = self.c.get("batch_format", "csr")
            if fmt == "csc":
                X = X.tocsc()
            elif fmt == "coo":
                X = X.tocoo()
        else:
            X = [self.items[i] for i in idx]
        if k in ("lil", "generator"):
            X = [x.copy() for x in X]          # the lil path normalises distributions in place (D17, not ours)
        if self.est in ("Wasserstein", "Sinkhorn"):
            if k == "spmatrix":
                return m.transform(X, vectors=self.vectors)
            vs = [self.item_vectors[i] for i in idx]
            if k == "lil":
                return m.transform(X, vectors=vs)
            m.generator_n_distributions = len(X)
            return m.transform((d for d in X), vectors=(v for v in vs))
        return m.transform(X)


def run(c):
    import time
    t0 = time.time()
    r = Runner(c)
    r.fit()
    t_fit = time.time() - t0
    outs = []
    extra = {}
    for n_op, op in enumerate(c["ops"]):
        try:
            del CALLS[:]
            LAST.clear()
            o = norm_out(r.transform(op["idx"], op.get("block"), op.get("chunk")))
            if r.lot_dim is not None:
                o["calls"] = list(CALLS)
                o["b"] = max(1, lot.str_to_bytes(r.m.memory_size) // (r.lot_dim * 8))
                o["c"] = int(getattr(r.m, "chunk_size", getattr(r.m, "sinkhorn_chunk_size", 0)))
            outs.append(o)
            if n_op == 0 and c.get("probe_chunks") and len(CALLS) == 1 and CALLS[0] == len(op["idx"]):
                # the whole batch went to the kernel in one call: re-run the raw kernel on the same arguments with
                # other chunk sizes; a row counts as written when it equals the row of the one-chunk run
                name, a, k = LAST["call"]
                n = CALLS[0]
                ref = ORIG[name](*a, **dict(k, chunk_size=n + 1))
                extra["kernel_written"] = []
                for cs in c["probe_chunks"]:
                    got = ORIG[name](*a, **dict(k, chunk_size=int(cs)))
                    extra["kernel_written"].append([int(cs), n, [i for i in range(n) if np.array_equal(got[i], ref[i])]])
        except Exception as e:
            outs.append({"err": type(e).__name__, "msg": str(e)[:300], "tb": traceback.format_exc()[-600:]})
    if r.est == "LZ":
        hashed = r.m.max_columns is not None
        extra = {"hashed": hashed,
                 "coldict": [[int(k) if hashed else [ord(ch) for ch in k], int(v)]
                             for k, v in r.m.column_label_dictionary_.items()],
                 "base": [[int(k) if hashed else [ord(ch) for ch in k], int(v)] for k, v in r.base_items]}
        if hashed:
            subs = {""}
            for s in c["items"]:
                for i in range(len(s)):
                    for j in range(i + 1, len(s) + 1):
                        subs.add(s[i:j])
            extra["hashes"] = ([[[ord(ch) for ch in s], int(r.m.hash_function_(s))] for s in sorted(subs)]
                               if len(subs) <= 300 else None)
    if r.est == "BPE":
        extra = {"code_list": [[int(a), int(b)] for a, b in r.m.code_list_], "mcc": int(r.m.max_char_code_)}
    return {"ok": outs, "extra": extra, "t": [round(t_fit, 2), round(time.time() - t0, 2)]}


cases = json.load(open(sys.argv[1]))
res = []
for c in cases:
    try:
        res.append(run(c))
    except Exception as e:
        res.append({"err": type(e).__name__, "msg": str(e)[:300], "tb": traceback.format_exc()[-800:]})
    json.dump(res, open(sys.argv[2], "w"))
json.dump(res, open(sys.argv[2], "w"))
