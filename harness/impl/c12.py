"""Implementation side of C12: fits one estimator per case and evaluates `transform` on the requested sub-batches
(index lists into the case's items) under the requested block / chunk sizes.  JSON in, JSON out.
Outputs are normalised to nested lists (sparse -> dense rows; lists of arrays -> lists of lists)."""
import json, sys, traceback, warnings
warnings.filterwarnings("ignore")
import numpy as np
import scipy.sparse as sp
import pandas as pd
import vectorizers as V
from vectorizers.transformers import (InformationWeightTransformer, RowDenoisingTransformer,
                                      CountFeatureCompressionTransformer, SlidingWindowTransformer)


import vectorizers.linear_optimal_transport as lot

CALLS = []


def _wrap(name, sizefn):
    """record the number of rows handed to each call of a per-block / per-chunk kernel"""
    orig = getattr(lot, name)

    def w(*a, **k):
        CALLS.append(int(sizefn(a)))
        return orig(*a, **k)
    setattr(lot, name, w)


_wrap("lot_vectors_sparse_internal", lambda a: len(a[0]) - 1)
_wrap("lot_vectors_dense_internal", lambda a: len(a[0]))
_wrap("sinkhorn_vectors_sparse_internal", lambda a: a[0].shape[0])


def norm_out(r):
    if sp.issparse(r):
        return {"shape": list(r.shape), "rows": np.asarray(r.todense(), dtype=np.float64).tolist()}
    if isinstance(r, np.ndarray) or isinstance(r, np.matrix):
        a = np.asarray(r, dtype=np.float64)
        return {"shape": list(a.shape), "rows": a.tolist()}
    # list-like of per-item results (BPE sequences/tokens, sliding windows)
    rows = []
    for item in r:
        if isinstance(item, np.ndarray):
            rows.append(np.asarray(item).tolist())
        else:
            rows.append([x if isinstance(x, str) else (np.asarray(x).tolist()) for x in item])
    return {"shape": [len(rows)], "rows": rows}


class Runner:
    """kind-specific data handling: build(), fit(), select(idx) -> transform input, set_block(b, c)"""

    def __init__(self, c):
        self.c = c
        self.est = c["est"]
        p = dict(c.get("params", {}))
        E, k = self.est, c["data_kind"]
        if E == "Ngram":
            self.m = V.NgramVectorizer(**p)
        elif E == "Skipgram":
            self.m = V.SkipgramVectorizer(**p)
        elif E == "LZ":
            self.m = V.LZCompressionVectorizer(**p)
        elif E == "BPE":
            self.m = V.BytePairEncodingVectorizer(**p)
        elif E == "Histogram":
            if "absolute_range" in p:
                p["absolute_range"] = tuple(float(x) for x in p["absolute_range"])
            self.m = V.HistogramVectorizer(**p)
        elif E == "KDE":
            self.m = V.KDEVectorizer(**p)
        elif E == "Distribution":
            self.m = V.DistributionVectorizer(**p)
        elif E == "Wasserstein":
            self.m = V.WassersteinVectorizer(**p)
        elif E == "Sinkhorn":
            self.m = V.SinkhornVectorizer(**p)
        elif E == "ApproxWasserstein":
            self.m = V.ApproximateWassersteinVectorizer(**p)
        elif E == "InfoWeight":
            self.m = InformationWeightTransformer(**p)
        elif E == "RowDenoise":
            self.m = RowDenoisingTransformer(**p)
        elif E == "CFC":
            self.m = CountFeatureCompressionTransformer(**p)
        elif E == "SlidingWindow":
            if isinstance(p.get("window_sample"), list):
                p["window_sample"] = np.asarray(p["window_sample"], dtype=np.int64)
            self.m = SlidingWindowTransformer(**p)
        else:
            raise ValueError(E)
        self.kind = k
        self.vectors = None

    def conv(self, data):
        k = self.kind
        if k in ("tokens", "strings"):
            return list(data)
        if k == "numlists":
            return [list(map(float, s)) for s in data]
        if k == "numarrays":
            return [np.asarray(s, dtype=np.float64) for s in data]
        if k == "clouds":
            return [np.asarray(s, dtype=np.float64) for s in data]
        if k in ("spmatrix", "counts"):
            return sp.csr_matrix(np.asarray(data, dtype=np.float64))
        if k in ("lil", "generator"):
            return [np.asarray(d, dtype=np.float64) for d in data]
        raise ValueError(k)

    def fit(self):
        c, m = self.c, self.m
        X = self.conv(c["fit"])
        if self.est in ("Wasserstein", "Sinkhorn", "ApproxWasserstein"):
            if self.kind == "spmatrix":
                self.vectors = np.asarray(c["vectors"], dtype=np.float64)
                m.fit(X, vectors=self.vectors)
            elif self.kind == "lil":
                vs = [np.asarray(v, dtype=np.float64) for v in c["fit_vectors"]]
                m.fit(X, vectors=vs)
            else:
                vs = [np.asarray(v, dtype=np.float64) for v in c["fit_vectors"]]
                m.generator_n_distributions = len(X)
                m.fit((d for d in X), vectors=(v for v in vs),
                      reference_vectors=np.asarray(c["reference_vectors"], dtype=np.float64))
        else:
            m.fit(X)
        self.items = self.conv(c["items"])
        if self.kind in ("lil", "generator"):
            self.item_vectors = [np.asarray(v, dtype=np.float64) for v in c["item_vectors"]]
        self.lot_dim = int(m.reference_vectors_.size) if hasattr(m, "reference_vectors_") else None

    def transform(self, idx, block=None, chunk=None):
        m, k = self.m, self.kind
        if block is not None:
            m.memory_size = "%d" % (int(block) * self.lot_dim * 8)
        elif self.lot_dim is not None:
            m.memory_size = "2G"
        if chunk is not None:
            if self.est == "Sinkhorn":
                m.chunk_size = int(chunk)
            else:
                m.sinkhorn_chunk_size = int(chunk)
        elif self.est == "Sinkhorn":
            m.chunk_size = 32
        elif self.est == "Wasserstein":
            m.sinkhorn_chunk_size = 32
        if k in ("spmatrix", "counts"):
            X = self.items[np.asarray(idx, dtype=np.int64)]
        else:
            X = [self.items[i] for i in idx]
        if k in ("lil", "generator"):
            X = [x.copy() for x in X]          # the lil path normalises distributions in place (D17, not ours)
        if self.est in ("Wasserstein", "Sinkhorn"):
            if k == "spmatrix":
                return m.transform(X, vectors=self.vectors)
            vs = [self.item_vectors[i] for i in idx]
            if k == "lil":
                return m.transform(X, vectors=vs)
            m.generator_n_distributions = len(X)
            return m.transform((d for d in X), vectors=(v for v in vs))
        return m.transform(X)


def run(c):
    import time
    t0 = time.time()
    r = Runner(c)
    r.fit()
    t_fit = time.time() - t0
    outs = []
    for op in c["ops"]:
        try:
            del CALLS[:]
            o = norm_out(r.transform(op["idx"], op.get("block"), op.get("chunk")))
            if r.lot_dim is not None:
                o["calls"] = list(CALLS)
                o["b"] = max(1, lot.str_to_bytes(r.m.memory_size) // (r.lot_dim * 8))
                o["c"] = int(getattr(r.m, "chunk_size", getattr(r.m, "sinkhorn_chunk_size", 0)))
            outs.append(o)
        except Exception as e:
            outs.append({"err": type(e).__name__, "msg": str(e)[:300], "tb": traceback.format_exc()[-600:]})
    extra = {}
    if r.est == "LZ":
        extra = {"hashed": r.m.max_columns is not None,
                 "coldict": [[[ord(ch) for ch in k], int(v)] for k, v in r.m.column_label_dictionary_.items()]
                 if r.m.max_columns is None else []}
    if r.est == "BPE":
        extra = {"code_list": [[int(a), int(b)] for a, b in r.m.code_list_], "mcc": int(r.m.max_char_code_)}
    return {"ok": outs, "extra": extra, "t": [round(t_fit, 2), round(time.time() - t0, 2)]}


cases = json.load(open(sys.argv[1]))
res = []
for c in cases:
    try:
        res.append(run(c))
    except Exception as e:
        res.append({"err": type(e).__name__, "msg": str(e)[:300], "tb": traceback.format_exc()[-800:]})
    json.dump(res, open(sys.argv[2], "w"))
json.dump(res, open(sys.argv[2], "w"))
