"""Implementation side of C14: masking / nullify_mask through TokenCooccurrenceVectorizer,
LabelledTreeCooccurrenceVectorizer, NgramVectorizer, and the kernel functions of _window_kernels.py."""
import json, sys, traceback, warnings
import numpy as np

warnings.filterwarnings("ignore")
import scipy.sparse
from vectorizers import TokenCooccurrenceVectorizer, LabelledTreeCooccurrenceVectorizer, NgramVectorizer
from vectorizers import _window_kernels as WK


def dense(m):
    return np.asarray(m.todense(), dtype=np.float64).tolist()


def prune_kw(p, tree=False):
    kw = {}
    if p.get("excluded") is not None:
        kw["ignored_tokens" if tree else "excluded_tokens"] = set(p["excluded"])
    if p.get("regex") is not None:
        kw["excluded_token_regex"] = p["regex"]
    for k in ("min_occurrences", "max_occurrences"):
        if p.get(k) is not None:
            kw[k] = p[k]
    if not tree and p.get("max_unique_tokens") is not None:
        kw["max_unique_tokens"] = p["max_unique_tokens"]
    return kw


def with_past(est, case, to_X=lambda docs: docs):
    """The estimator's past (case["history"]): the SAME object is first fitted on another corpus and used for
    transform; whatever happens there (exceptions included) must be forgotten by the fit that is measured."""
    h = case.get("history")
    if h:
        try:
            X = to_X(h["docs"])
            if h.get("how") == "fit":
                est.fit(X)
            else:
                est.fit_transform(X)
            if h.get("transform") is not None:
                est.transform(to_X(h["transform"]))
        except Exception:
            pass
    return est


def win_kw(w):
    kw = dict(window_radii=w["radius"], window_orientations=w["orientation"], kernel_functions=w["kernel"],
              window_functions=w.get("window_function", "fixed"), normalize_windows=w["normalize_windows"])
    if w["radius"] > 1000:
        kw["coo_initial_memory"] = "64k"       # the triple buffers are sized proportionally to the radius
    ka = {}
    if w.get("normalize"):
        ka["normalize"] = True
    if w.get("offset"):
        ka["offset"] = w["offset"]
    if ka:
        kw["kernel_args"] = ka
    return kw


def run_cooc(case):
    X, p, w, M = case["docs"], case["prune"], case["window"], case["mask"]
    out = {}
    base = with_past(TokenCooccurrenceVectorizer(**prune_kw(p), **win_kw(w)), case)     # (a) delete mode
    out["delete"] = dense(base.fit_transform(X))
    vocab = dict(base.token_label_dictionary_)
    out["vocab"] = [[k, int(v)] for k, v in vocab.items()]
    X_del = [[t for t in d if t in vocab] for d in X]
    ref = TokenCooccurrenceVectorizer(token_dictionary=dict(vocab), **win_kw(w))
    out["delete_ref"] = dense(ref.fit_transform(X_del)) if any(X_del) else None
    masked = with_past(TokenCooccurrenceVectorizer(mask_string=M, **prune_kw(p), **win_kw(w)), case)   # (b) mask mode
    out["mask"] = dense(masked.fit_transform(X))
    out["mask_dict"] = [[k, int(v)] for k, v in masked.token_label_dictionary_.items()]
    out["mask_seqs"] = None
    mvocab = dict(vocab)
    mvocab[M] = len(vocab)
    X_mask = [[t if t in vocab else M for t in d] for d in X]
    ref2 = TokenCooccurrenceVectorizer(token_dictionary=dict(mvocab), **win_kw(w))
    out["mask_ref"] = dense(ref2.fit_transform(X_mask))
    null = with_past(TokenCooccurrenceVectorizer(mask_string=M, nullify_mask=True, **prune_kw(p), **win_kw(w)), case)  # (c)
    out["nullify"] = dense(null.fit_transform(X))
    out["nullify_dict"] = [[k, int(v)] for k, v in null.token_label_dictionary_.items()]
    out["mask_index"] = None if null._mask_index is None else int(null._mask_index)
    if case.get("transform_docs") is not None:
        if case.get("history") and case["history"].get("transform") is not None:
            null.transform(case["history"]["transform"])          # an unrelated transform in between
        out["nullify_transform"] = dense(null.transform(case["transform_docs"]))
        out["mask_transform"] = dense(masked.transform(case["transform_docs"]))
    return out


def make_tree(parents, labels):
    n = len(labels)
    rows = [p for p in parents if p >= 0]
    cols = [i for i, p in enumerate(parents) if p >= 0]
    adj = scipy.sparse.coo_matrix((np.ones(len(rows)), (rows, cols)), shape=(n, n)).tocsr()
    return (adj, np.array(labels, dtype=object))


def run_tree(case):
    p, M = case["prune"], case["mask"]
    trees = [make_tree(t["parents"], t["labels"]) for t in case["trees"]]
    kw = dict(window_radius=case["window"]["radius"], window_orientation=case["window"]["orientation"],
              kernel_function=case["window"]["kernel"])
    out = {}
    to_X = lambda ts: [make_tree(t["parents"], t["labels"]) for t in ts]
    base = with_past(LabelledTreeCooccurrenceVectorizer(**prune_kw(p, tree=True), **kw), case, to_X)
    out["delete"] = dense(base.fit_transform(trees))
    vocab = dict(base.token_label_dictionary_)
    out["vocab"] = [[k, int(v)] for k, v in vocab.items()]
    # explicit deletion: children of a removed node are attached to its nearest kept ancestor
    dtrees = []
    for t in case["trees"]:
        par, lab = t["parents"], t["labels"]
        keep = [l in vocab for l in lab]
        newidx, k = {}, 0
        for i, kp in enumerate(keep):
            if kp:
                newidx[i] = k
                k += 1
        npar, nlab = [], []
        for i, kp in enumerate(keep):
            if not kp:
                continue
            a = par[i]
            while a >= 0 and not keep[a]:
                a = par[a]
            npar.append(newidx[a] if a >= 0 else -1)
            nlab.append(lab[i])
        if nlab:
            dtrees.append(make_tree(npar, nlab))
    ref = LabelledTreeCooccurrenceVectorizer(token_dictionary=dict(vocab), **kw)
    out["delete_ref"] = dense(ref.fit_transform(dtrees)) if dtrees else None
    masked = with_past(LabelledTreeCooccurrenceVectorizer(mask_string=M, **prune_kw(p, tree=True), **kw), case, to_X)
    out["mask"] = dense(masked.fit_transform(trees))
    out["mask_dict"] = [[k, int(v)] for k, v in masked.token_label_dictionary_.items()]
    mvocab = dict(vocab)
    mvocab[M] = len(vocab)
    mtrees = [make_tree(t["parents"], [l if l in vocab else M for l in t["labels"]]) for t in case["trees"]]
    ref2 = LabelledTreeCooccurrenceVectorizer(token_dictionary=dict(mvocab), **kw)
    out["mask_ref"] = dense(ref2.fit_transform(mtrees))
    null = with_past(LabelledTreeCooccurrenceVectorizer(mask_string=M, nullify_mask=True, **prune_kw(p, tree=True), **kw), case, to_X)
    out["nullify"] = dense(null.fit_transform(trees))
    out["nullify_dict"] = [[k, int(v)] for k, v in null.token_label_dictionary_.items()]
    out["mask_index"] = None if null._mask_index is None else int(null._mask_index)
    if case.get("transform_trees") is not None:
        # later use of the fitted estimators (after an unrelated transform when there is a past)
        Y = to_X(case["transform_trees"])
        if case.get("history") and case["history"].get("transform") is not None:
            null.transform(to_X(case["history"]["transform"]))
        out["nullify_transform"] = dense(null.transform(Y))
        out["mask_transform"] = dense(masked.transform(Y))
        mY = [make_tree(t["parents"], [l if l in vocab else M for l in t["labels"]]) for t in case["transform_trees"]]
        out["mask_transform_ref"] = dense(ref2.transform(mY))
        out["nullify_dict_after"] = [[k, int(v)] for k, v in null.token_label_dictionary_.items()]
    return out


def cols_out(d):
    return sorted([[list(k) if isinstance(k, tuple) else k, int(v)] for k, v in d.items()], key=lambda kv: kv[1])


def run_ngram(case):
    X, p, M = case["docs"], case["prune"], case["mask"]
    n, beh = case["ngram"]["n"], case["ngram"]["behaviour"]
    out = {}
    base = with_past(NgramVectorizer(ngram_size=n, ngram_behaviour=beh, **prune_kw(p)), case)
    out["delete"] = dense(base.fit_transform(X))
    out["delete_cols"] = cols_out(base.column_label_dictionary_)
    vocab = dict(base._token_dictionary_)
    out["vocab"] = [[k, int(v)] for k, v in vocab.items()]
    numeric = {k: p[k] for k in ("min_occurrences", "max_occurrences", "max_unique_tokens") if p.get(k) is not None}
    X_del = [[t for t in d if t in vocab] for d in X]
    ref = NgramVectorizer(ngram_size=n, ngram_behaviour=beh, token_dictionary=dict(vocab), **numeric)
    try:
        out["delete_ref"] = dense(ref.fit_transform(X_del))
        out["delete_ref_cols"] = cols_out(ref.column_label_dictionary_)
    except Exception as e:
        out["delete_ref"] = {"err": type(e).__name__}
    masked = with_past(NgramVectorizer(ngram_size=n, ngram_behaviour=beh, mask_string=M, **prune_kw(p)), case)
    out["mask"] = dense(masked.fit_transform(X))
    out["mask_cols"] = cols_out(masked.column_label_dictionary_)
    out["mask_dict"] = [[k, int(v)] for k, v in masked._token_dictionary_.items()]
    out["mask_fit_then_transform"] = dense(masked.transform(X))                   # D10
    mvocab = dict(vocab)
    mvocab[M] = len(vocab)
    X_mask = [[t if t in vocab else M for t in d] for d in X]
    ref2 = NgramVectorizer(ngram_size=n, ngram_behaviour=beh, token_dictionary=dict(mvocab), **numeric)
    out["mask_ref"] = dense(ref2.fit_transform(X_mask))
    out["mask_ref_cols"] = cols_out(ref2.column_label_dictionary_)
    if case.get("transform_docs") is not None:
        Y = case["transform_docs"]
        out["mask_transform"] = dense(masked.transform(Y))
        Y_mask = [[t if t in vocab else M for t in d] for d in Y]
        out["mask_transform_ref"] = dense(ref2.transform(Y_mask))
    return out


KERNELS = {"flat": WK.flat_kernel, "harmonic": WK.harmonic_kernel, "geometric": WK.geometric_kernel}


def run_kernel(case):
    win = np.array(case["window"], dtype=np.int32)
    mi = None if case["mask_index"] is None else np.int32(case["mask_index"])
    args = [win, mi, bool(case["normalize"]), int(case["offset"])]
    if case["kernel"] == "geometric":
        args.append(case["power"][0] / case["power"][1])
    w = KERNELS[case["kernel"]](*args)
    radii = WK.fixed_window_radii(case["size"], np.zeros(case["ntok"], dtype=np.float32), mi)
    seq = np.array(case["seq"], dtype=np.int32)
    wins = [[int(x) for x in WK.window_at_index(seq, case["size"], i, reverse=case["reverse"])] for i in range(len(seq))]
    out = {"weights": [float(x) for x in w], "radii": [int(x) for x in radii], "windows": wins}
    # one-window co-occurrence matrix of the single document `seq` over the dictionary 0..ntok-1 (+ mask slot)
    if case.get("events"):
        ntok = case["ntok"]
        toks = ["t%02d" % i for i in range(ntok)]
        d = {t: i for i, t in enumerate(toks)}
        M = "MASK"
        doc = [toks[i] if i < ntok else "unseen" for i in case["seq"]]
        ka = {}
        if case["normalize"]:
            ka["normalize"] = True
        if case["offset"]:
            ka["offset"] = int(case["offset"])
        if case["kernel"] == "geometric":
            ka["power"] = case["power"][0] / case["power"][1]
        v = TokenCooccurrenceVectorizer(token_dictionary=d, mask_string=M, nullify_mask=case["mask_index"] is not None,
                                        window_radii=case["size"], window_orientations="before" if case["reverse"] else "after",
                                        kernel_functions=case["kernel"], kernel_args=ka or None,
                                        normalize_windows=bool(case["normalize_windows"]), coo_initial_memory="64k")
        # every token of the dictionary must occur so that len(_token_frequencies_) = ntok (the mask index)
        out["matrix"] = dense(v.fit_transform([doc, list(toks)]))
        out["filler"] = dense(TokenCooccurrenceVectorizer(
            token_dictionary=d, mask_string=M, nullify_mask=case["mask_index"] is not None,
            window_radii=case["size"], window_orientations="before" if case["reverse"] else "after",
            kernel_functions=case["kernel"], kernel_args=ka or None,
            normalize_windows=bool(case["normalize_windows"]), coo_initial_memory="64k").fit_transform([list(toks)]))
        out["mask_index"] = None if v._mask_index is None else int(v._mask_index)
    return out


def main():
    cases = json.load(open(sys.argv[1]))
    res = []
    for c in cases:
        try:
            f = {"cooc": run_cooc, "tree": run_tree, "ngram": run_ngram, "kernel": run_kernel}[c["kind"]]
            res.append(f(c))
        except Exception as e:
            res.append({"err": type(e).__name__, "msg": str(e)[:300], "tb": traceback.format_exc()[-800:]})
        if len(res) % 50 == 0:
            json.dump(res, open(sys.argv[2], "w"))
    json.dump(res, open(sys.argv[2], "w"))


main()
