"""Implementation side of C17: information_weight / InformationWeightTransformer on several encodings of one matrix.
Floats travel as float.hex strings."""
import json, sys, traceback, warnings
import numpy as np
import scipy.sparse as ss
warnings.filterwarnings("ignore")
from vectorizers.transformers.info_weight import information_weight, InformationWeightTransformer


def hx(v):
    v = float(v)
    if v != v:
        return "nan"
    if v in (float("inf"), float("-inf")):
        return "inf" if v > 0 else "-inf"
    return v.hex()


def build(case, enc):
    """enc = {"fmt": ..., "cols"/"rows": stored entries}; entries are [row, col, hexvalue] triples in storage order"""
    n, m = case["n"], case["m"]
    dt = np.dtype(enc.get("dtype", "float64"))
    tr = [(int(r), int(c), float.fromhex(v)) for r, c, v in enc["entries"]]
    fmt = enc["fmt"]
    if fmt == "dense":
        a = np.zeros((n, m), dtype=dt)
        for r, c, v in tr:
            a[r, c] += v
        return a
    if fmt.startswith("coo"):
        return ss.coo_matrix((np.array([t[2] for t in tr], dtype=dt), (np.array([t[0] for t in tr], dtype=np.int32),
                                                                      np.array([t[1] for t in tr], dtype=np.int32))), shape=(n, m))
    if fmt.startswith("csc"):
        indptr, ind, dat = [0], [], []
        for c in range(m):
            for t in tr:
                if t[1] == c:
                    ind.append(t[0]); dat.append(t[2])
            indptr.append(len(ind))
        return ss.csc_matrix((np.array(dat, dtype=dt), np.array(ind, dtype=np.int32), np.array(indptr, dtype=np.int32)), shape=(n, m))
    if fmt.startswith("csr"):
        indptr, ind, dat = [0], [], []
        for r in range(n):
            for t in tr:
                if t[0] == r:
                    ind.append(t[1]); dat.append(t[2])
            indptr.append(len(ind))
        return ss.csr_matrix((np.array(dat, dtype=dt), np.array(ind, dtype=np.int32), np.array(indptr, dtype=np.int32)), shape=(n, m))
    if fmt == "lil":
        return ss.coo_matrix((np.array([t[2] for t in tr], dtype=dt), (np.array([t[0] for t in tr]), np.array([t[1] for t in tr]))), shape=(n, m)).tolil()
    raise ValueError(fmt)


def snapshot(X):
    """the arrays that make up the caller's matrix, bytewise"""
    if isinstance(X, np.ndarray):
        parts = {"array": X}
    elif X.format in ("csr", "csc"):
        parts = {"data": X.data, "indices": X.indices, "indptr": X.indptr}
    elif X.format == "coo":
        parts = {"data": X.data, "row": X.row, "col": X.col}
    elif X.format == "lil":
        return {"rows": repr(X.rows.tolist()), "data": repr(X.data.tolist()), "shape": repr(X.shape)}
    else:
        parts = {"dense": X.toarray()}
    out = {k: (str(v.dtype), v.shape, v.tobytes()) for k, v in parts.items()}
    out["shape"] = repr(X.shape)
    return out


def changed(before, X):
    after = snapshot(X)
    return sorted(k for k in set(before) | set(after) if before.get(k) != after.get(k))


def weights(X, s, approx):
    try:
        if not ss.isspmatrix(X):
            X = ss.csc_matrix(X)          # what InformationWeightTransformer.fit does with an ndarray
        return [hx(v) for v in information_weight(X, s, approx)]
    except Exception as e:  # noqa
        return {"err": type(e).__name__, "msg": str(e)[:200]}


def dense_of(A):
    A = A.toarray() if ss.issparse(A) else np.asarray(A)
    return [[hx(v) for v in row] for row in A]


def run(case):
    s = float.fromhex(case["s"])
    out = {"enc": []}
    for enc in case["encodings"]:
        # the calls are made on the caller's own object (no copy): its arrays must come back untouched
        X, X2 = build(case, enc), build(case, enc)
        b1, b2 = snapshot(X), snapshot(X2)
        r = {"exact": weights(X, s, False), "approx": weights(X2, s, True)}
        mod = ["information_weight(exact prior) changed %s" % k for k in changed(b1, X)] + \
              ["information_weight(approximate prior) changed %s" % k for k in changed(b2, X2)]
        if mod:
            r["caller_modified"] = mod
        out["enc"].append(r)
    base = build(case, case["encodings"][0])        # canonical CSR
    rp, cp = case["row_perm"], case["col_perm"]
    out["row_perm"] = weights(ss.csr_matrix(base.toarray()[rp, :]), s, False)
    out["col_perm"] = weights(ss.csr_matrix(base.toarray()[:, cp]), s, False)
    # transformer
    tr = {}
    try:
        p = float.fromhex(case["power"])
        inputs = [("sparse", case["encodings"][0]), ("dense", {"fmt": "dense", "entries": case["encodings"][0]["entries"]})]
        if len(case["encodings"]) > 12:
            inputs.append(("dup", case["encodings"][12]))       # CSC with duplicate coordinates, explicit zeros, unsorted indices
        for name, enc in inputs:
            X = build(case, enc)
            before = snapshot(X)
            t = InformationWeightTransformer(prior_strength=s, approx_prior=case["approx"], weight_power=p)
            r = t.fit(X)
            w = [hx(v) for v in t.information_weights_]
            mod = ["fit changed %s" % k for k in changed(before, X)]
            Z = build(case, {"fmt": enc["fmt"] if enc["fmt"] == "dense" else "csr", "entries": case["other"]})
            a, b = float.fromhex(case["lin"][0]), float.fromhex(case["lin"][1])
            tx, tz = t.transform(X), t.transform(Z)
            mod += ["transform changed %s" % k for k in changed(before, X)]
            comb = t.transform(a * X + b * Z)
            w_after = [hx(v) for v in t.information_weights_]
            # call history on the SAME estimator object: refit on another matrix, refit supervised, transform again
            hist = []
            for mode in ("refit_other", "refit_supervised", "refit_again"):
                try:
                    if mode == "refit_other":
                        t.fit(X + Z)
                    elif mode == "refit_supervised":
                        t.fit(X, y=np.arange(X.shape[0]) % 2)
                    else:
                        t.fit(X)
                    hist.append({"mode": mode, "w": [hx(v) for v in t.information_weights_], "tx": dense_of(t.transform(X))})
                except Exception as e:  # noqa
                    hist.append({"mode": mode, "err": type(e).__name__, "msg": str(e)[:200]})
            tr[name] = {"caller_modified": mod, "history": hist, "fit_returns_self": r is t, "w": w, "w_after_transform": w_after, "tx": dense_of(tx), "tz": dense_of(tz), "comb": dense_of(comb),
                        "x": dense_of(X), "z": dense_of(Z), "axbz": dense_of(a * X + b * Z)}
    except Exception as e:  # noqa
        tr["err"] = {"err": type(e).__name__, "msg": str(e)[:300], "tb": traceback.format_exc()[-500:]}
    out["transformer"] = tr
    return out


payload = json.load(open(sys.argv[1]))
res = {"results": []}
for c in payload["cases"]:
    try:
        res["results"].append(run(c))
    except Exception as e:  # noqa
        res["results"].append({"err": type(e).__name__, "msg": str(e)[:300], "tb": traceback.format_exc()[-800:]})
    if len(res["results"]) % 50 == 0:
        json.dump(res, open(sys.argv[2], "w"))
json.dump(res, open(sys.argv[2], "w"))
