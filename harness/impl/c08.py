"""Implementation side of C08: fits the Wasserstein-style vectorizers once per scenario and transforms the base data
and its re-encodings / memory sizes / input formats; returns every output for the parent to compare.

Work-arounds for defects this check does not own (see DESIGN §8): fresh copies of every array handed to the
vectorizers (D17: in-place normalisation of caller data); a private cachedir that is removed here (D18)."""
import json, os, shutil, sys, tempfile, traceback, warnings
warnings.filterwarnings("ignore")
import numpy as np
import scipy.sparse as sp
import numba
import vectorizers as V
from vectorizers import linear_optimal_transport as L
from pynndescent.distances import named_distances
from sklearn.preprocessing import normalize

SCRATCH = tempfile.mkdtemp(prefix="c08_", dir=os.environ.get("C08_SCRATCH") or None)


def build_sparse(spec):
    """spec: {"n":..,"N":..,"rows":[[[col,val],...],...],"fmt":..}; explicit zeros are kept as stored entries."""
    indptr, indices, data = [0], [], []
    for row in spec["rows"]:
        for c, v in row:
            indices.append(c)
            data.append(v)
        indptr.append(len(indices))
    X = sp.csr_matrix((np.array(data, dtype=np.float64), np.array(indices, dtype=np.int32),
                       np.array(indptr, dtype=np.int32)), shape=(spec["n"], spec["N"]))
    fmt = spec.get("fmt", "csr")
    if fmt == "csr":
        return X
    if fmt == "csc":
        return X.tocsc()
    if fmt == "coo":
        return X.tocoo()
    if fmt == "lil":
        return X.tolil()
    if fmt == "ndarray":
        return X.toarray()
    raise ValueError(fmt)


def lists_of(spec):
    ds = [np.array(d, dtype=np.float64) for d in spec["dists"]]
    vs = [np.array(v, dtype=np.float64).reshape(len(d), -1) for v, d in zip(spec["vecs"], spec["dists"])]
    return ds, vs


def tol_list(a):
    a = np.asarray(a, dtype=np.float64)
    return a.tolist()


# ---------------------------------------------------------------- uniqueness margin of the optimal plan (untrusted)
def uniq_margin(p, q, cost):
    """min dual slack off the support of the implementation's plan, relative to the cost scale, when the support is a
    spanning tree of the bipartite graph on the positive-mass points (then the optimal plan is unique iff > 0);
    0.0 for degenerate supports.  Also returns the plan."""
    X = L.transport_plan(p, q, np.ascontiguousarray(cost, dtype=np.float64))
    pos = np.where(p > 0)[0]
    n, m = len(pos), len(q)
    Xp, Cp = X[pos], np.asarray(cost, dtype=np.float64)[pos]
    supp = Xp > 1e-14
    if supp.sum() != n + m - 1:
        return 0.0, X
    # potentials by propagation over the tree
    u = np.full(n, np.nan)
    v = np.full(m, np.nan)
    u[0] = 0.0
    changed = True
    while changed:
        changed = False
        for i in range(n):
            for j in range(m):
                if supp[i, j]:
                    if not np.isnan(u[i]) and np.isnan(v[j]):
                        v[j] = Cp[i, j] - u[i]
                        changed = True
                    elif np.isnan(u[i]) and not np.isnan(v[j]):
                        u[i] = Cp[i, j] - v[j]
                        changed = True
    if np.isnan(u).any() or np.isnan(v).any():
        return 0.0, X
    slack = Cp - u[:, None] - v[None, :]
    off = slack[~supp]
    scale = max(float(np.abs(Cp).max()), 1e-300)
    if off.size == 0:
        return 1.0, X
    return float(off.min() / scale), X


def margins_sparse(model, X, vectors, metric_name):
    metric = named_distances[metric_name]
    Xn = normalize(sp.csr_matrix(X).astype(np.float64), norm="l1")
    vecs = np.asarray(vectors, dtype=np.float64)
    if metric_name == "cosine":
        vecs = normalize(vecs, norm="l2")
    ref = np.asarray(model.reference_vectors_, dtype=np.float64)
    q = np.asarray(model.reference_distribution_, dtype=np.float64)
    out = []
    for i in range(Xn.shape[0]):
        idx = Xn.indices[Xn.indptr[i]:Xn.indptr[i + 1]]
        p = Xn.data[Xn.indptr[i]:Xn.indptr[i + 1]].astype(np.float64)
        if len(idx) == 0 or p.sum() <= 0:
            out.append(1.0)
            continue
        rv = vecs[idx]
        if rv.shape[0] > ref.shape[0]:
            cost = L.chunked_pairwise_distance(rv, ref, dist=metric)
        else:
            cost = L.chunked_pairwise_distance(ref, rv, dist=metric).T
        out.append(uniq_margin(p / p.sum(), q, cost)[0])
    return out


def margins_lists(model, ds, vs, metric_name):
    metric = named_distances[metric_name]
    ref = np.asarray(model.reference_vectors_, dtype=np.float64)
    q = np.asarray(model.reference_distribution_, dtype=np.float64)
    out = []
    for d, v in zip(ds, vs):
        v = np.asarray(v, dtype=np.float64)
        if metric_name == "cosine":
            v = normalize(v, norm="l2")
        p = np.asarray(d, dtype=np.float64)
        if v.shape[0] > ref.shape[0]:
            cost = L.chunked_pairwise_distance(v, ref, dist=metric)
        else:
            cost = L.chunked_pairwise_distance(ref, v, dist=metric).T
        out.append(uniq_margin(p / p.sum(), q, cost)[0])
    return out


# ---------------------------------------------------------------- scenarios
def make_model(sc, input_method=None, memory_size=None):
    est = sc["est"]
    common = dict(n_components=sc["n_components"], metric=sc["metric"], random_state=sc.get("random_state", 0),
                  memory_size=memory_size or sc.get("fit_memory", "2G"), cachedir=SCRATCH)
    if est == "wasserstein":
        kw = dict(common, method=sc.get("method", "LOT_exact"), input_method=input_method or sc.get("input_method", "spmatrix"),
                  reference_size=sc.get("reference_size"), max_distribution_size=sc.get("max_distribution_size", 256))
        if kw["method"] == "LOT_sinkhorn":
            kw["sinkhorn_chunk_size"] = sc.get("chunk_size", 32)
        if kw["input_method"] == "generator":
            kw["generator_vector_dim"] = sc["dim"]
            kw["generator_n_distributions"] = sc["n_rows"]
        return V.WassersteinVectorizer(**kw)
    if est == "sinkhorn":
        return V.SinkhornVectorizer(reference_size=sc.get("reference_size"), chunk_size=sc.get("chunk_size", 32), **common)
    if est == "approx":
        return V.ApproximateWassersteinVectorizer(n_components=sc["n_components"], random_state=sc.get("random_state", 0))
    raise ValueError(est)


_VEC = {}


def vec_array(data):
    """np.array(data["vectors"]) — memoised by content, so that every call of a scenario that uses the same vector set
    passes the very same ndarray object (a cache keyed on object identity then behaves as it would for a user who
    keeps one `vectors` array around)."""
    key = json.dumps(data["vectors"])
    if key not in _VEC:
        _VEC[key] = np.array(data["vectors"], dtype=np.float64)
    return _VEC[key]


def prehistory(sc, model, data):
    """Give the estimator object a past: a fit on a reordered, re-weighted copy of the data (hence another reference
    and other components) and transforms with the scenario's own vector set.  Correct code forgets all of it on refit."""
    try:
        alt = dict(data)
        rows = [list(r) for r in data["rows"]] if "rows" in data else None
        if rows is None:
            return
        alt["rows"] = [[(j, w * (1.0 + 0.5 * ((i + j) % 3))) for (j, w) in r] for i, r in enumerate(rows[::-1])]
        sc2 = dict(sc)
        if sc.get("reference_size"):
            sc2["reference_size"] = sc["reference_size"] + 1
        sc2["reference"] = None
        fit_model(sc2, model, alt)
        do_transform(sc, model, {"data": data})
        do_transform(sc, model, {"data": alt})
    except Exception:  # noqa
        pass


def fit_model(sc, model, data):
    kw = {}
    if sc.get("reference") is not None:
        kw["reference_vectors"] = np.array(sc["reference"]["vectors"], dtype=np.float64)
        kw["reference_distribution"] = np.array(sc["reference"]["distribution"], dtype=np.float64)
    im = getattr(model, "input_method", "spmatrix")
    if sc["est"] == "approx":
        return model.fit(build_sparse(data), vectors=vec_array(data))
    if im == "spmatrix":
        return model.fit(build_sparse(data), vectors=vec_array(data), **kw)
    ds, vs = lists_of(data)
    if im == "lil":
        return model.fit(ds, vectors=vs, **kw)
    return model.fit((d for d in ds), vectors=(v for v in vs), **kw)


def do_transform(sc, model, call):
    data = call["data"]
    if "memory_size" in call:
        model.memory_size = call["memory_size"]
    if "chunk_size" in call:
        if hasattr(model, "sinkhorn_chunk_size") and sc["est"] == "wasserstein":
            model.sinkhorn_chunk_size = call["chunk_size"]
        else:
            model.chunk_size = call["chunk_size"]
    im = getattr(model, "input_method", "spmatrix")
    if sc["est"] == "approx":
        if call.get("refit"):
            m2 = make_model(sc)
            return m2.fit_transform(build_sparse(data), vectors=vec_array(data))
        return model.transform(build_sparse(data))
    if im == "spmatrix":
        if call.get("refit"):
            sc2 = dict(sc, reference_size=None, reference=None) if call.get("default_ref") else sc
            m2 = make_model(sc2, input_method="spmatrix")
            fit_model(sc2, m2, data)
            return m2.embedding_
        return model.transform(build_sparse(data), vectors=vec_array(data))
    ds, vs = lists_of(data)
    if im == "lil":
        if call.get("container") == "tuple":
            return model.transform(tuple(ds), vectors=tuple(vs))
        return model.transform(ds, vectors=vs)
    model.generator_n_distributions = len(ds)
    return model.transform((d for d in ds), vectors=(v for v in vs))


def raw_lot(sc, model, data):
    """The uncompressed LOT vectors exactly as fit computes them (spmatrix input)."""
    metric = named_distances[sc["metric"]]
    X = normalize(sp.csr_matrix(build_sparse(data)).astype(np.float64), norm="l1")
    X = normalize(X.tocsr().astype(np.float64), norm="l1")
    vecs = np.array(data["vectors"], dtype=np.float64)
    if sc["metric"] == "cosine":
        vecs = normalize(vecs, norm="l2")
    return L.lot_vectors_sparse_internal(X.indptr, X.indices, X.data, vecs, model.reference_vectors_,
                                         model.reference_distribution_, metric=metric,
                                         max_distribution_size=sc.get("max_distribution_size", 256),
                                         chunk_size=256, spherical_vectors=(sc["metric"] == "cosine"))


def pdist(A):
    A = np.asarray(A, dtype=np.float64)
    G = A @ A.T
    d = np.diag(G)
    return np.sqrt(np.maximum(d[:, None] + d[None, :] - 2 * G, 0.0))


def run_scenario(sc):
    out = {"calls": {}}
    models = {}
    base = sc["base"]
    for im in sc.get("input_methods", [sc.get("input_method", "spmatrix")]):
        m = make_model(sc, input_method=im)
        b = base[im] if isinstance(base, dict) and im in base else base
        if sc.get("prehistory") and im == "spmatrix" and sc["est"] != "approx":
            prehistory(sc, m, b)
        if sc["est"] == "approx":
            emb = m.fit_transform(build_sparse(b), vectors=vec_array(b))
            out.setdefault("fit", {})[im] = {"embedding": tol_list(emb)}
        else:
            fit_model(sc, m, b)
            out.setdefault("fit", {})[im] = {"embedding": tol_list(m.embedding_),
                                            "reference_size": int(np.asarray(m.reference_vectors_).shape[0])}
        models[im] = m
    if sc["est"] == "wasserstein" and sc.get("method", "LOT_exact") == "LOT_exact":
        im0 = sc.get("input_methods", [sc.get("input_method", "spmatrix")])[0]
        b0 = base[im0] if isinstance(base, dict) and im0 in base else base
        if im0 == "spmatrix":
            out["margins"] = margins_sparse(models[im0], build_sparse(dict(b0, fmt="csr")), b0["vectors"], sc["metric"])
        else:
            ds, vs = lists_of(b0)
            out["margins"] = margins_lists(models[im0], ds, vs, sc["metric"])
    if sc.get("kind") == "wass-formats":
        # spectral gaps of the raw LOT matrix around the n_components cut: with a (near-)degenerate gap the SVD
        # subspace is not determined by the data and the compressed outputs of two fits may legitimately differ
        raw = raw_lot(sc, models["spmatrix"], base["spmatrix"])
        sv = np.linalg.svd(raw, compute_uv=False)
        k = min(sc["n_components"], len(sv))
        gaps = [(sv[i] - (sv[i + 1] if i + 1 < len(sv) else 0.0)) / max(sv[0], 1e-300) for i in range(k)]
        out["sv_gap"] = float(min(gaps)) if gaps else 1.0
    if sc.get("isometry"):
        m = models["spmatrix"]
        raw = raw_lot(sc, m, base["spmatrix"] if isinstance(base, dict) and "spmatrix" in base else base)
        sv = np.linalg.svd(raw, compute_uv=False)
        out["isometry"] = {"raw_pdist": tol_list(pdist(raw)), "emb_pdist": tol_list(pdist(m.embedding_)),
                           "rank": int((sv > 1e-9 * max(sv.max(), 1e-300)).sum()), "n_components": int(m.components_.shape[0]),
                           "vvt_err": float(np.abs(m.components_ @ m.components_.T - np.eye(m.components_.shape[0])).max()),
                           "raw_scale": float(np.abs(raw).max())}
    for call in sc["calls"]:
        try:
            r = do_transform(sc, models[call.get("input_method", sc.get("input_method", "spmatrix"))], call)
            out["calls"][call["name"]] = {"ok": tol_list(r)}
        except Exception as e:
            out["calls"][call["name"]] = {"err": type(e).__name__, "msg": str(e)[:300], "tb": traceback.format_exc()[-800:]}
    return out


# ---------------------------------------------------------------- per-row pipeline for the model correspondence
def run_pipeline(case):
    """lot_vectors_dense_internal / lot_vectors_sparse_internal on one row (euclidean metric with
    spherical_vectors=False, or cosine metric with spherical_vectors=True when case["spherical"]) and, separately, the
    plan of that row obtained by the same steps the kernel takes (normalise, truncate, cost orientation,
    transport_plan) — the model is executed with this plan as input."""
    sph = bool(case.get("spherical"))
    metric = named_distances["cosine" if sph else "euclidean"]
    w = np.array(case["w"], dtype=np.float64)
    xs = np.array(case["xs"], dtype=np.float64).reshape(len(w), -1)
    q = np.array(case["q"], dtype=np.float64)
    ys = np.array(case["ys"], dtype=np.float64).reshape(len(q), -1)
    mds = int(case["max_distribution_size"])
    if case["kernel"] == "dense":
        vs = numba.typed.List.empty_list(numba.float64[:, :])
        ds = numba.typed.List.empty_list(numba.float64[:])
        vs.append(np.ascontiguousarray(xs.copy()))
        ds.append(w.copy())
        out = L.lot_vectors_dense_internal(vs, ds, ys, q, metric=metric, max_distribution_size=mds, chunk_size=256,
                                           spherical_vectors=sph)[0]
    else:
        indptr = np.array([0, len(w)], dtype=np.int32)
        indices = np.arange(len(w), dtype=np.int32)
        out = L.lot_vectors_sparse_internal(indptr, indices, w.copy(), xs.copy(), ys, q, metric=metric,
                                            max_distribution_size=mds, chunk_size=256, spherical_vectors=sph)[0]
    # the plan, by the kernel's own steps
    rd, rv = w.copy(), xs.copy()
    if rv.shape[0] > mds:
        best = np.argsort(-rd)[:mds]
        rv, rd = rv[best], rd[best]
    s = rd.sum()
    if not s > 0.0:
        return {"out": tol_list(out), "plan": None}
    rd = rd / s
    if rv.shape[0] > ys.shape[0]:
        cost = L.chunked_pairwise_distance(rv, ys, dist=metric)
    else:
        cost = L.chunked_pairwise_distance(ys, rv, dist=metric).T
    plan = L.transport_plan(rd, q, np.ascontiguousarray(cost, dtype=np.float64))
    return {"out": tol_list(out), "plan": tol_list(plan), "p": tol_list(rd)}


def run_sinkrow(case):
    """sinkhorn_vectors_sparse_internal on one chunk and, separately, the scalings (u, v, K) of that chunk from the
    same call the kernel makes (sinkhorn_plan_batch) — the model computes every row from its own column of u and v."""
    D = np.array(case["distributions"], dtype=np.float64).reshape(case["b"], case["n"])
    xs = np.array(case["xs"], dtype=np.float64).reshape(case["n"], case["d"])
    q = np.array(case["q"], dtype=np.float64)
    ys = np.array(case["ys"], dtype=np.float64).reshape(case["m"], case["d"])
    cost = L.chunked_pairwise_distance(xs, ys, dist=named_distances["cosine"]).T.astype(np.float64)
    out = L.sinkhorn_vectors_sparse_internal(D.copy(), xs.copy(), q.copy(), ys.copy(), np.ascontiguousarray(cost))
    u, v, K = L.sinkhorn_plan_batch(q.copy(), D.copy(), np.ascontiguousarray(cost))
    return {"out": tol_list(out), "u": tol_list(u.T), "v": tol_list(v.T), "K": tol_list(K)}


def run_approx(case):
    """ApproximateWassersteinVectorizer: fit on one collection, transform another (stored entries as given, explicit
    zeros kept); returns the SVD data the model takes as input and both outputs."""
    V_ = np.array(case["vectors"], dtype=np.float64).reshape(case["N"], case["d"])
    m = V.ApproximateWassersteinVectorizer(n_components=case["n_components"], normalization_power=case["power"],
                                           random_state=case["random_state"])
    Xf = build_sparse({"n": len(case["fit_rows"]), "N": case["N"], "rows": case["fit_rows"], "fmt": "csr"})
    m.fit(Xf, vectors=V_.copy())
    Xt = build_sparse({"n": len(case["rows"]), "N": case["N"], "rows": case["rows"], "fmt": case.get("fmt", "csr")})
    out = m.transform(Xt)
    return {"out": tol_list(out), "components": tol_list(m.components_), "singular_values": tol_list(m.singular_values_)}


payload = json.load(open(sys.argv[1]))
res = []
try:
    for item in payload:
        try:
            if item["type"] == "scenario":
                res.append(run_scenario(item))
            elif item["type"] == "sinkrow":
                res.append(run_sinkrow(item))
            elif item["type"] == "approxrow":
                res.append(run_approx(item))
            else:
                res.append(run_pipeline(item))
        except Exception as e:
            res.append({"err": type(e).__name__, "msg": str(e)[:300], "tb": traceback.format_exc()[-1200:]})
        json.dump(res, open(sys.argv[2], "w"))
finally:
    shutil.rmtree(SCRATCH, ignore_errors=True)
json.dump(res, open(sys.argv[2], "w"))
