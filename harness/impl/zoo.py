"""Estimator zoo used by the aggregate checks (C01, C02, C10): for an estimator name and an integer seed it builds,
deterministically, a random valid parameter setting, a training input X and a second input X2 (with unseen vocabulary /
out-of-range values where the estimator accepts them).  Runs inside the implementation child process."""
import random
import numpy as np
import scipy.sparse as sp

import vectorizers as V
import vectorizers.transformers as T

ALPHA = ["a", "b", "c", "d", "e", "f"]


class Case:
    def __init__(self, name, seed):
        self.name, self.seed = name, seed
        self.rng = random.Random("%s/%d" % (name, seed))
        self.np = np.random.RandomState(self.rng.randrange(2 ** 31))
        self.params = {}
        self.fit_kw = {}        # builder of kwargs for fit/fit_transform given the data
        self.tr_kw = {}
        self.exact = True       # outputs compared exactly (counts / encodings) or numerically
        self.rtol = 1e-6
        self.rowwise = True     # transform returns one row per input item
        self.notes = []

    def describe(self):
        return {"estimator": self.name, "seed": self.seed, "params": {k: repr(v) for k, v in self.params.items()},
                "notes": self.notes}


def grid(c, *option_lists):
    """Mixed-radix enumeration of the main discrete parameters on the case seed: consecutive seeds walk through every
    combination, so a run with k >= product-of-sizes consecutive seeds covers the whole grid (the remaining parameters
    and the data are random)."""
    idx, out = c.seed, []
    for opts in option_lists:
        out.append(opts[idx % len(opts)])
        idx //= len(opts)
    return out


def tokens(c, n_docs=None, alphabet=None, min_len=0, max_len=10):
    r = c.rng
    alphabet = alphabet or ALPHA[: r.randint(2, 6)]
    n_docs = n_docs or r.randint(1, 6)
    docs = [[r.choice(alphabet) for _ in range(r.randint(min_len, max_len))] for _ in range(n_docs)]
    if sum(len(d) for d in docs) < 3:
        docs.append([alphabet[0], alphabet[-1], alphabet[0]])
    return docs


def cooc_params(c, timed=False, multi=False):
    r = c.rng
    p = {}
    nwin = r.choice([1, 1, 2])
    if nwin == 1:
        p["window_radii"] = r.choice([0, 1, 2, 3, 5, 15])
        p["window_functions"] = r.choice(["fixed", "fixed", "variable"])
        kf = ["flat", "geometric"] if (timed or multi) else ["flat", "harmonic", "geometric"]
        p["kernel_functions"] = r.choice(kf)
        p["window_orientations"] = r.choice(["before", "after", "directional"])
        if r.random() < 0.3 and not timed:
            p["kernel_args"] = {"normalize": r.random() < 0.5, "offset": r.choice([0, 1])}
    else:
        kf = ["flat", "geometric"] if (timed or multi) else ["flat", "harmonic", "geometric"]
        p["window_radii"] = [r.choice([1, 2, 4]) for _ in range(nwin)]
        p["window_functions"] = [r.choice(["fixed", "variable"]) for _ in range(nwin)]
        p["kernel_functions"] = [r.choice(kf)] * nwin
        p["window_orientations"] = [r.choice(["before", "after", "directional"]) for _ in range(nwin)]
        p["mix_weights"] = [r.choice([1, 2, 0.5]) for _ in range(nwin)]
    if timed and p["window_radii"] == 0:
        p["window_radii"] = 1
    p["normalize_windows"] = r.random() < 0.5
    # the two settings that decide which of the three hand-written pipelines (fit_transform / fit / transform) can
    # disagree -- what happens to tokens outside the vocabulary (deleted | masked | masked and nullified) and how the
    # vocabulary is pruned -- are ENUMERATED on the seed: any COOC_GRID = 12 consecutive seeds cover every
    # (mask setting, pruning) pair for the driver at hand, and walk through the six (n_iter, epsilon) settings
    # (EM on heavily thresholded matrices, rows that lose every cell, first); COOC_GRID * 6 consecutive seeds cover
    # the full product.
    mask, prune = grid(c, COOC_MASKS, COOC_PRUNES)
    p["n_iter"], p["epsilon"] = COOC_EM[(c.seed % COOC_GRID + c.seed // COOC_GRID) % len(COOC_EM)]
    p["n_threads"] = r.choice([1, 1, 2, 3])
    if r.random() < 0.3:
        p["coo_initial_memory"] = r.choice(["1k", "2k", "20k"])
    k_unique = r.randint(2, 4)
    p.update(mask)
    p.update({k: (k_unique if v == "k" else v) for k, v in prune.items()})
    return p


COOC_MASKS = [{"mask_string": "MASK", "nullify_mask": True}, {}, {"mask_string": "MASK"}]
COOC_PRUNES = [{"min_occurrences": 2}, {}, {"max_unique_tokens": "k"}, {"min_document_occurrences": 2}]
COOC_EM = [(1, 0.5), (0, 0), (2, 0.2), (1, 0), (0, 0.2), (2, 0.5)]
COOC_GRID = len(COOC_MASKS) * len(COOC_PRUNES)


def _ensure_vocab(docs, p):
    """Make sure pruning leaves a non-empty vocabulary: duplicate the corpus when a minimum (document) occurrence
    count is set."""
    if p.get("min_occurrences") or p.get("min_document_occurrences"):
        docs = docs + docs
    return docs


NGRAM_GRID = 36


def build(name, seed):
    c = Case(name, seed)
    r = c.rng
    if name == "TokenCooccurrenceVectorizer":
        c.params = cooc_params(c)
        c.X = _ensure_vocab(tokens(c), c.params)
        c.X2 = tokens(c, alphabet=ALPHA[: r.randint(2, 6)] + ["zz"])
        c.make = lambda: V.TokenCooccurrenceVectorizer(**c.params)
        c.rowwise = False
        c.exact = False
        c.rtol = 1e-5
    elif name == "TimedTokenCooccurrenceVectorizer":
        c.params = cooc_params(c, timed=True)
        scale = r.choice([1.0, 1.0, 1000.0])

        def timed(docs):
            out = []
            for d in docs:
                t = 0.0
                row = []
                for tok in d:
                    t += r.choice([0.5, 1.0, 1.0, 2.0, 3.5]) * scale
                    row.append((tok, t))
                out.append(row)
            return out
        c.X = timed(_ensure_vocab(tokens(c, min_len=2), c.params))
        c.X2 = timed(tokens(c, min_len=2, alphabet=ALPHA[:4] + ["zz"]))
        c.make = lambda: V.TimedTokenCooccurrenceVectorizer(**c.params)
        c.rowwise = False
        c.exact = False
        c.rtol = 1e-5
    elif name == "MultiSetCooccurrenceVectorizer":
        c.params = cooc_params(c, multi=True)

        def multi(docs):
            return [[[r.choice(d) for _ in range(r.randint(1, 3))] for _ in range(max(1, len(d) // 2))] for d in docs if d]
        c.X = multi(_ensure_vocab(tokens(c, min_len=2), c.params))
        c.X2 = multi(tokens(c, min_len=2, alphabet=ALPHA[:4] + ["zz"]))
        c.make = lambda: V.MultiSetCooccurrenceVectorizer(**c.params)
        c.rowwise = False
        c.exact = False
        c.rtol = 1e-5
    elif name == "NgramCooccurrenceVectorizer":
        c.params = cooc_params(c)
        c.params["ngram_size"] = r.choice([1, 2, 2, 3])
        c.params.pop("max_unique_tokens", None)
        c.X = _ensure_vocab(tokens(c, min_len=3), c.params) * 2
        c.X2 = tokens(c, min_len=3, alphabet=ALPHA[:4] + ["zz"])
        c.make = lambda: V.NgramCooccurrenceVectorizer(**c.params)
        c.rowwise = False
        c.exact = False
        c.rtol = 1e-5
    elif name == "LabelledTreeCooccurrenceVectorizer":
        c.params = {"window_radius": r.choice([1, 2, 3, 5]), "kernel_function": r.choice(["flat", "harmonic", "geometric"]),
                    "window_orientation": r.choice(["before", "after", "symmetric", "directional"])}
        if r.random() < 0.3:
            c.params["min_occurrences"] = 2
        if r.random() < 0.3:
            c.params["mask_string"] = "MASK"
            c.params["nullify_mask"] = r.random() < 0.5

        def forest(alphabet):
            out = []
            for _ in range(r.randint(1, 4)):
                n = r.randint(1, 8)
                A = np.zeros((n, n), dtype=np.int64)
                for v in range(1, n):
                    if r.random() < 0.9:
                        A[r.randrange(v), v] = 1
                out.append((sp.csr_matrix(A), np.array([r.choice(alphabet) for _ in range(n)])))
            return out
        alpha = ALPHA[: r.randint(1, 5)]
        c.X = forest(alpha) * (2 if c.params.get("min_occurrences") else 1)
        c.X2 = forest(alpha + ["zz"])
        c.make = lambda: V.LabelledTreeCooccurrenceVectorizer(**c.params)
        c.rowwise = False
        c.exact = False
        c.rtol = 1e-5
    elif name == "NgramVectorizer":
        # (ngram_size, behaviour) first -- 6 consecutive seeds cover them --, then mask setting and pruning: NGRAM_GRID = 36
        # consecutive seeds cover the whole product (the fit / transform loops are duplicated code, like the
        # preprocessing call in front of them)
        size, beh, mask, prune = grid(c, [3, 1, 2], ["subgrams", "exact"],
                                      [{}, {"mask_string": "MASK"}, {"mask_string": "MASK", "nullify_mask": True}],
                                      [{}, {"min_occurrences": 2}])
        c.params = {"ngram_size": size, "ngram_behaviour": beh}
        c.params.update(mask)
        c.params.update(prune)
        if r.random() < 0.2:
            c.params["max_document_frequency"] = 0.9
        # documents shorter than, equal to and longer than ngram_size
        short = [[r.choice(ALPHA[:3]) for _ in range(k)] for k in (1, 2, 2, 3)]
        c.X = (tokens(c) + short) * (2 if c.params.get("min_occurrences") else 1)
        c.X2 = tokens(c, alphabet=ALPHA[:4] + ["zz"]) + [[]] + short
        c.make = lambda: V.NgramVectorizer(**c.params)
    elif name == "SkipgramVectorizer":
        wf, kf = grid(c, ["fixed", "variable"], ["flat", "harmonic", "geometric"])
        c.params = {"window_radius": r.choice([1, 2, 3, 8]), "window_function": wf, "kernel_function": kf}
        if r.random() < 0.3:
            c.params["min_occurrences"] = 2
        c.X = tokens(c, min_len=2) * (2 if c.params.get("min_occurrences") else 1)
        c.X2 = tokens(c, alphabet=ALPHA[:4] + ["zz"]) + [[]]
        c.make = lambda: V.SkipgramVectorizer(**c.params)
        c.exact = False
        c.rtol = 1e-5
    elif name == "EdgeListVectorizer":
        c.params = {"joint_space": r.random() < 0.3}

        def edges(rows, cols):
            return [(r.choice(rows), r.choice(cols), r.choice([1, 1, 2, 3, 0.5])) for _ in range(r.randint(1, 15))]
        rows, cols = ["r%d" % i for i in range(r.randint(1, 4))], ["c%d" % i for i in range(r.randint(1, 5))]
        if c.params["joint_space"]:
            cols = rows + cols
        c.X = edges(rows, cols)
        c.X2 = edges(rows + ["rz"], cols + ["cz"])
        c.make = lambda: V.EdgeListVectorizer(**c.params)
        c.rowwise = False   # one row per fitted row label
    elif name in ("LZCompressionVectorizer", "BytePairEncodingVectorizer"):
        def strings(alpha, n=None):
            return ["".join(r.choice(alpha) for _ in range(r.choice([0, 1, 2, 3, 5, 8, 13, 20]))) for _ in range(n or r.randint(1, 6))]
        alpha = "ab" if r.random() < 0.3 else "abcde"
        c.X = strings(alpha) + ["abab" * 3]
        c.X2 = strings(alpha + "zé中") + ["", "a"]
        if name == "LZCompressionVectorizer":
            mds, mc = grid(c, [65536, 3], [None, 8])
            c.params = {"max_dict_size": r.choice([mds, mds, 2, 5, 64]), "max_columns": r.choice([mc, mc, 2, 65536]) if mc else None,
                        "random_state": r.choice([None, 0, 7])}
            if c.params["max_columns"] is not None and c.params["random_state"] is None:
                c.params["random_state"] = 3     # an unseeded hash differs between two fits by design
            if c.params["max_columns"] is None and r.random() < 0.5:
                c.params["base_dictionary"] = {"a": 1, "ab": 2, "b": 1}

            c.make = lambda: V.LZCompressionVectorizer(**c.params)
        else:
            c.params = {"max_vocab_size": r.choice([2, 3, 5, 20, 10000]), "min_token_occurrence": r.choice([1, 2, 3]),
                        "return_type": grid(c, ["matrix", "sequences", "tokens"])[0],
                        "max_char_code": r.choice([None, None, 127, 65535])}
            if c.params["max_char_code"] is None:
                c.params.pop("max_char_code")
            c.make = lambda: V.BytePairEncodingVectorizer(**c.params)
    elif name in ("HistogramVectorizer", "KDEVectorizer"):
        def seqs(lo, hi, n=None, min_len=1):
            return [c.np.uniform(lo, hi, size=r.randint(min_len, 30)).round(2) for _ in range(n or r.randint(2, 6))]
        # KDE's automatic bandwidth selection jack-knifes every training sequence: it needs >= 2 values each
        c.X = seqs(0, 10, min_len=2)
        c.X2 = seqs(-5, 15) + [np.array([0.0]), np.array([1e6, -1e6])]
        if name == "HistogramVectorizer":
            strat, outl = grid(c, ["uniform", "quantile"], [False, True])
            c.params = {"n_components": r.choice([2, 5, 20]), "strategy": strat, "append_outlier_bins": outl}
            if r.random() < 0.4:
                c.params["absolute_range"] = (r.choice([-1.0, 0.0]), r.choice([10.0, 12.0]))
            c.make = lambda: V.HistogramVectorizer(**c.params)
        else:
            c.params = {"n_components": r.choice([5, 20]), "bandwidth": r.choice([None, 0.5, 2.0]),
                        "evaluation_grid_strategy": r.choice(["uniform", "density"])}
            c.make = lambda: V.KDEVectorizer(**c.params)
            c.exact = False
            c.rtol = 1e-9
    elif name == "DistributionVectorizer":
        def clouds(n=None):
            return [c.np.normal(size=(r.randint(5, 20), 2)) + c.np.normal(size=2) for _ in range(n or r.randint(3, 6))]
        c.params = {"n_components": r.choice([2, 3, 5]), "random_state": r.randint(0, 100)}
        c.X = clouds()
        c.X2 = clouds()
        c.make = lambda: V.DistributionVectorizer(**c.params)
        c.exact = False
        c.rtol = 1e-8
    elif name in ("WassersteinVectorizer", "SinkhornVectorizer", "ApproximateWassersteinVectorizer"):
        n, m, d = r.randint(3, 14), r.randint(3, 9), r.randint(2, 4)
        M = c.np.rand(n, m) * (c.np.rand(n, m) > 0.3)
        M[M.sum(axis=1) == 0, 0] = 1.0
        n2 = r.randint(1, 7)
        M2 = c.np.rand(n2, m) * (c.np.rand(n2, m) > 0.3)
        M2[M2.sum(axis=1) == 0, -1] = 1.0
        vecs = c.np.normal(size=(m, d))
        metric = r.choice(["cosine", "euclidean", "euclidean"])
        if name != "ApproximateWassersteinVectorizer" and (c.seed // 3) % 2 == 1:
            # the metric given as a callable (the documented alternative to its name); vectors of unequal norms
            from pynndescent import distances as _pd
            metric = _pd.cosine if (c.seed // 6) % 2 == 0 else _pd.euclidean
            c.notes.append("metric passed as callable")
        c.exact = False
        c.fit_kw = {"vectors": vecs}
        if name == "WassersteinVectorizer":
            ref = r.randint(2, 4)
            c.params = {"metric": metric, "reference_size": ref, "n_components": min(n, ref * d),
                        "random_state": r.randint(0, 100)}
            (meth, inp), mem = grid(c, [("LOT_exact", "spmatrix"), ("LOT_exact", "lil"), ("LOT_sinkhorn", "spmatrix")],
                                    ["2G", "0.3k", "1k"])
            c.params.update({"memory_size": mem, "method": meth, "input_method": inp})
            c.tr_kw = {"vectors": vecs}
            c.make = lambda: V.WassersteinVectorizer(**c.params)
            c.rtol = 1e-5
        elif name == "SinkhornVectorizer":
            ref = r.randint(2, 4)
            c.params = {"metric": metric, "reference_size": ref, "n_components": min(n, ref * d),
                        "random_state": r.randint(0, 100)}
            mem, ch = grid(c, ["0.3k", "2G", "0.5k"], [32, 2, 1])
            c.params.update({"memory_size": mem, "chunk_size": ch})
            c.tr_kw = {"vectors": vecs}
            c.make = lambda: V.SinkhornVectorizer(**c.params)
            c.rtol = 1e-5
        else:
            c.params = {"n_components": min(n, d), "random_state": r.randint(0, 100),
                        "normalization_power": r.choice([1.0, 0.66])}
            c.make = lambda: V.ApproximateWassersteinVectorizer(**c.params)
            c.rtol = 1e-5
        if c.params.get("input_method") == "lil":
            S, S2 = sp.csr_matrix(M), sp.csr_matrix(M2)
            c.X = [np.ascontiguousarray(S[i].data) for i in range(S.shape[0])]
            c.fit_kw = {"vectors": [np.ascontiguousarray(vecs[S[i].indices]) for i in range(S.shape[0])]}
            c.tr_kw = dict(c.fit_kw)
            c.X2 = [np.ascontiguousarray(S2[i].data) for i in range(S2.shape[0])]
            c.tr2_kw = {"vectors": [np.ascontiguousarray(vecs[S2[i].indices]) for i in range(S2.shape[0])]}
        else:
            c.X, c.X2 = sp.csr_matrix(M), sp.csr_matrix(M2)
    elif name in ("InformationWeightTransformer", "RowDenoisingTransformer", "CountFeatureCompressionTransformer"):
        n, m = r.randint(3, 10), r.randint(3, 8)
        M = np.floor(c.np.rand(n, m) * 5 * (c.np.rand(n, m) > 0.4))
        M[M.sum(axis=1) == 0, 0] = 1.0
        M[0, M.sum(axis=0) == 0] = 1.0
        n2 = r.randint(1, 6)
        M2 = np.floor(c.np.rand(n2, m) * 5 * (c.np.rand(n2, m) > 0.4))
        M2[M2.sum(axis=1) == 0, 0] = 2.0
        def encode(A, fmt):
            """One of the storage layouts scipy accepts for the same matrix."""
            if fmt == "csr":
                return sp.csr_matrix(A)
            if fmt == "coo":
                return sp.coo_matrix(A)
            S = sp.csc_matrix(A)
            if fmt == "csc_unsorted":          # valid CSC whose row indices are not sorted within the columns
                for j in range(S.shape[1]):
                    lo, hi = S.indptr[j], S.indptr[j + 1]
                    perm = c.np.permutation(hi - lo)
                    S.indices[lo:hi] = S.indices[lo:hi][perm]
                    S.data[lo:hi] = S.data[lo:hi][perm]
                S.has_sorted_indices = False
            return S
        fmt = grid(c, ["csc_unsorted", "csr", "csc", "coo"])[0] if name == "InformationWeightTransformer" else "csr"
        c.X, c.X2 = encode(M, fmt), sp.csr_matrix(M2)
        c.notes.append("format " + fmt)
        c.exact = False
        if name == "InformationWeightTransformer":
            c.params = {"prior_strength": r.choice([1e-4, 0.1, 1.0]), "approx_prior": (c.seed // 4) % 2 == 1,
                        "weight_power": r.choice([1.0, 2.0])}
            c.make = lambda: T.InformationWeightTransformer(**c.params)
            c.rtol = 1e-9
        elif name == "RowDenoisingTransformer":
            c.params = {"em_background_prior": r.choice([1.0, 5.0]), "normalize": r.choice([False, "l1"])}
            c.make = lambda: T.RowDenoisingTransformer(**c.params)
            c.rtol = 1e-9
        else:
            c.params = {"n_components": min(n, m) - 1 if min(n, m) > 2 else 2, "random_state": r.randint(0, 100),
                        "rescaling_power": r.choice([0.5, 1.0])}
            c.params["n_components"] = min(n, m)
            c.make = lambda: T.CountFeatureCompressionTransformer(**c.params)
            c.rtol = 1e-5
    elif name in ("SlidingWindowTransformer", "SequentialDifferenceTransformer"):
        w = r.randint(1, 5)
        def seqs(n=None):
            return [c.np.randint(-9, 9, size=r.randint(w + 1, w + 12)).astype(np.float64) for _ in range(n or r.randint(1, 4))]
        c.X, c.X2 = seqs(), seqs()
        if name == "SlidingWindowTransformer":
            c.params = {"window_width": w, "window_stride": r.randint(1, 3), "pad_width": r.choice([0, 0, 1]),
                        "window_sample": r.choice([None, None, 2])}
            c.make = lambda: T.SlidingWindowTransformer(**c.params)
        else:
            c.params = {"stride": w}
            c.make = lambda: T.SequentialDifferenceTransformer(**c.params)
        c.listout = True
    else:
        raise KeyError(name)
    if not hasattr(c, "tr2_kw"):
        c.tr2_kw = dict(c.tr_kw)
    return c


ALL = ["TokenCooccurrenceVectorizer", "TimedTokenCooccurrenceVectorizer", "MultiSetCooccurrenceVectorizer",
       "NgramCooccurrenceVectorizer", "LabelledTreeCooccurrenceVectorizer", "NgramVectorizer", "SkipgramVectorizer",
       "EdgeListVectorizer", "LZCompressionVectorizer", "BytePairEncodingVectorizer", "HistogramVectorizer",
       "KDEVectorizer", "DistributionVectorizer", "WassersteinVectorizer", "SinkhornVectorizer",
       "ApproximateWassersteinVectorizer", "InformationWeightTransformer", "RowDenoisingTransformer",
       "CountFeatureCompressionTransformer", "SlidingWindowTransformer", "SequentialDifferenceTransformer"]


def canon(out):
    """Canonical JSON-able form of an estimator output."""
    if sp.issparse(out):
        o = out.tocoo()
        o.sum_duplicates()
        trip = sorted((int(i), int(j), float(v)) for i, j, v in zip(o.row, o.col, o.data) if v != 0)
        return {"kind": "sparse", "shape": [int(s) for s in out.shape], "triples": trip}
    if isinstance(out, np.ndarray):
        if out.dtype == object:
            return {"kind": "list", "items": [canon(x) for x in out]}
        return {"kind": "dense", "shape": [int(s) for s in out.shape], "data": [float(x) for x in out.ravel()]}
    if isinstance(out, (str, int, float, np.integer, np.floating)):
        return {"kind": "scalar", "v": out if isinstance(out, str) else float(out)}
    if isinstance(out, (list, tuple)) or (hasattr(out, "__len__") and hasattr(out, "__iter__") and not isinstance(out, (dict, bytes))):
        return {"kind": "list", "items": [canon(x) for x in out]}
    return {"kind": "repr", "v": repr(out)[:200]}


def diff(a, b, exact, rtol, atol=1e-9):
    """None when canonical outputs a and b agree, else a short description."""
    if a["kind"] != b["kind"]:
        return "kind %s vs %s" % (a["kind"], b["kind"])
    if a["kind"] == "sparse":
        if a["shape"] != b["shape"]:
            return "shape %s vs %s" % (a["shape"], b["shape"])
        da = {(i, j): v for i, j, v in a["triples"]}
        db = {(i, j): v for i, j, v in b["triples"]}
        for k in set(da) | set(db):
            x, y = da.get(k, 0.0), db.get(k, 0.0)
            if (x != y) if exact else (abs(x - y) > atol + rtol * max(abs(x), abs(y))):
                return "cell %s: %r vs %r" % (k, x, y)
        return None
    if a["kind"] == "dense":
        if a["shape"] != b["shape"]:
            return "shape %s vs %s" % (a["shape"], b["shape"])
        scale = max([abs(x) for x in a["data"]] + [1e-300])
        for idx, (x, y) in enumerate(zip(a["data"], b["data"])):
            if x != x and y != y:
                continue
            if (x != y) if exact else (abs(x - y) > atol + rtol * max(abs(x), abs(y), scale)):
                return "entry %d: %r vs %r" % (idx, x, y)
        return None
    if a["kind"] == "list":
        if len(a["items"]) != len(b["items"]):
            return "length %d vs %d" % (len(a["items"]), len(b["items"]))
        for i, (x, y) in enumerate(zip(a["items"], b["items"])):
            d = diff(x, y, exact, rtol, atol)
            if d:
                return "item %d: %s" % (i, d)
        return None
    return None if a["v"] == b["v"] else "%r vs %r" % (a["v"], b["v"])


def nrows(out):
    if sp.issparse(out) or isinstance(out, np.ndarray):
        return int(out.shape[0])
    return len(out)


def ncols(out):
    if sp.issparse(out) or (isinstance(out, np.ndarray) and out.ndim == 2):
        return int(out.shape[1])
    return None
