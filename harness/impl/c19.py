"""Implementation side of C19: runs SlidingWindowTransformer / SequentialDifferenceTransformer on JSON cases."""
import json, sys, traceback
import numpy as np
from vectorizers.transformers import SlidingWindowTransformer, SequentialDifferenceTransformer

def to_sample(form):
    k = form[0]
    if k == "none": return None
    if k == "stride": return int(form[1])
    if k == "startstride": return (int(form[1]), int(form[2]))
    if k == "index": return np.asarray(form[1], dtype=np.int64)
    raise ValueError(k)

def to_kernels(K, ncols):
    if K[0] == "none": return None
    if K[0] == "differences": return [("differences", int(K[1]), int(K[2]), int(K[3]))]
    if K[0] == "matrix": return [np.asarray(K[1], dtype=np.float64)]
    raise ValueError(K)

def seq_array(case):
    a = np.asarray(case["seq"], dtype=np.int64)
    if case.get("univariate", False):
        a = a[:, 0]
    if case.get("as_float", False):
        a = a.astype(np.float64)
    return a

def run(case):
    X = [seq_array(case)]
    if case["kind"] == "seqdiff":
        if case.get("prehistory"):
            # the estimator object has a past: fitted and used with another stride, then reconfigured with set_params
            t = SequentialDifferenceTransformer(stride=case["t"] + 1 + case["prehistory"] % 2)
            try:
                P = [np.arange(3 * (case["t"] + 3), dtype=np.float64)]
                t.fit(P).transform(P)
            except Exception:
                pass
            t.set_params(stride=case["t"])
        else:
            t = SequentialDifferenceTransformer(stride=case["t"])
        out = t.fit(X).transform(X)[0]
    else:
        params = dict(window_width=case["width"], window_stride=case["stride"],
                      window_sample=to_sample(case["sample"]), kernels=to_kernels(case["K"], None),
                      pad_width=case["pw"], pad_value=case["pv"])
        if case.get("prehistory"):
            t = SlidingWindowTransformer(window_width=case["width"] + 1, window_stride=case["stride"] + 1,
                                         window_sample=None, kernels=None, pad_width=1, pad_value=3)
            try:
                P = [np.arange(4 * (case["width"] + 2), dtype=np.float64)]
                t.fit(P).transform(P)
            except Exception:
                pass
            t.set_params(**params)
        else:
            t = SlidingWindowTransformer(**params)
        out = t.fit(X).transform(X)[0]
    out = np.asarray(out)
    if out.ndim == 1:
        out = out.reshape(len(out), -1)
    if not np.all(np.isfinite(out)) or not np.all(out == np.round(out)):
        return {"err": "nonint", "raw": out.tolist()}
    return {"ok": [[int(v) for v in row] for row in out.reshape(out.shape[0], -1)]}

cases = json.load(open(sys.argv[1]))
res = []
for c in cases:
    try:
        res.append(run(c))
    except Exception as e:
        res.append({"err": type(e).__name__, "msg": str(e)[:300], "tb": traceback.format_exc()[-600:]})
    if len(res) % 50 == 0:
        json.dump(res, open(sys.argv[2], "w"))
json.dump(res, open(sys.argv[2], "w"))
