"""Implementation side of C19: runs SlidingWindowTransformer / SequentialDifferenceTransformer on JSON cases."""
import json, sys, traceback
import numpy as np
from vectorizers.transformers import SlidingWindowTransformer, SequentialDifferenceTransformer

def to_sample(form):
    k = form[0]
    if k == "none": return None
    if k == "stride": return int(form[1])
    if k == "startstride": return (int(form[1]), int(form[2]))
    if k == "index": return np.asarray(form[1], dtype=np.int64)
    raise ValueError(k)

def to_kernels(K, ncols):
    if K[0] == "none": return None
    if K[0] == "differences": return [("differences", int(K[1]), int(K[2]), int(K[3]))]
    if K[0] == "matrix": return [np.asarray(K[1], dtype=np.float64)]
    raise ValueError(K)

def seq_array(case):
    a = np.asarray(case["seq"], dtype=np.int64)
    if case.get("univariate", False):
        a = a[:, 0]
    if case.get("as_float", False):
        a = a.astype(np.float64)
    return a

def run(case):
    if case["kind"] == "seqdiff":
        t = SequentialDifferenceTransformer(stride=case["t"])
        X = [seq_array(case)]
        out = t.fit(X).transform(X)[0]
    else:
        t = SlidingWindowTransformer(window_width=case["width"], window_stride=case["stride"],
                                     window_sample=to_sample(case["sample"]), kernels=to_kernels(case["K"], None),
                                     pad_width=case["pw"], pad_value=case["pv"])
        X = [seq_array(case)]
        out = t.fit(X).transform(X)[0]
    out = np.asarray(out)
    if out.ndim == 1:
        out = out.reshape(len(out), -1)
    if not np.all(np.isfinite(out)) or not np.all(out == np.round(out)):
        return {"err": "nonint", "raw": out.tolist()}
    return {"ok": [[int(v) for v in row] for row in out.reshape(out.shape[0], -1)]}

cases = json.load(open(sys.argv[1]))
res = []
for c in cases:
    try:
        res.append(run(c))
    except Exception as e:
        res.append({"err": type(e).__name__, "msg": str(e)[:300], "tb": traceback.format_exc()[-600:]})
    if len(res) % 50 == 0:
        json.dump(res, open(sys.argv[2], "w"))
json.dump(res, open(sys.argv[2], "w"))
