"""Implementation side of C03/C11: runs the four co-occurrence vectorizers (and, for C11, em_update_matrix directly)
on JSON cases against the repo on PYTHONPATH.  JSON in, JSON out."""
import json, sys, traceback, warnings
warnings.filterwarnings("ignore")
import numpy as np


def build_X(case, part=None):
    """part: None = the case's own corpus; otherwise a dict {"docs": ..., "shift": ...} of the same kind
    (the estimator's past, or the corpus of a later transform)."""
    kind = case["kind"]
    src = case if part is None else part
    docs = src["docs"]
    if kind in ("token", "ngram"):
        return [list(d) for d in docs]
    if kind == "timed":
        # the clock: timestamp = tick/8 * unit + shift (unit 1 when absent)
        sh, unit = float(src.get("shift", 0.0)), float(src.get("unit", 1.0))
        return [[(t, ticks / 8.0 * unit + sh) for t, ticks in d] for d in docs]
    if kind == "multi":
        return [[list(ms) for ms in d] for d in docs]
    raise ValueError(kind)


def live_past(m, case):
    """The estimator's past: the SAME object is first fitted on another corpus (and used for transform).  Whatever
    happens there (exceptions included) must be forgotten by the fit that is measured afterwards."""
    hist = case.get("history")
    if not hist:
        return None
    state = []
    try:
        Xh = build_X(case, hist)
        if hist.get("how") == "fit":
            m.fit(Xh)
        else:
            m.fit_transform(Xh)
        state.append("fit")
        if hist.get("transform") is not None:
            m.transform(build_X(case, {"docs": hist["transform"], "shift": hist.get("shift", 0.0),
                                       "unit": hist.get("unit", 1.0)}))
            state.append("transform")
    except Exception as e:
        state.append(type(e).__name__)
    return state


def matrix_out(M):
    return {"shape": [int(M.shape[0]), int(M.shape[1])], "triples": triples(M)}


def make(case):
    import vectorizers as V
    kw = dict(case["kw"])
    if kw.get("excluded_tokens") is not None:
        kw["excluded_tokens"] = set(kw["excluded_tokens"])
    cls = {"token": V.TokenCooccurrenceVectorizer, "ngram": V.NgramCooccurrenceVectorizer,
           "timed": V.TimedTokenCooccurrenceVectorizer, "multi": V.MultiSetCooccurrenceVectorizer}[case["kind"]]
    return cls(**kw)


def triples(M):
    M = M.tocoo()
    M.sum_duplicates()
    t = sorted((int(r), int(c), float(v)) for r, c, v in zip(M.row, M.col, M.data) if v != 0)
    return [list(x) for x in t]


class EventLog:
    """Interpreted mode only (NUMBA_DISABLE_JIT=1): records every coo_append call of the four drivers, in call order."""
    def __init__(self):
        import vectorizers.token_cooccurrence_vectorizer as a, vectorizers.ngram_token_cooccurence_vectorizer as b
        import vectorizers.timed_token_cooccurrence_vectorizer as c, vectorizers.multi_token_cooccurence_vectorizer as d
        self.mods, self.log = [a, b, c, d], []

    def __enter__(self):
        self.orig = [m.coo_append for m in self.mods]
        for m, o in zip(self.mods, self.orig):
            def rec(coo, tup, o=o):
                self.log.append([int(tup[0]), int(tup[1]), float(tup[2])])
                return o(coo, tup)
            m.coo_append = rec
        return self

    def __exit__(self, *a):
        for m, o in zip(self.mods, self.orig):
            m.coo_append = o


def run(case):
    if case["kind"] == "em_direct":
        return run_em_direct(case)
    m = make(case)
    past = live_past(m, case)
    X = build_X(case)
    how = case.get("how", "fit_transform")
    events = None
    import os
    if case.get("log_events") and os.environ.get("NUMBA_DISABLE_JIT") == "1":
        with EventLog() as ev:
            M = m.fit_transform(X)
        events = ev.log
    elif how == "fit_transform":
        M = m.fit_transform(X)
    else:
        M = m.fit(X).transform(X)
    out = {"shape": [int(M.shape[0]), int(M.shape[1])], "triples": triples(M),
           "vocab": {str(k): int(v) for k, v in m.token_label_dictionary_.items()},
           "cols": {str(k): int(v) for k, v in m.column_label_dictionary_.items()},
           "radii": [[int(x) for x in row] for row in np.asarray(m._window_len_array)],
           "reversals": [bool(x) for x in m._window_reversals],
           "mix": [float(x) for x in m._mix_weights],
           "mask_index": None if m._mask_index is None else int(m._mask_index)}
    if case["kind"] == "ngram":
        out["ngrams"] = {str(k): int(v) for k, v in m.ngram_label_dictionary_.items()}
        out["raw_ngrams"] = [[[int(x) for x in k], int(v)] for k, v in m._raw_ngram_dictionary_.items()]
    if case["kind"] == "timed":
        out["delta_mean"] = float(m.delta_mean_)
    if events is not None:
        out["events"] = events
    if past is not None:
        out["past"] = past
    then = case.get("then")
    if then:
        # later use of the fitted estimator: transform (after an optional unrelated transform call)
        try:
            if then.get("ignored") is not None:
                m.transform(build_X(case, {"docs": then["ignored"], "shift": then.get("shift", 0.0),
                                           "unit": then.get("unit", 1.0)}))
            T = m.transform(X if then["docs"] == "same" else build_X(case, then))
            out["then"] = matrix_out(T)
            out["then"]["vocab"] = {str(k): int(v) for k, v in m.token_label_dictionary_.items()}
            out["then"]["radii"] = [[int(x) for x in row] for row in np.asarray(m._window_len_array)]
        except Exception as e:
            out["then"] = {"err": type(e).__name__, "msg": str(e)[:300], "tb": traceback.format_exc()[-600:]}
    return {"ok": out}


def run_em_direct(case):
    from vectorizers.coo_utils import em_update_matrix
    import numba
    post = np.asarray(case["post"], dtype=np.float64)
    indices = np.asarray(case["indices"], dtype=np.int32)
    indptr = np.asarray(case["indptr"], dtype=np.int32)
    prior = np.asarray(case["prior"], dtype=np.float64)
    for occ in case["occs"]:
        windows = numba.typed.List([np.asarray(w, dtype=np.int64) for w in occ["windows"]])
        kernels = numba.typed.List([np.asarray(k, dtype=np.float64) for k in occ["kernels"]])
        post = em_update_matrix(post, indices, indptr, prior, int(case["n"]), int(occ["target"]), windows, kernels)
    return {"ok": [float(x) for x in post]}


def main():
    cases = json.load(open(sys.argv[1]))
    res = []
    for c in cases:
        try:
            res.append(run(c))
        except Exception as e:
            res.append({"err": type(e).__name__, "msg": str(e)[:300], "tb": traceback.format_exc()[-800:]})
        if len(res) % 25 == 0 or len(cases) <= 60:
            json.dump(res, open(sys.argv[2], "w"))
    json.dump(res, open(sys.argv[2], "w"))


if __name__ == "__main__":
    main()
