"""Implementation side of C02: fit_transform(X) vs fit(X).transform(X) and `fit(X) is est` for zoo cases."""
import json, sys, os, traceback, warnings, copy
warnings.filterwarnings("ignore")
sys.path.insert(0, os.path.dirname(os.path.abspath(__file__)))
import zoo

def run(name, seed):
    c = zoo.build(name, seed)
    out = c.describe()
    e1 = c.make()
    dc = copy.deepcopy
    try:
        A = e1.fit_transform(dc(c.X), **dc(c.fit_kw))
    except Exception as ea:
        # the claim for an input on which fit_transform raises: fit raises the same exception class
        try:
            c.make().fit(dc(c.X), **dc(c.fit_kw))
        except Exception as eb:
            if type(ea) is type(eb):
                out["both_raise"] = type(ea).__name__
                out["nnz"] = 0
                return out
        raise
    e2 = c.make()
    r = e2.fit(dc(c.X), **dc(c.fit_kw))
    out["fit_returns_self"] = r is e2
    if r is None:
        r = e2
    B = e2.transform(dc(c.X), **dc(c.tr_kw))
    ca, cb = zoo.canon(A), zoo.canon(B)
    out["diff"] = zoo.diff(ca, cb, c.exact, c.rtol)
    # "on the same data": the very same input object given to fit and then to transform (no copy in between) -
    # a fit that edits its input in place changes what transform sees
    try:
        Xs, kws = dc(c.X), dc(c.fit_kw)
        e4 = c.make()
        e4.fit(Xs, **kws)
        kwt = {k: (kws[k] if k in kws else v) for k, v in dc(c.tr_kw).items()}
        B4 = e4.transform(Xs, **kwt)
        out["same_object_diff"] = zoo.diff(ca, zoo.canon(B4), c.exact, c.rtol)
    except Exception as e:
        out["same_object_diff"] = "fit(X).transform(X) on one input object raised %s: %s" % (type(e).__name__, str(e)[:200])
    # the same claim for an estimator object with a past (fitted on other data and used before): a refit must not
    # remember anything of the earlier model
    e3 = c.make()
    try:
        # keyword objects (e.g. the `vectors` array) are deliberately the SAME objects in every call of this history
        e3.fit(dc(c.X2), **(c.tr2_kw if c.tr2_kw else c.fit_kw))
        e3.transform(dc(c.X2), **c.tr2_kw)
        e3.transform(dc(c.X), **c.tr_kw)
    except Exception:
        pass
    try:
        A3 = e3.fit_transform(dc(c.X), **c.fit_kw)
        B3 = e3.transform(dc(c.X), **c.tr_kw)
        d3 = zoo.diff(ca, zoo.canon(A3), c.exact, c.rtol) or zoo.diff(cb, zoo.canon(B3), c.exact, c.rtol)
        out["refit_diff"] = d3
    except Exception as e:
        out["refit_diff"] = "refitted estimator raised %s: %s" % (type(e).__name__, str(e)[:200])
    out["exact"] = c.exact
    out["shape"] = ca.get("shape") or [len(ca.get("items", []))]
    out["nnz"] = len(ca.get("triples", ca.get("data", ca.get("items", []))))
    if out["diff"]:
        out["fit_transform"] = json.dumps(ca)[:600]
        out["fit_then_transform"] = json.dumps(cb)[:600]
    return out

cases = json.load(open(sys.argv[1]))
res = []
for name, seed in cases:
    try:
        res.append(run(name, seed))
    except Exception as e:
        res.append({"estimator": name, "seed": seed, "err": type(e).__name__, "msg": str(e)[:300],
                    "tb": traceback.format_exc()[-1200:]})
    if len(res) % 10 == 0:
        json.dump(res, open(sys.argv[2], "w"))
json.dump(res, open(sys.argv[2], "w"))
