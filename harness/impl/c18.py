"""Implementation side of C18: runs vectorizers.distances on JSON cases (floats travel as float.hex strings)."""
import json, sys, traceback, warnings
import numpy as np
warnings.filterwarnings("ignore")
import vectorizers.distances as D


def fl(h):
    return float.fromhex(h)


def hx(v):
    v = float(v)
    if v != v:
        return "nan"
    if v in (float("inf"), float("-inf")):
        return "inf" if v > 0 else "-inf"
    return v.hex()


def call(f, *a):
    try:
        return hx(f(*a))
    except Exception as e:  # noqa
        return {"err": type(e).__name__, "msg": str(e)[:200]}


DENSE = [("hellinger", D.hellinger), ("total_variation", D.total_variation),
         ("kantorovich1", lambda x, y: D.kantorovich1d(x, y, 1)), ("kantorovich2", lambda x, y: D.kantorovich1d(x, y, 2)),
         ("jensen_shannon", D.jensen_shannon_divergence), ("symmetric_kl", D.symmetric_kl_divergence)]
SPARSE = [("hellinger", D.sparse_hellinger), ("total_variation", D.sparse_total_variation),
          ("jensen_shannon", D.sparse_jensen_shannon_divergence), ("symmetric_kl", D.sparse_symmetric_kl_divergence)]


def encode(v, enc):
    """enc = [index dtype, data dtype, explicit-zero positions]"""
    it, dt, ez = enc
    idx = [i for i, a in enumerate(v) if a != 0 or i in ez]
    return (np.asarray(idx, dtype=it), np.asarray([v[i] for i in idx], dtype=dt))


def run_vectors(case):
    vecs = [[fl(h) for h in v] for v in case["vecs"]]
    arrs = [np.asarray(v, dtype=np.float64) for v in vecs]
    out = {"dense": {}, "sparse": [], "mutated": []}
    n = len(arrs)
    pairs = [(i, j) for i in range(n) for j in range(n) if i != j]
    for name, f in DENSE:
        for (i, j) in pairs:
            a, b = arrs[i].copy(), arrs[j].copy()
            out["dense"]["%s:%d%d" % (name, i, j)] = call(f, a, b)
            if not (np.array_equal(a, arrs[i]) and np.array_equal(b, arrs[j])):
                out["mutated"].append(name)
    for enc in case.get("encodings", []):
        res = {}
        encs = [encode(v, enc) for v in vecs]
        pristine = [(i_.copy(), d_.copy()) for (i_, d_) in encs]
        # the SAME encoded arrays are handed to every call of the case, as a user holding sparse vectors would do:
        # a call that edits them corrupts the later ones (and is recorded)
        for name, f in SPARSE:
            for (i, j) in pairs:
                (i1, d1), (i2, d2) = encs[i], encs[j]
                res["%s:%d%d" % (name, i, j)] = call(f, i1, d1, i2, d2)
                for k in (i, j):
                    if not (np.array_equal(encs[k][0], pristine[k][0]) and np.array_equal(encs[k][1], pristine[k][1])):
                        out["mutated"].append("sparse_" + name)
                        encs[k] = (pristine[k][0].copy(), pristine[k][1].copy())
        out["sparse"].append(res)
    return out


def run_helpers(case):
    it = case["itype"]
    i1 = np.asarray(case["ind1"], dtype=it); d1 = np.asarray(case["data1"], dtype=np.float32)
    i2 = np.asarray(case["ind2"], dtype=it); d2 = np.asarray(case["data2"], dtype=np.float32)
    out = {"mutated": []}
    shared = [i1.copy(), d1.copy(), i2.copy(), d2.copy()]      # one set of arrays for all helper calls of the case
    for name, f in [("sum", D.sparse_sum), ("diff", D.sparse_diff), ("mul", D.sparse_mul), ("union", D.dense_union),
                    ("sum_again", D.sparse_sum), ("diff_swapped", None)]:
        a = tuple(shared)
        if f is None:
            f = D.sparse_diff
            a = (shared[2], shared[3], shared[0], shared[1])
        try:
            r0, r1 = f(*a)
            r0, r1 = np.asarray(r0), np.asarray(r1)
            vals = np.concatenate((r0.astype(np.float64), r1.astype(np.float64)))
            if not np.all(np.isfinite(vals)) or not np.all(vals == np.round(vals)):
                out[name] = {"err": "nonint", "raw": [r0.tolist(), r1.tolist()]}
            else:
                out[name] = [[int(v) for v in r0], [int(v) for v in r1]]
        except Exception as e:  # noqa
            out[name] = {"err": type(e).__name__, "msg": str(e)[:200]}
        if not all(np.array_equal(p, q) for p, q in zip(shared, (i1, d1, i2, d2))):
            out["mutated"].append(name)
            shared = [i1.copy(), d1.copy(), i2.copy(), d2.copy()]
    return out


def run(case):
    if case["kind"] == "helpers":
        return run_helpers(case)
    return run_vectors(case)


payload = json.load(open(sys.argv[1]))
res = {"EPS": float(D.EPS).hex(), "results": []}
for c in payload["cases"]:
    try:
        res["results"].append(run(c))
    except Exception as e:  # noqa
        res["results"].append({"err": type(e).__name__, "msg": str(e)[:300], "tb": traceback.format_exc()[-600:]})
    if len(res["results"]) % 100 == 0:
        json.dump(res, open(sys.argv[2], "w"))
json.dump(res, open(sys.argv[2], "w"))
