"""Implementation side of C06 (and of the Ngram / Skipgram / EdgeList part of C01): runs NgramVectorizer,
SkipgramVectorizer, EdgeListVectorizer and NgramVectorizer.__add__ on JSON cases.  Tokens / labels are small
non-negative integers in the JSON; they are turned into order-preserving strings ("t007") or kept as ints."""
import json, sys, traceback, warnings
warnings.filterwarnings("ignore")
import numpy as np
import scipy.sparse
from vectorizers import NgramVectorizer, SkipgramVectorizer, EdgeListVectorizer


def lab(case):
    if case.get("int_labels"):
        return (lambda z: int(z)), (lambda l: int(l))
    return (lambda z: "t%03d" % z), (lambda l: int(l[1:]))


def mat(m, exact=True):
    m = scipy.sparse.coo_matrix(m)
    m.sum_duplicates()
    tr = sorted((int(r), int(c), float(v)) for r, c, v in zip(m.row, m.col, m.data) if v != 0)
    if exact:
        if any(v != round(v) for _, _, v in tr):
            return {"err": "nonint", "raw": tr[:20]}
        tr = [(r, c, int(v)) for r, c, v in tr]
    return {"shape": [int(m.shape[0]), int(m.shape[1])], "triples": tr}


def attempt(f):
    try:
        return f()
    except Exception as e:
        return {"err": type(e).__name__, "msg": str(e)[:200], "tb": traceback.format_exc()[-500:]}


def docs_of(case, key, enc):
    return [[enc(t) for t in d] for d in case[key]]


def gram_key(k, dec):
    return [dec(x) for x in k] if isinstance(k, tuple) else dec(k)


def run_ngram(case):
    enc, dec = lab(case)
    kw = {"ngram_size": case["n"], "ngram_behaviour": case["beh"]}
    if case.get("td") is not None:
        kw["token_dictionary"] = {enc(l): i for l, i in case["td"]}
    if case.get("nd") is not None:
        kw["ngram_dictionary"] = {(tuple(enc(x) for x in g) if isinstance(g, list) else enc(g)): i for g, i in case["nd"]}
    kw.update(case.get("prune") or {})
    m = NgramVectorizer(**kw)
    out = {}
    X = docs_of(case, "docs", enc)
    prior_fit(case, m, out, lambda key: docs_of(case, key, enc))
    r = attempt(lambda: mat(m.fit_transform(X)))
    out["train"] = r
    if "err" in r:
        return out
    prior_transforms(case, m, lambda D: [[enc(t) for t in d] for d in D])
    out["tokdict"] = sorted(([dec(l), int(i)] for l, i in m._token_dictionary_.items()), key=lambda p: p[1])
    # bare keys are reported as ints, tuple keys as lists
    out["cold"] = [[gram_key(k, dec), int(i)] for k, i in m.column_label_dictionary_.items()]
    X2 = docs_of(case, "X2", enc)
    out["transform"] = attempt(lambda: mat(m.transform(X2)))
    X2s = [[t for t in d if t in m._token_dictionary_] for d in X2]
    out["transform_stripped"] = attempt(lambda: mat(m.transform(X2s)))
    out["fit_then_transform"] = attempt(lambda: mat(m.transform(X)))
    out["transform_again"] = attempt(lambda: mat(m.transform(X2)))
    return out


def prior_fit(case, m, out, data):
    """the estimator object has a past: an earlier fit on other data (its outcome, even an exception, is irrelevant)"""
    if case.get("prefit") is not None:
        r = attempt(lambda: m.fit(data("prefit")) and None)
        out["prefit_err"] = r["err"] if isinstance(r, dict) else None
        attempt(lambda: m.transform(data("X2")) is None)     # ... and was used for a transform in that earlier life


def prior_transforms(case, m, conv):
    """the fitted model has been used before: earlier transform calls on other inputs"""
    for D in case.get("pretransform") or []:
        attempt(lambda: m.transform(conv(D)) is None)


def snap_state(m, dec):
    """every attribute of a unigram model that '+' or transform read: both column dictionaries, the token
    dictionaries, the stored training matrix"""
    def ld(d):
        return sorted(([dec(l), int(i)] for l, i in d.items()), key=lambda p: (p[1], p[0]))

    def idd(d):
        return sorted([int(i), dec(l)] for i, l in d.items())
    return {"label_dict": ld(m.column_label_dictionary_), "index_dict": idd(m.column_index_dictionary_),
            "tok_dict": ld(m._token_dictionary_), "inv_dict": idd(m._inverse_token_dictionary_),
            "train": attempt(lambda: mat(m._train_matrix))}


def run_hist(case):
    """A session on SHARED objects: the pool models are fitted once; ["merge", i, j] appends store[i] + store[j];
    ["transform", i] calls store[i].transform(X2).  The state of every model is recorded when it is created, the state
    of both operands after every merge, and the state + transform of every entry at the end."""
    enc, dec = lab(case)
    X2 = docs_of(case, "X2", enc)
    store = [NgramVectorizer().fit([[enc(t) for t in d] for d in X]) for X in case["pool"]]
    out = {"created": [snap_state(m, dec) for m in store], "steps": []}
    for op in case["ops"]:
        if op[0] == "transform":
            m = store[op[1]]
            out["steps"].append({"out": attempt(lambda: mat(m.transform(X2))) if m is not None else None})
            continue
        a, b = store[op[1]], store[op[2]]
        if a is None or b is None:                     # an operand whose own merge raised
            store.append(None)
            out["created"].append(None)
            out["steps"].append({"skipped": True})
            continue
        try:
            c = a + b
        except Exception as e:
            store.append(None)
            out["created"].append(None)
            out["steps"].append({"err": type(e).__name__, "msg": str(e)[:200],
                                 "operands": [snap_state(a, dec), snap_state(b, dec)]})
            continue
        store.append(c)
        out["created"].append(snap_state(c, dec))
        out["steps"].append({"operands": [snap_state(a, dec), snap_state(b, dec)]})
    out["final"] = []
    for m in store:
        if m is None:
            out["final"].append(None)
            continue
        f = snap_state(m, dec)
        f["transform"] = attempt(lambda: mat(m.transform(X2)))
        out["final"].append(f)
    return {"hist": out}


def run_add(case):
    enc, dec = lab(case)
    models = [NgramVectorizer().fit(docs_of(case, k, enc)) for k in ("Xa", "Xb")]
    out = {}

    def merged():
        return models[0] + models[1]
    try:
        c = merged()
    except Exception as e:
        return {"add": {"err": type(e).__name__, "msg": str(e)[:200]}}
    if case.get("Xc") is not None:
        third = NgramVectorizer().fit(docs_of(case, "Xc", enc))
        try:
            c = c + third
        except Exception as e:
            return {"add": {"err": type(e).__name__, "msg": str(e)[:200]}}
    out["left_labels"] = [dec(l) for l, i in sorted(models[0].column_label_dictionary_.items(), key=lambda p: p[1])]
    out["labels"] = [dec(c.column_index_dictionary_[i]) for i in range(len(c.column_index_dictionary_))] \
        if sorted(c.column_index_dictionary_) == list(range(len(c.column_index_dictionary_))) else None
    out["label_dict"] = sorted(([dec(l), int(i)] for l, i in c.column_label_dictionary_.items()), key=lambda p: p[1])
    out["train"] = attempt(lambda: mat(c._train_matrix))
    X2 = docs_of(case, "X2", enc)
    out["transform"] = attempt(lambda: mat(c.transform(X2)))
    X2s = [[t for t in d if t in c._token_dictionary_] for d in X2]
    out["transform_stripped"] = attempt(lambda: mat(c.transform(X2s)))
    return out


def run_skip(case):
    enc, dec = lab(case)
    kw = {"window_radius": case["radius"], "window_function": case["wf"], "kernel_function": case["kernel"]}
    if case.get("td") is not None:
        kw["token_dictionary"] = {enc(l): i for l, i in case["td"]}
    kw.update(case.get("prune") or {})
    m = SkipgramVectorizer(**kw)
    X = docs_of(case, "docs", enc)
    out = {}
    exact = case["kernel"] == "flat"
    prior_fit(case, m, out, lambda key: docs_of(case, key, enc))
    r = attempt(lambda: mat(m.fit_transform(X), exact))
    out["train"] = r
    if "err" in r:
        return out
    out["tokdict"] = sorted(([dec(l), int(i)] for l, i in m._token_dictionary_.items()), key=lambda p: p[1])
    out["radii"] = [int(x) for x in m._window_sizes]
    out["mask"] = [bool(x) for x in m._column_is_kept]
    prior_transforms(case, m, lambda D: [[enc(t) for t in d] for d in D])
    # fitted column labels as pairs of token *labels*, in column order
    cid = m.column_index_dictionary_
    out["labels"] = [[dec(cid[i][0]), dec(cid[i][1])] for i in range(len(cid))] \
        if sorted(cid) == list(range(len(cid))) else None
    X2 = docs_of(case, "X2", enc)
    out["transform"] = attempt(lambda: mat(m.transform(X2), exact))
    X2s = [[t for t in d if t in m._token_dictionary_] for d in X2]
    out["transform_stripped"] = attempt(lambda: mat(m.transform(X2s), exact))
    out["fit_then_transform"] = attempt(lambda: mat(m.transform(X), exact))
    out["transform_again"] = attempt(lambda: mat(m.transform(X2), exact))
    return out


def run_edge(case):
    enc, dec = lab(case)
    kw = {"joint_space": bool(case["joint"])}
    if case.get("rd") is not None:
        kw["row_label_dictionary"] = {enc(l): i for l, i in case["rd"]}
    if case.get("cd") is not None:
        kw["column_label_dictionary"] = {enc(l): i for l, i in case["cd"]}
    m = EdgeListVectorizer(**kw)

    def conv(L):
        E = [(enc(r), enc(c), v) for r, c, v in L]
        if case.get("as_columns") and len(E) != 3:      # the documented 3 x N layout
            return [[e[0] for e in E], [e[1] for e in E], [e[2] for e in E]]
        return E

    def edges(key):
        return conv(case[key])
    out = {}
    prior_fit(case, m, out, edges)
    r = attempt(lambda: mat(m.fit_transform(edges("edges"))))
    out["train"] = r
    if "err" in r:
        return out
    prior_transforms(case, m, conv)
    out["rowdict"] = [[dec(l), int(i)] for l, i in m.row_label_dictionary_.items()]
    out["coldict"] = [[dec(l), int(i)] for l, i in m.column_label_dictionary_.items()]
    out["transform"] = attempt(lambda: mat(m.transform(edges("X2"))))
    keep = [(r_, c_, v) for r_, c_, v in edges_rows(case, enc)
            if r_ in m.row_label_dictionary_ and c_ in m.column_label_dictionary_]
    out["transform_stripped"] = attempt(lambda: mat(m.transform(keep))) if keep else None
    out["fit_then_transform"] = attempt(lambda: mat(m.transform(edges("edges"))))
    out["transform_again"] = attempt(lambda: mat(m.transform(edges("X2"))))
    return out


def edges_rows(case, enc):
    return [(enc(r), enc(c), v) for r, c, v in case["X2"]]


RUN = {"ngram": run_ngram, "add": run_add, "skip": run_skip, "edge": run_edge, "hist": run_hist}

cases = json.load(open(sys.argv[1]))
res = []
for c in cases:
    try:
        res.append(RUN[c["kind"]](c))
    except Exception as e:
        res.append({"err": type(e).__name__, "msg": str(e)[:300], "tb": traceback.format_exc()[-800:]})
    if len(res) % 50 == 0:
        json.dump(res, open(sys.argv[2], "w"))
json.dump(res, open(sys.argv[2], "w"))
