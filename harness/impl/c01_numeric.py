"""Implementation side of the C01 stream for the numeric estimators: Wasserstein (LOT_exact for spmatrix / lil / generator
input, LOT_sinkhorn, HeuristicLinearAlgebra), Sinkhorn, ApproximateWasserstein, KDE, Distribution.  One fit per
estimator, then transform of X' prefixes of several lengths under a sweep of block sizes (memory_size) and chunk sizes:
shape, exceptions and the rows compared with the un-blocked call.  JSON in, JSON out."""
import json, sys, traceback, warnings
warnings.filterwarnings("ignore")
import numpy as np
import scipy.sparse as sp
import vectorizers as V


def data(seed):
    rs = np.random.RandomState(seed)
    n, m, d, n2 = 12, 7, 3, 11
    M = rs.rand(n, m) * (rs.rand(n, m) > 0.3)
    M[M.sum(axis=1) == 0, 0] = 1.0
    M2 = rs.rand(n2, m) * (rs.rand(n2, m) > 0.3)
    M2[M2.sum(axis=1) == 0, -1] = 1.0
    vecs = rs.normal(size=(m, d))
    return rs, M, M2, vecs


def lil(Mx, vecs):
    S = sp.csr_matrix(Mx)
    return ([np.ascontiguousarray(S[i].data, dtype=np.float64) for i in range(S.shape[0])],
            [np.ascontiguousarray(vecs[S[i].indices], dtype=np.float64) for i in range(S.shape[0])])


class Est:
    def __init__(self, c):
        self.c = c
        self.name = c["est"]
        rs, M, M2, vecs = data(c["seed"])
        self.M2, self.vecs = M2, vecs
        k = c["n_components"]
        kind = self.name
        common = dict(n_components=k, reference_size=3, random_state=c["seed"] % 97, metric=c.get("metric", "euclidean"))
        if kind == "W_exact_spmatrix":
            self.m = V.WassersteinVectorizer(method="LOT_exact", input_method="spmatrix", **common).fit(sp.csr_matrix(M), vectors=vecs)
        elif kind == "W_sinkhorn_spmatrix":
            self.m = V.WassersteinVectorizer(method="LOT_sinkhorn", input_method="spmatrix", **common).fit(sp.csr_matrix(M), vectors=vecs)
        elif kind == "W_heuristic":
            self.m = V.WassersteinVectorizer(method="HeuristicLinearAlgebra", input_method="spmatrix", n_components=min(k, 3),
                                             random_state=c["seed"] % 97).fit(sp.csr_matrix(M), vectors=vecs)
        elif kind == "W_exact_lil":
            X, vs = lil(M, vecs)
            self.m = V.WassersteinVectorizer(method="LOT_exact", input_method="lil", **common).fit(X, vectors=vs)
        elif kind == "W_exact_generator":
            X, vs = lil(M, vecs)
            ref = rs.normal(size=(3, vecs.shape[1]))
            self.m = V.WassersteinVectorizer(method="LOT_exact", input_method="generator", generator_vector_dim=vecs.shape[1],
                                             generator_n_distributions=len(X), **common)
            self.m.fit((x for x in X), vectors=(v for v in vs), reference_vectors=ref)
        elif kind == "Sinkhorn":
            self.m = V.SinkhornVectorizer(**common).fit(sp.csr_matrix(M), vectors=vecs)
        elif kind == "Approx":
            self.m = V.ApproximateWassersteinVectorizer(n_components=min(k, 3), random_state=c["seed"] % 97).fit(sp.csr_matrix(M), vectors=vecs)
        else:
            raise ValueError(kind)
        self.width = int(self.m.components_.shape[0])
        self.lot_dim = int(self.m.reference_vectors_.size) if hasattr(self.m, "reference_vectors_") else None

    def transform(self, n2, block, chunk):
        m, kind = self.m, self.name
        if self.lot_dim is not None:
            m.memory_size = "2G" if block is None else "%d" % (int(block) * self.lot_dim * 8)
        if kind == "Sinkhorn":
            m.chunk_size = 32 if chunk is None else int(chunk)
        elif kind == "W_sinkhorn_spmatrix":
            m.sinkhorn_chunk_size = 32 if chunk is None else int(chunk)
        M2 = self.M2[:n2]
        if kind in ("W_exact_lil", "W_exact_generator"):
            X, vs = lil(M2, self.vecs)
            if kind == "W_exact_lil":
                return m.transform(X, vectors=vs)
            m.generator_n_distributions = len(X)
            return m.transform((x for x in X), vectors=(v for v in vs))
        if kind == "Approx":
            return m.transform(sp.csr_matrix(M2))
        return m.transform(sp.csr_matrix(M2), vectors=self.vecs)


def run(c):
    e = Est(c)
    out = {"width": e.width, "n_components_param": c["n_components"], "calls": []}
    refs = {}
    for n2, block, chunk in c["sweep"]:
        rec = {"n2": n2, "block": block, "chunk": chunk}
        try:
            if n2 not in refs:
                refs[n2] = np.asarray(e.transform(n2, None, None), dtype=np.float64)
            r = np.asarray(e.transform(n2, block, chunk), dtype=np.float64)
            rec["shape"] = [int(s) for s in r.shape]
            rec["ref_shape"] = [int(s) for s in refs[n2].shape]
            rec["finite"] = bool(np.isfinite(r).all() and np.isfinite(refs[n2]).all())
            if r.shape == refs[n2].shape and r.size:
                rec["max_abs_diff"] = float(np.nanmax(np.abs(r - refs[n2])))
                rec["scale"] = float(np.nanmax(np.abs(refs[n2])))
                # is each row closest to ITS OWN reference row (input order)?
                if r.shape[0] > 1:
                    dist = np.abs(r[:, None, :] - refs[n2][None, :, :]).sum(axis=2)
                    rec["own_row_closest"] = bool(np.all(dist.argmin(axis=1) == np.arange(r.shape[0])))
        except Exception as ex:
            rec["err"] = type(ex).__name__
            rec["msg"] = str(ex)[:300]
            rec["tb"] = traceback.format_exc()[-600:]
        out["calls"].append(rec)
    return {"ok": out}


cases = json.load(open(sys.argv[1]))
res = []
for c in cases:
    try:
        res.append(run(c))
    except Exception as ex:
        res.append({"err": type(ex).__name__, "msg": str(ex)[:300], "tb": traceback.format_exc()[-800:]})
    json.dump(res, open(sys.argv[2], "w"))
