"""Deterministic corpus / event generators shared by harness/c04.py (parent: exact counts) and harness/impl/c04.py
(child: runs the library).  Pure Python, no library imports: the same spec dict gives the same data on both sides."""
import random


def gen_tokens(spec):
    """List of documents (lists of int tokens) from a spec dict, or the literal spec['docs']."""
    if "docs" in spec:
        return [list(d) for d in spec["docs"]]
    rng = random.Random(spec["seed"])
    V = spec["vocab"]
    lo, hi = spec["len"]
    zipf = spec.get("zipf", False)
    if zipf:
        weights = [1.0 / (i + 1) for i in range(V)]
        tot = sum(weights)
        cum, acc = [], 0.0
        for w in weights:
            acc += w / tot
            cum.append(acc)
        import bisect

        def draw():
            return min(V - 1, bisect.bisect_left(cum, rng.random()))
    else:
        def draw():
            return rng.randrange(V)
    docs = []
    for _ in range(spec["n_docs"]):
        L = rng.randint(lo, hi)
        docs.append([draw() for _ in range(L)])
    return docs


def gen_multi(spec):
    """Multiset corpora: a list of documents, each a list of non-empty multisets (lists of int tokens)."""
    if "docs" in spec:
        return [[list(m) for m in d] for d in spec["docs"]]
    rng = random.Random(spec["seed"])
    V = spec["vocab"]
    lo, hi = spec["len"]
    mlo, mhi = spec.get("msize", [1, 3])
    docs = []
    for _ in range(spec["n_docs"]):
        L = max(1, rng.randint(lo, hi))
        docs.append([[rng.randrange(V) for _ in range(rng.randint(mlo, mhi))] for _ in range(L)])
    return docs


def corpus_for(kind, spec):
    """The object handed to the vectorizer of the given kind."""
    if kind == "multi":
        return gen_multi(spec)
    docs = gen_tokens(spec)
    if kind == "timed":
        # strictly increasing small integer time stamps (exact in float32); the flat kernel ignores them
        return [[(t, float(3 * i + 1)) for i, t in enumerate(d)] for d in docs]
    return docs


def gen_events(spec):
    """Events (row, col, val, key) for the direct accumulator runs at the real threshold."""
    rng = random.Random(spec["seed"])
    nr, nc = spec["nr"], spec["nc"]
    mul = nc + 1
    evs = []
    for _ in range(spec["n"]):
        r = rng.randrange(nr)
        c = rng.randrange(nc)
        evs.append((r, c, rng.randint(1, 3), c + mul * r))
    return evs
