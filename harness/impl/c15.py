"""Implementation side of C15: LabelledTreeCooccurrenceVectorizer (and TokenCooccurrenceVectorizer on the path
stream) on JSON cases.  Labels are small integers in the JSON; here they become strings whose sort order is the
numeric order ("t03"), the mask string sorts after all of them."""
import json, sys, traceback, warnings
warnings.filterwarnings("ignore")
import numpy as np
import scipy.sparse as sp
from vectorizers import LabelledTreeCooccurrenceVectorizer, TokenCooccurrenceVectorizer

MASK = "zMASK"


def lab(i):
    # labels of different widths (numpy picks the array dtype per tree: U3 .. U6), same lexicographic order as the ids
    return "t%02d" % i + "x" * (i % 4)


def adjacency(succ, fmt):
    n = len(succ)
    A = np.zeros((n, n), dtype=np.int64)
    for u, row in enumerate(succ):
        for v in row:
            A[u, v] = 1
    return getattr(sp, fmt + "_matrix")(A)


def to_X(trees, fmt):
    return [(adjacency(t["succ"], fmt), np.array([lab(l) for l in t["labels"]])) for t in trees]


def kernel_args(case):
    ka = {}
    k = case["kargs"]
    if k.get("normalize"):
        ka["normalize"] = True
    if k.get("offset"):
        ka["offset"] = int(k["offset"])
    if case["kernel"] == "geometric" and k.get("power") is not None:
        ka["power"] = k["power"][0] / k["power"][1]
    return ka


def prune_params(case, tree):
    p = case["prune"]
    kw = {}
    if p.get("dict") is not None:
        kw["token_dictionary"] = {lab(l): i for l, i in p["dict"]}
    if p.get("ignored"):
        kw["ignored_tokens" if tree else "excluded_tokens"] = set(lab(l) for l in p["ignored"])
    if p.get("min_occ") is not None:
        kw["min_occurrences"] = p["min_occ"]
    if p.get("max_occ") is not None:
        kw["max_occurrences"] = p["max_occ"]
    if p.get("min_tree_occ") is not None:
        kw["min_tree_occurrences" if tree else "min_document_occurrences"] = p["min_tree_occ"]
    return kw


def dict_out(d):
    out = []
    for k, v in d.items():
        out.append([-1 if k == MASK else int(k[1:3]), int(v)])
    return sorted(out)


def dense(m):
    a = np.asarray(m.todense(), dtype=np.float64)
    return [[float(x) for x in row] for row in a]


def run(case):
    res = {}
    tm = LabelledTreeCooccurrenceVectorizer(
        window_radius=case["R"], kernel_function=case["kernel"], kernel_args=kernel_args(case),
        window_orientation=case["orient"], mask_string=MASK if case["mask"] else None,
        nullify_mask=bool(case["nullify"]), **prune_params(case, True))
    X = to_X(case["trees"], case["fmt"])
    if case.get("prehistory"):
        # an earlier call on the SAME forest objects with one label pruned (its nodes are contracted): if that call
        # edits the caller's adjacency matrices the measured fit below sees different trees than the model does
        try:
            first = sorted({l for t in case["trees"] for l in t["labels"]})[0]
            LabelledTreeCooccurrenceVectorizer(window_radius=1, ignored_tokens={lab(first)}).fit(X)
        except Exception:  # noqa
            pass
    ft = tm.fit_transform(X)
    res["fit"] = dense(ft)
    res["dict"] = dict_out(tm.token_label_dictionary_)
    if case.get("trees2") is not None:
        res["transform"] = dense(tm.transform(to_X(case["trees2"], case["fmt"])))
        res["dict_after"] = dict_out(tm.token_label_dictionary_)
    if case["kind"] == "path" and case["orient"] != "symmetric":   # the token vectorizer has no 'symmetric'
        ka = kernel_args(case)
        sm = TokenCooccurrenceVectorizer(
            window_radii=case["R"], window_orientations=case["orient"], kernel_functions=case["kernel"],
            kernel_args=ka if ka else None, normalize_windows=False,
            mask_string=MASK if case["mask"] else None, nullify_mask=bool(case["nullify"]),
            **prune_params(case, False))
        docs = [[lab(l) for l in t["labels"]] for t in case["trees"]]
        res["token_fit"] = dense(sm.fit_transform(docs))
        res["token_dict"] = dict_out(sm.token_label_dictionary_)
    return res


cases = json.load(open(sys.argv[1]))
out = []
for c in cases:
    try:
        out.append({"ok": run(c)})
    except Exception as e:
        out.append({"err": type(e).__name__, "msg": str(e)[:300], "tb": traceback.format_exc()[-800:]})
    if len(out) % 100 == 0:
        json.dump(out, open(sys.argv[2], "w"))
json.dump(out, open(sys.argv[2], "w"))
