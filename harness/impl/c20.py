"""Implementation side of C20: HistogramVectorizer (fitted bins as exact rationals, rows for several input types,
the float data of find_bin_boundaries) and KDEVectorizer (rows, rows of permuted samples) on JSON cases."""
import json, sys, traceback, warnings
warnings.filterwarnings("ignore")
import numpy as np
import pandas as pd
from vectorizers import HistogramVectorizer, KDEVectorizer
from vectorizers._vectorizers import find_bin_boundaries


def expand_seq(s):
    """A sequence is a list of numbers, or {"gen": [n, p, q, lo, scale, m, drift]} for a long one:
    x_i = lo + ((i * p) % q) * scale + (i // m) * drift  (every term is a dyadic number: exact in binary64)."""
    if isinstance(s, dict):
        n, p_, q, lo, scale, m, drift = s["gen"]
        return [lo + ((i * p_) % q) * scale + (i // m) * drift for i in range(n)]
    return s


def expand_perm(p, n):
    if isinstance(p, dict):
        return [int(i) for i in np.random.RandomState(p["seed"]).permutation(n)]
    return p


def rat(x):
    x = float(x)
    if x == float("inf"):
        return "inf"
    if x == float("-inf"):
        return "-inf"
    n, d = x.as_integer_ratio()
    return [str(n), str(d)]


def num(v):
    if v is None:
        return None
    if v == "inf":
        return np.inf
    if v == "-inf":
        return -np.inf
    return float(v)


def as_type(seq, t):
    if t == "list":
        return [float(x) for x in seq]
    if t == "intlist":
        return [int(x) if float(x) == int(x) else float(x) for x in seq]
    if t == "tuple":
        return tuple(float(x) for x in seq)
    if t == "ndarray":
        return np.asarray(seq, dtype=np.float64)
    if t == "series":
        return pd.Series(np.asarray(seq, dtype=np.float64))
    if t == "series_idx":
        return pd.Series(np.asarray(seq, dtype=np.float64), index=[10 + 3 * i for i in range(len(seq))][::-1])
    raise ValueError(t)


def run_hist(c):
    a0, a1 = num(c["a0"]), num(c["a1"])
    train = [list(map(float, s)) for s in c["train"]]
    if c.get("train_type") == "ndarray":
        train = [np.asarray(s, dtype=np.float64) for s in train]
    m = HistogramVectorizer(n_components=c["n"], strategy=c["strategy"], absolute_range=(a0, a1),
                            append_outlier_bins=c["outlier"])
    ret = m.fit(train)
    out = {"fit_returns_self": ret is m, "closed": str(m.bin_intervals_.closed),
           "bins": [[rat(iv.left), rat(iv.right)] for iv in m.bin_intervals_]}
    # what fit saw
    flat = [x for s in c["train"] for x in map(float, s)]
    flat = [x for x in flat if x > a0 and x < a1]
    out["fmin"], out["fmax"] = rat(min(flat)), rat(max(flat))
    if c["strategy"] == "quantile":
        fl = sorted(flat)
        cs = np.cumsum(fl)
        bin_range = cs[-1] / c["n"]
        out["sorted"] = [rat(x) for x in fl]
        out["csum"] = [rat(x) for x in cs]
        out["thr"] = [rat(bin_range * k) for k in range(len(fl) + 1)]
        out["breaks"] = [rat(x) for x in find_bin_boundaries(list(flat), c["n"])]
    rows = {}
    for t in c["types"]:
        X = [as_type(s, t) for s in c["test"]]
        r = m.transform(X)
        rows[t] = [[float(v) for v in row] for row in np.asarray(r)]
    out["rows"] = rows
    # all sequences in one call vs one call per sequence
    X = [as_type(s, c["types"][0]) for s in c["test"]]
    out["rows_single"] = [[float(v) for v in np.asarray(m.transform([x]))[0]] for x in X]
    return {"ok": out}


def as_kde_type(seq, t):
    if t == "ndarray":
        return np.asarray(seq, dtype=np.float64)
    if t == "list":
        return [float(x) for x in seq]
    if t == "tuple":
        return tuple(float(x) for x in seq)
    if t == "f32":                       # only used when every value is exactly representable in float32
        return np.asarray(seq, dtype=np.float32)
    if t == "int":                       # only used when every value is an integer
        return np.asarray(seq, dtype=np.int64)
    raise ValueError(t)


def fl(rows):
    return [[float(v) for v in r] for r in np.asarray(rows)]


def run_kde(c):
    import vectorizers.kde_vectorizer as kv
    train = [as_kde_type(s, c.get("train_type", "ndarray")) for s in c["train"]]
    m = KDEVectorizer(bandwidth=c["bandwidth"], n_components=c["n"], evaluation_grid_strategy=c["grid"],
                      kernel=c.get("kernel", "gaussian"))
    seen = {}
    orig = kv.jackknife_bandwidths

    def spy(data, bandwidths, *a, **k):          # observe the candidates fit() hands to the jack-knife search
        seen["cands"] = [float(b) for b in bandwidths]
        res = orig(data, bandwidths, *a, **k)
        seen["lik"] = [float(v) for v in res]
        return res
    kv.jackknife_bandwidths = spy
    try:
        ret = m.fit(train)
    finally:
        kv.jackknife_bandwidths = orig
    out = {"fit_returns_self": ret is m, "bandwidth": float(m.bandwidth_), "grid": [float(g) for g in m.evaluation_grid_],
           "cands": seen.get("cands"), "lik": seen.get("lik")}
    rows = {}
    for t in c.get("types", ["ndarray"]):
        rows[t] = fl(m.transform([as_kde_type(s, t) for s in c["test"]]))
    out["rows_by_type"] = rows
    test = [np.asarray(s, dtype=np.float64) for s in c["test"]]
    out["rows"] = fl(m.transform(test))
    out["perm_rows"] = fl(m.transform([t[np.asarray(p, dtype=np.int64)] for t, p in zip(test, c["perms"])]))
    out["rev_rows"] = fl(m.transform([t[::-1].copy() for t in test]))
    out["dup_rows"] = fl(m.transform([np.concatenate([t, t]) for t in test]))
    out["rows_single"] = [fl(m.transform([t]))[0] for t in test]
    return {"ok": out}


cases = json.load(open(sys.argv[1]))
res = []
for c in cases:
    c["test"] = [expand_seq(s) for s in c["test"]]
    if "perms" in c:
        c["perms"] = [expand_perm(p, len(s)) for p, s in zip(c["perms"], c["test"])]
    try:
        res.append(run_hist(c) if c["kind"] == "hist" else run_kde(c))
    except Exception as e:
        res.append({"err": type(e).__name__, "msg": str(e)[:300], "tb": traceback.format_exc()[-800:]})
    if len(res) % 50 == 0:
        json.dump(res, open(sys.argv[2], "w"))
json.dump(res, open(sys.argv[2], "w"))
