"""Runs zoo cases end to end: fit_transform(X), transform(X2) (X2 has unseen vocabulary / out-of-range values),
transform(strip_unseen(X2)) where that is defined, and the distance functions.  Used by C01 and C10."""
import json, sys, os, traceback, warnings, copy
warnings.filterwarnings("ignore")
sys.path.insert(0, os.path.dirname(os.path.abspath(__file__)))
import numpy as np
import zoo

def exc(e):
    return {"err": type(e).__name__, "msg": str(e)[:300], "tb": traceback.format_exc()[-900:]}

def strip_unseen(c, est):
    """X2 with the tokens outside the fitted vocabulary deleted (only for token-sequence estimators without mask)."""
    if c.params.get("mask_string") is not None:
        return None
    if c.name in ("NgramVectorizer", "SkipgramVectorizer", "TokenCooccurrenceVectorizer", "NgramCooccurrenceVectorizer"):
        d = getattr(est, "token_label_dictionary_", None)
        if d is None:
            d = est._token_dictionary_
        vocab = set(d.keys())
        return [[t for t in d if t in vocab] for d in c.X2]
    return None

def run(name, seed):
    c = zoo.build(name, seed)
    out = c.describe()
    dc = copy.deepcopy
    est = c.make()
    try:
        A = est.fit_transform(dc(c.X), **dc(c.fit_kw))
    except Exception as e:
        out["fit_transform"] = exc(e)
        return out
    out["fit_transform"] = zoo.canon(A)
    if isinstance(A, np.ndarray) and A.ndim == 2 and A.dtype.kind == "f" and A.shape[1] > 1 and name in (
            "WassersteinVectorizer", "SinkhornVectorizer", "ApproximateWassersteinVectorizer", "CountFeatureCompressionTransformer"):
        # more components than the numerical rank: the surplus SVD directions are rounding noise, and the projection
        # of NEW data on them is arbitrary (it differs between two fits of the same process) - not comparable
        norms = np.sqrt((A ** 2).sum(axis=0))
        out["degenerate_svd"] = bool(norms.min() < 1e-7 * max(norms.max(), 1e-300))
    out["n_train"], out["n_x2"] = zoo.nrows(A), len(c.X2) if not hasattr(c.X2, "shape") else int(c.X2.shape[0])
    out["rowwise"], out["exact"], out["rtol"] = c.rowwise, c.exact, c.rtol
    try:
        B = est.transform(dc(c.X2), **dc(c.tr2_kw))
        out["transform_x2"] = zoo.canon(B)
    except Exception as e:
        out["transform_x2"] = exc(e)
    # one item at a time (row-producing estimators): row i of the batch must be the row of item i alone
    if c.rowwise and "err" not in out["transform_x2"] and not out.get("degenerate_svd"):
        try:
            singles = []
            n2 = out["n_x2"]
            for i in range(min(n2, 4)):
                if hasattr(c.X2, "shape"):
                    xi = c.X2[i:i + 1]
                    kw = dc(c.tr2_kw)
                else:
                    xi = [dc(c.X2[i])]
                    kw = {k: ([v[i]] if isinstance(v, list) and len(v) == n2 else v) for k, v in dc(c.tr2_kw).items()}
                singles.append(zoo.canon(est.transform(xi, **kw)))
            out["transform_singles"] = singles
        except Exception as e:
            out["transform_singles"] = exc(e)
    try:
        S = strip_unseen(c, est)
        if S is not None:
            out["transform_stripped"] = zoo.canon(est.transform(S, **dc(c.tr2_kw)))
    except Exception as e:
        out["transform_stripped"] = exc(e)
    for attr in ("column_label_dictionary_", "token_label_dictionary_"):
        if hasattr(est, attr):
            try:
                out[attr + "_len"] = len(getattr(est, attr))
            except Exception:
                pass
    return out

def run_distance(seed):
    import random
    from vectorizers import distances as D
    r = random.Random(seed); rs = np.random.RandomState(seed)
    n = r.choice([1, 2, 3, 8, 33])
    scale = r.choice([1.0, 1e-20, 1e20, 1.0])
    x = rs.rand(n) * (rs.rand(n) > r.choice([0.0, 0.5])) * scale
    y = rs.rand(n) * (rs.rand(n) > r.choice([0.0, 0.5])) * scale
    if x.sum() == 0: x[0] = scale
    if y.sum() == 0: y[-1] = scale
    if r.random() < 0.2: y = x * r.choice([0.5, 3.0])
    res = {}
    for fn in ("hellinger", "total_variation", "kantorovich1d", "jensen_shannon_divergence", "symmetric_kl_divergence"):
        f = getattr(D, fn, None)
        if f is None: continue
        try: res[fn] = float(f(x, y))
        except Exception as e: res[fn] = exc(e)
    xi, yi = np.nonzero(x)[0].astype(np.int32), np.nonzero(y)[0].astype(np.int32)
    xd, yd = x[xi].astype(np.float32), y[yi].astype(np.float32)
    for fn in ("sparse_hellinger", "sparse_total_variation", "sparse_jensen_shannon_divergence", "sparse_symmetric_kl_divergence"):
        f = getattr(D, fn, None)
        if f is None: continue
        try: res[fn] = float(f(xi, xd, yi, yd))
        except Exception as e: res[fn] = exc(e)
    for fn in ("sparse_sum", "sparse_diff", "sparse_mul"):
        f = getattr(D, fn, None)
        if f is None: continue
        try:
            i, v = f(xi.copy(), xd.copy(), yi.copy(), yd.copy())
            res[fn] = [[int(a) for a in i], [float(a) for a in v]]
        except Exception as e: res[fn] = exc(e)
        # degenerate encodings of the helpers' domain: one or both vectors without stored entries
        ei, ed = np.zeros(0, dtype=np.int32), np.zeros(0, dtype=np.float32)
        for tag, args in (("_empty_left", (ei, ed, yi.copy(), yd.copy())), ("_empty_right", (xi.copy(), xd.copy(), ei, ed)),
                          ("_empty_both", (ei.copy(), ed.copy(), ei.copy(), ed.copy()))):
            try:
                i, v = f(*args)
                res[fn + tag] = [[int(a) for a in i], [float(a) for a in v]]
            except Exception as e: res[fn + tag] = exc(e)
    return {"estimator": "distances", "seed": seed, "x": x.tolist(), "y": y.tolist(), "res": res}

cases = json.load(open(sys.argv[1]))
res = []
for name, seed in cases:
    try:
        res.append(run_distance(seed) if name == "distances" else run(name, seed))
    except Exception as e:
        d = exc(e); d.update({"estimator": name, "seed": seed, "harness_error": True})
        res.append(d)
    if len(res) % 5 == 0:
        json.dump(res, open(sys.argv[2], "w"))
json.dump(res, open(sys.argv[2], "w"))
