"""C07 — the exact transport plan is a feasible, optimal coupling.

Proof gate (Properties/C07.v: soundness of the certificate checker `check_plan`, weak duality for all sizes, the arc
index map) + per-call validation: every plan the implementation returns (transport_plan directly, and the plan inside
lot_vectors_dense_internal / lot_vectors_sparse_internal) is read as exact rationals, an (untrusted) certificate is built
in exact integer arithmetic (dual potentials by Bellman-Ford on the residual graph of the plan, an exactly feasible
plan by a rounding repair) and the Coq checker, evaluated with vm_compute, decides.  The network simplex itself is
third-party and is NOT proved: it is validated call by call."""
import math
import struct
from fractions import Fraction as F

from . import common as C

HEADER = """From Coq Require Import QArith List.
From VZ Require Import Model.K16_OTcert.
Import ListNotations.
Open Scope Q_scope.
"""

DELTA = F(1, 10 ** 9)      # marginals, as the property states
EPS = F(1, 10 ** 7)        # cost bracket, relative to max(1, OPT)


def run_child(script, payload, key, env_extra=None, timeout=1800):
    """common.run_impl for children that run concurrently: a private file tag and a private numba cache per child
    (common.run_impl derives both from the parent's pid and would share / delete them between concurrent children)."""
    import json
    import os
    import subprocess
    import time
    d = C.os_makedirs(os.path.join(C.WORK, "impl"))
    tag = "%s_%d_%s" % (script, os.getpid(), "".join(ch if ch.isalnum() else "_" for ch in str(key)))
    fin, fout = os.path.join(d, tag + ".in.json"), os.path.join(d, tag + ".out.json")
    json.dump(payload, open(fin, "w"))
    env = C.impl_env(env_extra)
    env["NUMBA_CACHE_DIR"] = C.os_makedirs(os.path.join(C.WORK, "numba_cache_%s" % tag))
    t0 = time.time()
    try:
        p = subprocess.run(["timeout", "-k", "10", str(timeout), C.PY, os.path.join(C.VERIF, "harness", "impl", script + ".py"),
                            fin, fout], cwd=C.REPO, env=env, stdout=subprocess.PIPE, stderr=subprocess.STDOUT, text=True)
        rc, out = p.returncode, p.stdout
    finally:
        subprocess.run(["rm", "-rf", env["NUMBA_CACHE_DIR"]])
    info = {"rc": rc, "wall_s": round(time.time() - t0, 2), "tail": out[-2000:]}
    res = None
    if os.path.exists(fout):
        try:
            res = json.load(open(fout))
        except Exception as e:
            info["parse_error"] = repr(e)
        os.remove(fout)
    if os.path.exists(fin):
        os.remove(fin)
    return res, info


# ---------------------------------------------------------------- generators
def f32(x):
    return struct.unpack("f", struct.pack("f", x))[0]


def gen_masses(rng, n, kind):
    if kind == "uniform":
        w = [rng.random() + 1e-3 for _ in range(n)]
    elif kind == "equal":
        w = [1.0] * n
    elif kind == "zeros":                      # some entries of zero mass
        w = [rng.random() + 1e-3 for _ in range(n)]
        for i in range(n):
            if rng.random() < 0.35:
                w[i] = 0.0
        if not any(w):
            w[rng.randrange(n)] = 1.0
    elif kind == "wide":                       # masses spanning 10 orders of magnitude
        w = [10.0 ** (-10.0 * rng.random()) for _ in range(n)]
        w[rng.randrange(n)] = 1.0
    elif kind == "dyadic":                     # multiples of 2^-30 summing to exactly 1: every partial sum is exact
        cuts = sorted(rng.randrange(0, 2 ** 30 + 1) for _ in range(n - 1))
        parts = [b - a for a, b in zip([0] + cuts, cuts + [2 ** 30])]
        return [x / 2.0 ** 30 for x in parts]
    else:
        raise ValueError(kind)
    s = math.fsum(w)
    return [x / s for x in w]


def gen_cost(rng, n, m, kind):
    if kind == "uniform":
        return [[rng.random() for _ in range(m)] for _ in range(n)]
    if kind == "ties":                         # small integers: many ties
        return [[float(rng.randrange(0, 4)) for _ in range(m)] for _ in range(n)]
    if kind == "zeros":                        # mostly zero costs
        return [[0.0 if rng.random() < 0.6 else rng.random() for _ in range(m)] for _ in range(n)]
    if kind == "const":
        c = rng.choice([0.0, 1.0, 0.37])
        return [[c] * m for _ in range(n)]
    if kind == "rank1":                        # C_ij = a_i + b_j: every feasible plan is optimal
        a = [float(rng.randrange(0, 5)) for _ in range(n)]
        b = [float(rng.randrange(0, 5)) for _ in range(m)]
        return [[a[i] + b[j] for j in range(m)] for i in range(n)]
    if kind == "metric":                       # euclidean distances between random points (the library's use)
        d = rng.choice([1, 2, 3])
        xs = [[rng.gauss(0, 1) for _ in range(d)] for _ in range(n)]
        ys = [[rng.gauss(0, 1) for _ in range(d)] for _ in range(m)]
        return [[math.sqrt(sum((a - b) ** 2 for a, b in zip(x, y))) for y in ys] for x in xs]
    if kind == "line":                         # points on a line, integer positions: degenerate, many ties
        xs = [float(rng.randrange(0, 6)) for _ in range(n)]
        ys = [float(rng.randrange(0, 6)) for _ in range(m)]
        return [[abs(a - b) for b in ys] for a in xs]
    if kind == "scaled":
        s = rng.choice([1e-2, 1e2, 1e3])
        return [[s * rng.random() for _ in range(m)] for _ in range(n)]
    raise ValueError(kind)


MASS_KINDS = ["uniform", "uniform", "equal", "zeros", "wide", "dyadic"]
COST_KINDS = ["uniform", "uniform", "ties", "zeros", "const", "rank1", "metric", "metric", "line", "scaled"]


def gen_shape(rng, big):
    r = rng.random()
    if r < 0.08:
        return 1, rng.randint(1, big)
    if r < 0.16:
        return rng.randint(1, big), 1
    if r < 0.22:
        k = rng.randint(2, big)
        return k, k
    if r < 0.30:                               # equal masses on both sides with n | m: degenerate vertices
        k = rng.randint(1, 5)
        return k, k * rng.randint(1, max(1, big // max(k, 1) // 2))
    if r < 0.65:
        return rng.randint(2, 9), rng.randint(2, 9)
    return rng.randint(2, big), rng.randint(2, big)


def gen_case(rng, big):
    n, m = gen_shape(rng, big)
    kind = rng.choice(["direct", "direct", "direct", "dense", "sparse"])
    pk, qk, ck = rng.choice(MASS_KINDS), rng.choice(MASS_KINDS), rng.choice(COST_KINDS)
    if n == m and rng.random() < 0.3:
        qk = "same"
    p = gen_masses(rng, n, pk)
    q = list(p) if qk == "same" else gen_masses(rng, m, qk)
    Cm = gen_cost(rng, n, m, ck)
    if qk == "same" and rng.random() < 0.7:
        for i in range(n):
            Cm[i][i] = 0.0
    case = {"kind": kind, "p": p, "q": q, "C": Cm, "tags": [pk, qk, ck]}
    if kind == "direct":
        case["layout"] = rng.choice(["C", "C", "F", "T"])
    else:
        case["C"] = [[f32(x) for x in row] for row in Cm]       # the kernels store costs as float32
        if rng.random() < 0.5:                                   # unnormalised weights: the kernel normalises
            s = rng.choice([0.001, 3.0, 1000.0])
            case["p"] = [x * s for x in p]
        if kind == "dense" and any(x == 0.0 for x in q):
            # reference_distribution enters as 1/q: a zero reference mass is outside the kernel's domain
            q2 = [x if x > 0.0 else 1e-3 for x in q]
            s2 = math.fsum(q2)
            case["q"] = [x / s2 for x in q2]
        if kind == "sparse" and any(x == 0.0 for x in q):
            q2 = [x if x > 0.0 else 1e-3 for x in q]
            s2 = math.fsum(q2)
            case["q"] = [x / s2 for x in q2]
    return case


CORPUS = [
    {"kind": "direct", "p": [1.0], "q": [1.0], "C": [[0.0]], "tags": ["1x1", "", ""], "layout": "C"},
    {"kind": "direct", "p": [0.5, 0.5], "q": [0.25, 0.25, 0.5], "C": [[0.0, 1.0, 2.0], [2.0, 1.0, 1.0]],
     "tags": ["equal", "dyadic", "ties"], "layout": "C"},
    {"kind": "direct", "p": [0.25, 0.25, 0.5], "q": [0.5, 0.5], "C": [[0.0, 2.0], [1.0, 1.0], [2.0, 1.0]],
     "tags": ["dyadic", "equal", "ties"], "layout": "T"},
    {"kind": "dense", "p": [2.0, 1.0, 1.0], "q": [0.5, 0.5], "C": [[0.0, 2.0], [1.0, 1.0], [2.0, 1.0]],
     "tags": ["uniform", "equal", "ties"]},
    {"kind": "sparse", "p": [1.0, 3.0], "q": [0.25, 0.25, 0.5], "C": [[0.0, 1.0, 2.0], [2.0, 1.0, 1.0]],
     "tags": ["uniform", "dyadic", "ties"]},
    {"kind": "dense", "p": [1.0, 1.0, 2.0], "q": [0.25, 0.25, 0.5], "C": [[0.0, 1.0, 2.0], [2.0, 0.5, 1.0], [3.0, 1.0, 0.25]],
     "tags": ["uniform", "dyadic", "square"]},
]


# ---------------------------------------------------------------- exact problem, certificate (untrusted)
def pow2_den(fr_list):
    d = 1
    for x in fr_list:
        if x.denominator > d:
            d = x.denominator
    return d


def exact_problem(case):
    """The mathematical instance a call stands for: p^ = p/sum(p), q^ = q/sum(q) as exact rationals (the floats handed
    to the implementation sum to 1 only up to rounding), C exactly as given."""
    pf = [F(x) for x in case["p"]]
    qf = [F(x) for x in case["q"]]
    Cf = [[F(x) for x in row] for row in case["C"]]
    sp, sq = sum(pf), sum(qf)
    return [x / sp for x in pf], [x / sq for x in qf], Cf


def plan_of(case, res):
    """The implementation's plan as exact rationals."""
    if "X" in res:
        return [[F(x) for x in row] for row in res["X"]]
    q = [F(x) for x in case["q"]]
    return [[F(x) * q[j] for j, x in enumerate(row)] for row in res["scaled"]]


def bellman_ford(Ci, supp, n, m):
    """Integer potentials on the residual graph: arcs i->j of weight C_ij, j->i of weight -C_ij where supp[i][j]."""
    dr, dc = [0] * n, [0] * m
    for it in range(n + m + 2):
        ch = False
        for i in range(n):
            row, di, si = Ci[i], dr[i], supp[i]
            for j in range(m):
                c = row[j]
                if di + c < dc[j]:
                    dc[j] = di + c
                    ch = True
                if si[j] and dc[j] - c < di:
                    di = dc[j] - c
                    ch = True
            dr[i] = di
        if not ch:
            return dr, dc, True
    return dr, dc, False


def tighten(Ci, v, n, m):
    return [min(Ci[i][j] - v[j] for j in range(m)) for i in range(n)]


def repair(Xi, P, Q, n, m):
    """An integer matrix with row sums P and column sums Q close to Xi (Altschuler-style rounding, exact)."""
    N = [[max(0, x) for x in row] for row in Xi]
    for i in range(n):
        ex = sum(N[i]) - P[i]
        if ex > 0:
            for j in sorted(range(m), key=lambda j: -N[i][j]):
                t = min(N[i][j], ex)
                N[i][j] -= t
                ex -= t
                if ex == 0:
                    break
    for j in range(m):
        ex = sum(N[i][j] for i in range(n)) - Q[j]
        if ex > 0:
            for i in sorted(range(n), key=lambda i: -N[i][j]):
                t = min(N[i][j], ex)
                N[i][j] -= t
                ex -= t
                if ex == 0:
                    break
    r = [P[i] - sum(N[i]) for i in range(n)]
    c = [Q[j] - sum(N[i][j] for i in range(n)) for j in range(m)]
    i = j = 0
    while i < n and j < m:
        t = min(r[i], c[j])
        N[i][j] += t
        r[i] -= t
        c[j] -= t
        if r[i] == 0:
            i += 1
        else:
            j += 1
    return N


def scale_instance(ph, qh, Cf, Xf):
    """Everything as integers: masses times Ms, costs times Ks (positive integers).  The statements the checker
    establishes are homogeneous, so the scaled instance is accepted iff the original is (delta, unit scale along)."""
    n, m = len(ph), len(qh)
    A = 1
    for x in ph:
        A = A * x.denominator // math.gcd(A, x.denominator)
    B = 1
    for x in qh:
        B = B * x.denominator // math.gcd(B, x.denominator)
    kx = pow2_den([x for row in Xf for x in row])
    Ms = A * B // math.gcd(A, B)
    Ms = Ms * kx // math.gcd(Ms, kx)
    Ks = pow2_den([x for row in Cf for x in row])
    P = [int(x * Ms) for x in ph]
    Q = [int(x * Ms) for x in qh]
    Xi = [[int(x * Ms) for x in row] for row in Xf]
    Ci = [[int(x * Ks) for x in row] for row in Cf]
    return P, Q, Ci, Xi, Ms, Ks


def mirror_check(P, Q, Ci, Xi, u, v, N, Ms, Ks):
    """Python mirror of Model/K16_OTcert.check_plan on the scaled integers (used only to pick among candidate
    certificates and to diagnose; the verdict is Coq's).  Returns (ok, reasons, numbers)."""
    n, m = len(P), len(Q)
    why = []
    d = DELTA * Ms
    if any(x < 0 for row in Xi for x in row):
        why.append("negative entry in X")
    rerr = max(abs(sum(Xi[i]) - P[i]) for i in range(n))
    cerr = max(abs(sum(Xi[i][j] for i in range(n)) - Q[j]) for j in range(m))
    if rerr > d:
        why.append("row marginals of X off by %.3g" % float(F(rerr, Ms)))
    if cerr > d:
        why.append("column marginals of X off by %.3g" % float(F(cerr, Ms)))
    if any(x < 0 for row in N for x in row) or [sum(r) for r in N] != P or \
            [sum(N[i][j] for i in range(n)) for j in range(m)] != Q:
        why.append("X' not exactly feasible")
    if any(u[i] + v[j] > Ci[i][j] for i in range(n) for j in range(m)):
        why.append("duals infeasible")
    D = sum(u[i] * P[i] for i in range(n)) + sum(v[j] * Q[j] for j in range(m))
    cX = sum(Xi[i][j] * Ci[i][j] for i in range(n) for j in range(m))
    cN = sum(N[i][j] * Ci[i][j] for i in range(n) for j in range(m))
    tol = EPS * max(Ms * Ks, D)
    if cN - cX > tol:
        why.append("<X',C> - <X,C> = %.3g above tolerance" % float(F(cN - cX, Ms * Ks)))
    if cX - D > tol:
        why.append("<X,C> - dual value = %.3g above tolerance" % float(F(cX - D, Ms * Ks)))
    nums = {"cost": float(F(cX, Ms * Ks)), "dual": float(F(D, Ms * Ks)), "upper": float(F(cN, Ms * Ks)),
            "row_err": float(F(rerr, Ms)), "col_err": float(F(cerr, Ms))}
    return not why, why, nums


def linprog_duals(case, Ci, Ks, n, m):
    """Second, LP-based source of duals (scipy HiGHS, floats), made exactly feasible by tightening."""
    import numpy as np
    from scipy.optimize import linprog
    Cf = np.asarray(case["C"], dtype=float)
    A = np.zeros((n + m, n * m))
    for i in range(n):
        A[i, i * m:(i + 1) * m] = 1
    for j in range(m):
        A[n + j, j::m] = 1
    p, q = np.asarray(case["p"], float), np.asarray(case["q"], float)
    b = np.concatenate([p / p.sum(), q / q.sum()])
    r = linprog(Cf.ravel(), A_eq=A[:-1], b_eq=b[:-1], bounds=(0, None), method="highs")
    if r.status != 0:
        return None, None
    y = list(r.eqlin.marginals) + [0.0]
    v = [int(F(float(y[n + j])) * Ks) for j in range(m)]
    return v, float(r.fun)


def certify(case, res):
    """Build the scaled instance and a certificate; try the alternatives until the mirror accepts."""
    ph, qh, Cf = exact_problem(case)
    Xf = plan_of(case, res)
    n, m = len(ph), len(qh)
    P, Q, Ci, Xi, Ms, Ks = scale_instance(ph, qh, Cf, Xf)
    N = repair(Xi, P, Q, n, m)
    attempts = []
    best = None
    for method in ("bf0", "bf-thresh", "bf-repaired", "linprog"):
        if method == "bf0":
            supp = [[x > 0 for x in row] for row in Xi]
        elif method == "bf-thresh":           # ignore float dust in the support
            thr = Ms // 10 ** 13
            supp = [[x > thr for x in row] for row in Xi]
        elif method == "bf-repaired":
            supp = [[x > 0 for x in row] for row in N]
        if method == "linprog":
            v, _ = linprog_duals(case, Ci, Ks, n, m)
            if v is None:
                continue
        else:
            dr, dc, conv = bellman_ford(Ci, supp, n, m)
            v = dc
        u = tighten(Ci, v, n, m)
        ok, why, nums = mirror_check(P, Q, Ci, Xi, u, v, N, Ms, Ks)
        attempts.append(method)
        cand = {"P": P, "Q": Q, "C": Ci, "X": Xi, "u": u, "v": v, "N": N, "Ms": Ms, "Ks": Ks,
                "ok": ok, "why": why, "nums": nums, "method": method, "attempts": list(attempts)}
        if best is None or (nums["cost"] - nums["dual"]) < (best["nums"]["cost"] - best["nums"]["dual"]):
            best = cand
        if ok:
            return cand
        if any(w.startswith(("negative", "row", "column")) for w in why):
            break                               # no certificate can help an infeasible plan
    best["attempts"] = attempts
    return best


# ---------------------------------------------------------------- Coq rendering
def qz(n):
    return "(%d # 1)" % n if n >= 0 else "((%d) # 1)" % n


def qfrac(fr):
    return "(%d # %d)" % (fr.numerator, fr.denominator) if fr >= 0 else "((%d) # %d)" % (fr.numerator, fr.denominator)


def coq_case(cert):
    return "check_plan %s %s %s %s %s %s %s %s %s %s" % (
        C.coq_list(cert["P"], qz), C.coq_list(cert["Q"], qz), C.coq_list2(cert["C"], qz), C.coq_list2(cert["X"], qz),
        C.coq_list(cert["u"], qz), C.coq_list(cert["v"], qz), C.coq_list2(cert["N"], qz),
        qfrac(DELTA * cert["Ms"]), qfrac(EPS), qz(cert["Ms"] * cert["Ks"]))


def lp_optimum(case):
    n, m = len(case["p"]), len(case["q"])
    try:
        return linprog_duals(case, [[0] * m] * n, 1, n, m)[1]
    except Exception:
        return None


def classify_rejection(case, cert):
    """A rejected plan is a violation of the library only if it is really infeasible or really suboptimal."""
    why = cert["why"]
    if any(w.startswith(("negative", "row", "column")) for w in why):
        return True, "; ".join(why)
    opt = lp_optimum(case)
    if opt is None:
        return False, "no certificate found and no LP cross-check available: " + "; ".join(why)
    cost = cert["nums"]["cost"]
    if cost - opt > 1e-7 * max(1.0, abs(opt)):
        return True, "plan is suboptimal: <X,C> = %.12g, LP optimum (scipy HiGHS) = %.12g; %s" % (cost, opt, "; ".join(why))
    return False, "certificate construction failed for a plan that scipy finds optimal (%.12g vs %.12g): %s" % (
        cost, opt, "; ".join(why))


def shrink(case):
    """Greedy removal of support points / reference points (direct kind), keeping the failure."""
    if case["kind"] != "direct":
        return case
    cur = case
    for _ in range(3):
        n, m = len(cur["p"]), len(cur["q"])
        cands = []
        for i in range(n):
            if n > 1 and cur["p"][i] < 1.0:
                p2 = cur["p"][:i] + cur["p"][i + 1:]
                s = math.fsum(p2)
                if s > 0:
                    cands.append(dict(cur, p=[x / s for x in p2], C=cur["C"][:i] + cur["C"][i + 1:]))
        for j in range(m):
            if m > 1 and cur["q"][j] < 1.0:
                q2 = cur["q"][:j] + cur["q"][j + 1:]
                s = math.fsum(q2)
                if s > 0:
                    cands.append(dict(cur, q=[x / s for x in q2], C=[r[:j] + r[j + 1:] for r in cur["C"]]))
        if not cands:
            break
        rr, _ = C.run_impl("c07", cands)
        nxt = None
        for cc, r in zip(cands, rr or []):
            if "err" in r:
                continue
            ce = certify(cc, r)
            if not ce["ok"] and classify_rejection(cc, ce)[0]:
                nxt = cc
                break
        if nxt is None:
            break
        cur = nxt
    return cur


# ---------------------------------------------------------------- the check
def large_probe(ctx, cases):
    """Instances with more than 2^16 arcs (n*m > 65536): too large for the in-Coq checker, so only the two parts of the
    property that need no certificate are evaluated — non-negativity and the marginals in exact arithmetic — plus the
    cost against scipy's LP optimum (untrusted cross-check).  Counted separately in the evidence; not certified."""
    res, info = run_child("c07", cases, "large", timeout=1500)
    res = res or []
    if len(res) != len(cases):
        ctx.report("implementation child died (rc=%s) on a large instance: %s" % (info["rc"], info["tail"][-300:]),
                   {"stage": "impl-crash", "case": {"kind": "direct-large", "shape": [len(cases[len(res)]["p"]), len(cases[len(res)]["q"])]}},
                   found_input=True)
    n_ok = 0
    for c, r in zip(cases, res):
        n, m = len(c["p"]), len(c["q"])
        if "err" in r:
            ctx.report("transport_plan raised %s on a valid %dx%d instance" % (r["err"], n, m), {"stage": "oracle", "case": c}, found_input=True)
            continue
        X = r["X"]
        sp, sq = math.fsum(c["p"]), math.fsum(c["q"])
        neg = min(min(row) for row in X)
        rerr = max(abs(math.fsum(X[i]) - c["p"][i] / sp) for i in range(n))
        cerr = max(abs(math.fsum(X[i][j] for i in range(n)) - c["q"][j] / sq) for j in range(m))
        cost = math.fsum(X[i][j] * c["C"][i][j] for i in range(n) for j in range(m))
        bad = []
        if neg < 0:
            bad.append("negative entry %g" % neg)
        if rerr > 1e-9:
            bad.append("row marginals off by %g" % rerr)
        if cerr > 1e-9:
            bad.append("column marginals off by %g" % cerr)
        if not bad:
            opt = lp_optimum(c)
            if opt is not None and cost - opt > 1e-7 * max(1.0, abs(opt)):
                bad.append("suboptimal: <X,C> = %.12g, LP optimum (scipy HiGHS) = %.12g" % (cost, opt))
        if bad:
            ctx.report("the plan of transport_plan on a %dx%d instance (%d arcs) is not a feasible optimal coupling: %s"
                       % (n, m, n * m, "; ".join(bad)), {"stage": "oracle", "case": c}, found_input=True)
        else:
            n_ok += 1
    ctx.coverage["large_instances_probed_not_certified"] = {"count": len(cases), "ok": n_ok,
                                                            "shapes": [[len(c["p"]), len(c["q"])] for c in cases]}


def gen_large(rng, n, m):
    p = gen_masses(rng, n, "uniform")
    q = gen_masses(rng, m, "uniform")
    return {"kind": "direct", "p": p, "q": q, "C": gen_cost(rng, n, m, "uniform"), "tags": ["uniform", "uniform", "uniform"],
            "layout": "C", "large": True}


def gen_structured(rng, n):
    """Geometric costs: two separated Gaussian point clouds in the plane with squared Euclidean (or Euclidean) cost.
    The network simplex needs many more pivots on such costs than on random ones (a few dozen points per side suffice
    to pass 5*(n+m) pivots), so an iteration budget that random costs never reach is reached here."""
    sq = rng.random() < 0.7
    off = rng.choice([3.0, 3.0, 8.0])
    A = [[rng.gauss(0, 1), rng.gauss(0, 1)] for _ in range(n)]
    B = [[rng.gauss(0, 1) + off, rng.gauss(0, 1) + off] for _ in range(n)]
    def c(a, b):
        d2 = (a[0] - b[0]) ** 2 + (a[1] - b[1]) ** 2
        return d2 if sq else math.sqrt(d2)
    Cm = [[c(a, b) for b in B] for a in A]
    return {"kind": "direct", "p": gen_masses(rng, n, "uniform"), "q": gen_masses(rng, n, "uniform"), "C": Cm,
            "tags": ["uniform", "uniform", "two-clouds-sq" if sq else "two-clouds"], "layout": "C", "large": True}


def run(ctx, replay=None):
    C.run_gate(ctx)
    if replay and replay["case"].get("large"):
        large_probe(ctx, [replay["case"]])
        C.gate_violation(ctx)
        return ctx.finish("proof")
    if not replay:
        shapes = [(300, 230)] if ctx.quick else [(300, 230), (257, 256), (200, 400)]
        sizes = [60, 120, 120] if ctx.quick else [60, 90, 120, 120, 200, 200]
        large_probe(ctx, [gen_large(ctx.rng, n, m) for n, m in shapes] + [gen_structured(ctx.rng, n) for n in sizes])
    big = 25 if ctx.quick else 40
    ncases = 220 if ctx.quick else 1500
    cases = [replay["case"]] if replay else CORPUS + [gen_case(ctx.rng, big) for _ in range(ncases)]
    ctx.coverage["rule"] = ("random (p, q, C): shapes 1xm, nx1, n=m, n|m, n<m, n>m up to %d; masses uniform/equal/with zeros/"
                            "10 orders of magnitude/dyadic/p=q; costs uniform/ties/zeros/constant/rank-one/metric/line/scaled; "
                            "kinds: transport_plan direct (C, F, transposed-view layouts), plan inside lot_vectors_dense_internal "
                            "and lot_vectors_sparse_internal; non-trivial = n,m >= 2; distinct by case hash" % big)
    ctx.assumptions += [
        "the network simplex (pynndescent) is not modelled: each returned plan is validated by the proved checker",
        "the instance a call stands for is p/sum(p), q/sum(q) as exact rationals (floats sum to 1 only up to rounding) and C as given",
        "instances are handed to the Coq checker scaled to integers (masses by Ms, costs by Ks; delta and unit scale along); "
        "C07_checker_sound_scaled proves that acceptance of the scaled literals implies the statements for the unscaled instance",
        "tolerances: marginals 1e-9 absolute, cost 1e-7 * max(1, OPT)",
        "inside the lot kernels the plan is observed through the barycentric images (plan * (1/q)), i.e. up to one rounding per entry",
    ]
    import time
    t_start = time.time()
    half = (len(cases) + 1) // 2
    from concurrent.futures import ThreadPoolExecutor
    with ThreadPoolExecutor(max_workers=2) as ex:
        futs = [ex.submit(run_child, "c07", part, "half%d" % k) for k, part in enumerate((cases[:half], cases[half:])) if part]
        outs = [f.result() for f in futs]
    impl = []
    for (r, info), part in zip(outs, (cases[:half], cases[half:])):
        r = r or []
        if len(r) != len(part):
            ctx.report("implementation child died (rc=%s) on case %d: %s" % (info["rc"], len(r), info["tail"][-400:]),
                       {"stage": "impl-crash", "case": part[len(r)] if len(r) < len(part) else None}, found_input=True)
            r = r + [{"err": "crash"}] * (len(part) - len(r))
        impl += r
    t_impl = time.time()
    certs, todo = [], []
    stats = {"accepted": 0, "rejected": 0, "cert_method": {}, "construction_failures": 0, "raised": 0,
             "max_row_err": 0.0, "max_col_err": 0.0, "max_gap": 0.0}
    for c, r in zip(cases, impl):
        n, m = len(c["p"]), len(c["q"])
        ctx.count_case(c, nontrivial=(n >= 2 and m >= 2), kind=c["kind"] + ":" + "/".join(c.get("tags", [])[-1:]))
        ctx.dist("shape:" + ("1xm" if n == 1 else "nx1" if m == 1 else "n=m" if n == m else "n>m" if n > m else "n<m"))
        ctx.dist("masses:" + "/".join(c.get("tags", ["", ""])[:2]))
        if "err" in r:
            stats["raised"] += 1
            ctx.report("implementation raised %s on a valid instance: %s" % (r["err"], r.get("msg", "")),
                       {"stage": "oracle", "case": c, "actual": r}, found_input=True)
            certs.append(None)
            continue
        if "negC" in r:                        # glue inside the kernel: the reference block must be -C exactly
            if r["negC"] != [[-x for x in row] for row in c["C"]]:
                ctx.report("cost orientation / reference subtraction inside the lot kernel: coordinates n.. of the raw "
                           "LOT vector are not -C", {"stage": "oracle", "case": c, "actual": r["negC"]}, found_input=True)
        ce = certify(c, r)
        certs.append(ce)
        todo.append((c, r, ce))
    t_cert = time.time()
    verdicts = C.coq_eval_sharded("C07", HEADER, [coq_case(ce) for _, _, ce in todo], shard=12, jobs=12)
    ctx.coverage["timing_s"] = {"implementation": round(t_impl - t_start, 1), "certificates": round(t_cert - t_impl, 1),
                                "coq_checker": round(time.time() - t_cert, 1)}
    n_shrunk = 0
    for (c, r, ce), ok in zip(todo, verdicts):
        stats["max_row_err"] = max(stats["max_row_err"], ce["nums"]["row_err"])
        stats["max_col_err"] = max(stats["max_col_err"], ce["nums"]["col_err"])
        stats["max_gap"] = max(stats["max_gap"], ce["nums"]["upper"] - ce["nums"]["dual"])
        if ok != ce["ok"]:
            ctx.report("Coq checker and its Python mirror disagree (%s vs %s)" % (ok, ce["ok"]),
                       {"stage": "correspondence", "correspondence": "Model/K16_OTcert.check_plan <-> harness mirror",
                        "case": c}, found_input=False)
        if ok is True:
            stats["accepted"] += 1
            stats["cert_method"][ce["method"]] = stats["cert_method"].get(ce["method"], 0) + 1
            continue
        stats["rejected"] += 1
        real, what = classify_rejection(c, ce)
        if real:
            small = c
            if not replay and n_shrunk < 1:
                small = shrink(c)
                n_shrunk += 1
            ctx.report("the plan of %s (%dx%d) is rejected by the verified checker: %s" % (c["kind"], len(c["p"]), len(c["q"]), what),
                       {"stage": "oracle", "case": small, "numbers": ce["nums"], "why": ce["why"],
                        "theorem": "C07_checker_sound"}, found_input=True)
        else:
            stats["construction_failures"] += 1
            stats.setdefault("construction_failure_notes", []).append(what[:300])
    if stats["construction_failures"] > max(2, len(cases) // 50) and not any(v["found_input"] for v in ctx.violations):
        ctx.report("the harness failed to construct a certificate for %d plans that scipy finds optimal: %s"
                   % (stats["construction_failures"], stats["construction_failure_notes"][:3]),
                   {"stage": "correspondence", "correspondence": "certificate construction (harness)", "case": None},
                   found_input=False)
    ctx.coverage["oracle"] = {"plans_checked": len(todo), **stats,
                              "checker": "Model/K16_OTcert.check_plan via vm_compute, delta=1e-9, eps=1e-7, unit=1"}
    ctx.coverage["correspondence"] = {"cases": len(todo), "model": "per-call certificate validation; mirror = harness re-evaluation of the checker",
                                      "disagreements": sum(1 for v in ctx.violations if "mirror" in v["what"])}
    ctx.coverage["traces_validated_against_impl"] = stats["accepted"]
    ctx.coverage["programs"] = len(todo)                       # plans (solver outputs) validated by the proved checker
    ctx.coverage["disagreements_checked"] = stats["rejected"]  # rejections, each classified against scipy's optimum
    C.gate_violation(ctx)
    return ctx.finish("translation_validation")
