"""C03 — co-occurrence matrices equal the windowed, kernel-weighted count definition.
Proof gate (Properties/C03.v) + correspondence of Model/K02_Windows.v, K03_Cooc.v (evaluated in Coq on rationals)
with the four co-occurrence vectorizers + property oracle (the pointwise SPEC, evaluated here on exact fractions)."""
import math
from fractions import Fraction as F
from . import common as C

HEADER = """From Coq Require Import List Arith Bool ZArith QArith Qcanon.
From VZ Require Import Model.K02_Windows Model.K03_Cooc Model.K03_Exec.
Import ListNotations.
Open Scope nat_scope.
"""

REL, ABS = 2e-5, 1e-9
ALPHA = "abcde"
MASK = "MASK"

# ------------------------------------------------------------------ generator

def gen_kw(rng, kind, allow_variable=True):
    nwin = rng.choice([1, 1, 1, 2])
    radii = [rng.choice([0, 1, 1, 2, 2, 3, 4, 5, 8, 12, 15]) for _ in range(nwin)]
    orient = [rng.choice(["before", "after", "directional", "directional"]) for _ in range(nwin)]
    if rng.random() < 0.3:
        orient = orient[0] if nwin == 1 else orient
    kernels = ["flat", "geometric"] if kind in ("timed", "multi") else ["flat", "harmonic", "geometric"]
    kf = rng.choice(kernels)
    kargs = []
    # the kernel-argument tuples of all windows go into one numba typed list: every window must name the same
    # arguments (in particular 'power' for all windows or for none)
    with_power = kf == "geometric" and rng.random() < 0.6
    for _ in range(nwin):
        a = {}
        if rng.random() < 0.5:
            a["offset"] = rng.choice([0, 1, 1, 2, 3])
        if rng.random() < 0.35:
            a["normalize"] = rng.random() < 0.7
        if with_power:
            a["power"] = rng.choice([0.5, 0.5, 0.25, 0.75, 1.0])
        kargs.append(a)
    # with several windows the constructor wants one kernel / window function per window
    kw = {"window_radii": radii if (nwin > 1 or rng.random() < 0.5) else radii[0],
          "window_orientations": orient, "kernel_functions": kf if nwin == 1 else [kf] * nwin,
          "normalize_windows": rng.random() < 0.5}
    if nwin > 1:
        kw["window_functions"] = ["fixed"] * nwin
    r = rng.random()
    if r < 0.5 or (with_power and nwin > 1):
        kw["kernel_args"] = kargs
    elif r < 0.7 or with_power:
        kw["kernel_args"] = kargs[0]
    if rng.random() < 0.4:
        kw["mix_weights"] = [rng.choice([0.5, 1.0, 2.0, 0.25, 3.0, 0.0, 1024.0]) for _ in range(nwin)]
    if allow_variable and rng.random() < 0.2:
        kw["window_functions"] = "variable" if nwin == 1 else ["variable"] * nwin
        kw["window_radii"] = [max(1, x) for x in radii] if isinstance(kw["window_radii"], list) else max(1, radii[0])
    r = rng.random()
    if r < 0.3:
        kw["excluded_tokens"] = ["x"] + ([rng.choice(ALPHA)] if rng.random() < 0.3 else [])
        if rng.random() < 0.65:
            kw["mask_string"] = MASK
            kw["nullify_mask"] = rng.random() < 0.5
    return kw


def gen_seq(rng, alpha, maxlen, with_x):
    pool = list(alpha) + (["x"] if with_x else [])
    L = rng.choice([0, 1, 1, 2, 3, 4, 5, 6, 8, 10, maxlen])
    return [rng.choice(pool) for _ in range(L)]


BIG_RADII = [32767, 32768, 40000, 65535, 65536, 70000, 2 ** 31 - 1, 2 ** 31, 2 ** 32 + 7]
HIST_ALPHA = "abcdefgh"
P_HISTORY, P_THEN = 0.4, 0.3

# ---- clocks.  A timed corpus is a list of (token, tick) events with integer ticks; the timestamp handed to the
# vectorizer is  tick/8 * unit + shift  (float64).  The definition only involves ratios of tick differences, so the
# expected matrix (SPEC and Coq model, both on the integer ticks) is the same on every clock.  One unit = a gap of 8
# ticks: units span 1e-9 .. 1e6 "seconds" both in decimal (timestamps rounded to float64: relative error of a
# difference <= 2^-52 * |timestamp| / |difference|) and as powers of two (every timestamp exact, also with offsets).
DEC_UNITS = [1e-9, 1e-6, 1e-4, 1e-3, 1.0, 1e3, 1e6]
POW2_UNITS = [2.0 ** -30, 2.0 ** -20, 2.0 ** -13, 2.0 ** -10, 2.0 ** 10, 2.0 ** 20]
GEO_POWERS = [0.5, 0.9, 0.99]


def shifts_for(unit):
    """Offsets under which the float64 timestamps still carry the tick differences to <= 2e-9 ticks (so that the
    weights, power**(dt/mean gap) with dt/mean gap <= a few hundred, are those of the ticks far inside the 2e-5
    tolerance): 0, 1e3 and 1e6 units; for power-of-two units also 1.6e9 units (exact: 1.6e9*8 + ticks < 2^53); for
    integer units the unix-scale 1.6e9 (timestamps are multiples of 1/8 below 2^50: exact)."""
    out = [0.0, 1e3 * unit, 1e6 * unit]
    if math.frexp(unit)[0] == 0.5:
        out.append(1.6e9 * unit)
    if unit >= 1 and unit == int(unit):
        out.append(1.6e9)
    return out


def gen_clock(rng):
    unit = rng.choice(DEC_UNITS + POW2_UNITS + [1.0] * 4)
    return unit, rng.choice(shifts_for(unit))


def clock_family(rng):
    """In every run: ONE event corpus (ticks) expressed on every clock -- decimal units 1e-9 .. 1e6 without offset and
    with an offset of 1e6 units, power-of-two units with an offset of 1.6e9 units -- for both timed kernels and
    power 0.5 / 0.9 / 0.99.  Each matrix is judged by the definition on the ticks; the matrices of one
    (kernel, power) group are also compared with each other (`clock_group`)."""
    alpha = ALPHA[:rng.choice([2, 3, 4])]
    docs = []
    for L in (rng.choice([6, 8, 10]), 0, 1, rng.choice([4, 5, 12])):
        t, d = rng.choice([0, 3, 40]), []
        for _ in range(L):
            t += rng.choice([1, 1, 2, 4, 8, 8, 12, 16, 24])
            d.append([rng.choice(alpha), t])
        docs.append(d)
    settings = [("geometric", pw) for pw in GEO_POWERS] + [("flat", None)]
    variants = []
    for kf, pw in settings:
        ka = {"offset": rng.choice([0, 0, 1]), "normalize": rng.random() < 0.3}
        if pw is not None:
            ka["power"] = pw
        variants.append({"window_radii": rng.choice([2, 3, 5]), "kernel_functions": kf, "kernel_args": ka,
                         "window_orientations": rng.choice(["before", "after", "directional"]),
                         "normalize_windows": rng.random() < 0.4})
    # one setting with the default power (no kernel_args at all)
    variants.append({"window_radii": 3, "kernel_functions": "geometric", "window_orientations": "directional",
                     "normalize_windows": False})
    clocks = [(u, 0.0) for u in DEC_UNITS] + [(u, 1e6 * u) for u in DEC_UNITS] + [(1.0, 1.6e9), (1e3, 1.6e9)] \
        + [(u, 1.6e9 * u) for u in POW2_UNITS]
    out = []
    for g, kw in enumerate(variants):
        # every clock for the default-power and one more geometric setting; a random half of them for the others
        cl = clocks if g in (0, len(variants) - 1) else rng.sample(clocks, len(clocks) // 2)
        if kw["kernel_functions"] == "geometric" and (1e-4, 0.0) not in cl:
            cl = cl + [(1e-4, 0.0)]
        for unit, shift in cl:
            out.append({"kind": "timed", "docs": [[list(e) for e in d] for d in docs], "kw": dict(kw, kernel_args=dict(kw["kernel_args"])) if "kernel_args" in kw else dict(kw),
                        "unit": unit, "shift": shift, "clock_group": g})
    return out


def apply_boundaries(rng, case):
    """Boundary values of the numeric parameters relative to the corpus: radii 0, 1, len-1, len, len+1 and far beyond
    any sequence (the int16/int32 limits on both sides); kernel offsets at / beyond the window."""
    kw = case["kw"]
    variable = listify(kw.get("window_functions", "fixed"), 1)[0] == "variable"
    L = max([len(d) for d in case["docs"]] or [0])
    if not variable and rng.random() < 0.3:
        # (variable radii are a float formula of the frequencies: kept at small radii, see expected_radii)
        pool = [0, 1, max(L - 1, 0), L, L + 1] + BIG_RADII
        rad = kw["window_radii"]
        if isinstance(rad, list):
            kw["window_radii"] = [rng.choice(pool) if rng.random() < 0.7 else x for x in rad]
        else:
            kw["window_radii"] = rng.choice(pool)
    rads = listify(kw["window_radii"], 1)
    if max(rads) > 1000:
        kw["coo_initial_memory"] = "64k"        # the triple buffers are sized proportionally to the radius
    ka = kw.get("kernel_args")
    if ka and rng.random() < 0.25:
        for w, a in enumerate([ka] if isinstance(ka, dict) else ka):
            R = min(rads[min(w, len(rads) - 1)], 50)
            a["offset"] = rng.choice([R, R + 1, max(R - 1, 0), min(L, 50), 40])


def gen_docs_like(rng, kind, pool, nd, gap_scale=1, runs_of=None):
    """A corpus of the given kind over the token pool; runs_of: a token that also appears in runs of three
    (adjacent removed tokens: the all-mask n-gram)."""
    def seq(L):
        s = [rng.choice(pool) for _ in range(L)]
        if runs_of is not None and L >= 3 and rng.random() < 0.6:
            a = rng.randrange(L - 2)
            s[a:a + 3] = [runs_of] * 3
        return s
    docs = []
    for _ in range(nd):
        toks = seq(rng.choice([1, 2, 3, 5, 8, 10]))
        if kind in ("token", "ngram"):
            docs.append(toks)
        elif kind == "timed":
            t, d = rng.choice([0, 5]), []
            for tok in toks:
                t += rng.choice([0, 1, 2, 4, 8, 12]) * gap_scale
                d.append([tok, t])
            docs.append(d)
        else:
            docs.append([[tok] + [rng.choice(pool) for _ in range(rng.choice([0, 0, 1, 2]))] for tok in toks[:5]])
    return docs


def gen_history(rng, case):
    """The estimator's past: another corpus (other vocabulary size, other time scale, tokens that get removed/masked --
    also in runs --, other n-grams), fitted on the same object, then used for transform."""
    kw = case["kw"]
    pool = rng.sample(HIST_ALPHA, rng.choice([1, 2, 3, 6, 8]))
    removed = sorted(kw.get("excluded_tokens") or [])
    runs_of = None
    if removed:
        runs_of = rng.choice(removed)
        pool = pool + [runs_of] * 2
    if removed and rng.random() < 0.3:
        pool = pool[:1] + [runs_of] * 3          # a small past, mostly removed tokens (few rows, among them the all-mask one)
    h = {"docs": gen_docs_like(rng, case["kind"], pool, rng.choice([1, 2, 3]), rng.choice([1, 16, 1024]), runs_of),
         "how": rng.choice(["fit", "fit_transform"])}
    if case["kind"] == "timed":
        if "unit" in case:
            h["unit"], h["shift"] = gen_clock(rng)          # the past ran on another clock
        else:
            h["shift"] = rng.choice([0.0, 1e3, 1.6e9])
    if rng.random() < 0.6:
        h["transform"] = gen_docs_like(rng, case["kind"], pool + ["q"], rng.choice([1, 2]), 1, runs_of)
    return h


def gen_then(rng, case):
    """A later transform with the fitted estimator: the training corpus itself or another one (unseen tokens, removed
    tokens), optionally after an unrelated transform call."""
    toks = sorted(set(t for d in tokens_of(case) for t in d))
    if not toks:
        return None
    t = {"docs": "same"}
    if rng.random() < 0.6:
        pool = toks + ["q"]
        first = [d for d in case["docs"] if len(d)][:1]
        t["docs"] = [list(x) for x in first] + gen_docs_like(rng, case["kind"], pool, rng.choice([1, 2]), rng.choice([1, 4]))
    if case["kind"] == "timed" and "unit" in case:
        # the fitted mean gap is in the clock's unit: the later corpus is on the same clock (any valid offset)
        t["unit"] = case["unit"]
        t["shift"] = case.get("shift", 0.0) if t["docs"] == "same" else rng.choice(shifts_for(case["unit"]))
    elif case["kind"] == "timed":
        t["shift"] = case.get("shift", 0.0) if t["docs"] == "same" else rng.choice([0.0, 1.6e9])
    if rng.random() < 0.4:
        t["ignored"] = gen_docs_like(rng, case["kind"], toks + ["q"], 1, 16)
    return t


def add_call_history(rng, case, p_hist=P_HISTORY, p_then=P_THEN):
    if rng.random() < p_hist:
        case["history"] = gen_history(rng, case)
    if rng.random() < p_then:
        t = gen_then(rng, case)
        if t:
            case["then"] = t
    return case


def kernel_family(rng):
    """In every run: each vectorizer kind x each of its kernels with a kernel offset of 1 / 2 and kernel normalisation
    on / off, windows long enough for the offset to leave something (radius 3-4, documents of 6-10 tokens), window
    normalisation off and on -- so that the (offset, normalize) arithmetic of every kernel is exercised whatever the
    random stream draws."""
    out = []
    for kind in ("token", "ngram", "timed", "multi"):
        kernels = ["flat", "geometric"] if kind in ("timed", "multi") else ["flat", "harmonic", "geometric"]
        pool = list(ALPHA[:rng.choice([2, 3])])
        for kf in kernels:
            for off, norm in ((1, True), (2, True), (1, False)):
                kw = {"window_radii": rng.choice([3, 4]), "kernel_functions": kf,
                      "kernel_args": {"offset": off, "normalize": norm},
                      "window_orientations": rng.choice(["directional", "after", "before"]),
                      "normalize_windows": rng.random() < 0.3}
                if kf == "geometric" and rng.random() < 0.5:
                    kw["kernel_args"]["power"] = 0.5
                case = {"kind": kind, "kw": kw}
                if kind == "multi":
                    case["docs"] = [[[rng.choice(pool) for _ in range(rng.choice([1, 2, 3]))] for _ in range(rng.choice([5, 6]))]
                                    for _ in range(2)]
                else:
                    case["docs"] = gen_docs_like(rng, kind, pool, 2) + gen_docs_like(rng, kind, pool, 1)
                    case["docs"][0] = (case["docs"][0] * 4)[:rng.choice([6, 8, 10])] if kind != "timed" else case["docs"][0]
                    if kind == "timed":
                        t, d = 0, []
                        for _ in range(rng.choice([6, 8, 10])):
                            t += rng.choice([1, 2, 4, 8])
                            d.append([rng.choice(pool), t])
                        case["docs"][0] = d
                        case["unit"], case["shift"] = gen_clock(rng)
                    if kind == "ngram":
                        kw["ngram_size"] = 2
                out.append(case)
    return out


def gen_case(rng, kind=None):
    c = gen_case_plain(rng, kind, clocks=True)
    apply_boundaries(rng, c)
    return add_call_history(rng, c)


def gen_case_plain(rng, kind=None, clocks=False):
    """clocks (C03's own stream): timed corpora on a random clock (unit 1e-9 .. 1e6, offsets), powers 0.9 / 0.99"""
    kind = kind or rng.choice(["token", "token", "token", "ngram", "timed", "multi"])
    kw = gen_kw(rng, kind)
    if clocks and kind == "timed" and kw["kernel_functions"] in ("geometric", ["geometric"] * 2) and rng.random() < 0.5:
        ka = kw.get("kernel_args")
        pw = rng.choice(GEO_POWERS)
        if ka is None:
            nwin = len(listify(kw["window_radii"], 1))
            kw["kernel_args"] = {"power": pw} if nwin == 1 else [{"power": pw} for _ in range(nwin)]
        else:
            for a in ([ka] if isinstance(ka, dict) else ka):
                a["power"] = pw if "power" not in a or rng.random() < 0.5 else a["power"]
    alpha = ALPHA[:rng.randint(1, 5)]
    with_x = "excluded_tokens" in kw
    nd = rng.choice([1, 1, 2, 2, 3, 4, 5, 6])
    case = {"kind": kind, "kw": kw}
    if kind in ("token", "ngram"):
        docs = [gen_seq(rng, alpha, 12, with_x) for _ in range(nd)]
        if rng.random() < 0.03:
            docs = [[] for _ in range(rng.randint(0, 2))]
        case["docs"] = docs
        if kind == "ngram":
            kw["ngram_size"] = rng.choice([1, 2, 2, 3])
    elif kind == "timed":
        docs = []
        for _ in range(nd):
            toks = gen_seq(rng, alpha, 12, with_x)
            t, d = rng.choice([0, 3, 40]), []
            for tok in toks:
                t += rng.choice([0, 1, 1, 2, 4, 8, 12])
                d.append([tok, t])
            if clocks and len(d) >= 3 and rng.random() < 0.15:
                # events not in time order: the weight is a function of |t_q - t_p| (the windows stay positional)
                i = rng.randrange(len(d) - 1)
                d[i][1], d[i + 1][1] = d[i + 1][1], d[i][1]
            docs.append(d)
        case["docs"] = docs
        if clocks:
            case["unit"], case["shift"] = gen_clock(rng)
        else:
            case["shift"] = rng.choice([0.0, 1e3, 1.6e9])
    else:
        docs = []
        for _ in range(rng.choice([1, 1, 2, 3])):
            nm = rng.choice([1, 2, 3, 4, 6])
            docs.append([[rng.choice(list(alpha) + (["x"] if with_x else [])) for _ in range(rng.choice([0, 1, 1, 2, 3, 4]))]
                         for _ in range(nm)])
        case["docs"] = docs
    return case


CORPUS = [
    # D1 (lost last run), D26 (multiset offset), D25 (multiset radius of token 0), D11 (unix-scale timestamps)
    {"kind": "token", "docs": [["a", "a", "a"]], "kw": {"window_radii": 2, "normalize_windows": False}},
    {"kind": "multi", "docs": [[["a", "b"], ["c"], ["d", "a"]]],
     "kw": {"window_radii": 1, "kernel_functions": "flat", "normalize_windows": False, "window_orientations": "after",
            "kernel_args": {"offset": 1}}},
    {"kind": "multi", "docs": [[["a"], ["b"], ["a"], ["c"], ["a"], ["d"], ["a"], ["b"]]],
     "kw": {"window_radii": 3, "window_functions": "variable", "kernel_functions": "flat", "normalize_windows": False,
            "window_orientations": "after"}},
    {"kind": "timed", "shift": 1.6e9,
     "docs": [[["a", 0], ["b", 8], ["a", 20], ["c", 24]], [["b", 0], ["c", 16]]],
     "kw": {"window_radii": 2, "kernel_functions": "geometric", "normalize_windows": False, "window_orientations": "after"}},
    {"kind": "ngram", "docs": [["a", "b", "a", "b", "c"], ["b", "a"]],
     "kw": {"window_radii": 2, "ngram_size": 2, "normalize_windows": True, "kernel_functions": "harmonic"}},
]

# ------------------------------------------------------------------ the plan: what the documentation says the fit is

def listify(x, n):
    return list(x) if isinstance(x, (list, tuple)) else [x] * n


def tokens_of(case):
    k = case["kind"]
    if k in ("token", "ngram"):
        return [[t for t in d] for d in case["docs"]]
    if k == "timed":
        return [[t for t, _ in d] for d in case["docs"]]
    return [[t for ms in d for t in ms] for d in case["docs"]]


def plan_of(case):
    """Vocabulary, re-indexed documents and block list computed independently of the implementation."""
    kw = case["kw"]
    excl = set(kw.get("excluded_tokens") or [])
    mask_string = kw.get("mask_string")
    flat = [t for d in tokens_of(case) for t in d]
    mn, mx = kw.get("min_occurrences"), kw.get("max_occurrences")      # (used by C14's family stream, not for n-grams)
    cnt = {}
    for t in flat:
        cnt[t] = cnt.get(t, 0) + 1
    kept = sorted(t for t in cnt if t not in excl and (mn is None or cnt[t] >= mn) and (mx is None or cnt[t] <= mx))
    vocab = {t: i for i, t in enumerate(kept)}
    if not flat or not kept and (mask_string is None or listify(kw.get("window_functions", "fixed"), 1)[0] == "variable"):
        return {"error": "ValueError"}      # nothing to count (variable radii of an empty frequency table: undefined)
    mask_id = None
    if mask_string is not None:
        mask_id = len(vocab)
        vocab[mask_string] = mask_id
    n = len(vocab)

    def ridx(seq, get=lambda x: x, put=lambda x, i: i):
        out = []
        for it in seq:
            t = get(it)
            if t in vocab and t not in excl and t != mask_string:
                out.append(put(it, vocab[t]))
            elif mask_id is not None:
                out.append(put(it, mask_id))
        return out
    k = case["kind"]

    def reindex(raw_docs):
        if k in ("token", "ngram"):
            return [ridx(d) for d in raw_docs]
        if k == "timed":
            return [ridx(d, lambda it: it[0], lambda it, i: (i, it[1])) for d in raw_docs]
        return [[ridx(ms) for ms in d] for d in raw_docs]
    docs = reindex(case["docs"])
    # per-window parameters, then the orientation expansion (directional = [before, after])
    radii_in = kw.get("window_radii", 5)
    radii = listify(radii_in, 1)
    nwin = len(radii)
    orient = listify(kw.get("window_orientations", "directional"), nwin)
    kargs = kw.get("kernel_args")
    kargs = [dict(kargs)] * nwin if isinstance(kargs, dict) else ([dict(a) for a in kargs] if kargs else [{} for _ in range(nwin)])
    mix = kw.get("mix_weights") or [1.0] * nwin
    nullify = bool(kw.get("nullify_mask", False))
    blocks, labels = [], {}
    for w in range(nwin):
        for rev in {"before": [True], "after": [False], "directional": [True, False]}[orient[w]]:
            a = kargs[w]
            kblk = len(blocks)
            blocks.append({"rev": rev, "win": w, "R": int(radii[w]), "kind": listify(kw.get("kernel_functions", "flat"), 1)[0],
                           "power": F(a.get("power", 0.9)).limit_denominator(1000), "norm": bool(a.get("normalize", False)),
                           "off": int(a.get("offset", 0)), "mix": F(mix[w]),
                           "mask": mask_id if nullify else None})
            for t, i in vocab.items():
                labels[("pre_" if rev else "post_") + str(w) + "_" + str(t)] = i + kblk * n
    p = {"vocab": vocab, "n": n, "docs": docs, "blocks": blocks, "labels": labels, "mask_id": mask_id, "nullify": nullify,
         "variable": listify(kw.get("window_functions", "fixed"), 1)[0] == "variable", "kind": k, "reindex": reindex}
    # rows
    if k == "ngram":
        size = int(kw.get("ngram_size", 2))
        grams = sorted(set(tuple(d[a:a + size]) for d in docs for a in range(len(d) - size + 1)))
        if not grams:
            return {"error": "ValueError"}
        p["size"], p["grams"] = size, {g: i for i, g in enumerate(grams)}
        p["n_rows"] = len(grams)
        inv = {i: t for t, i in vocab.items()}
        p["gram_labels"] = {"_".join(str(inv[x]) for x in g): i for g, i in p["grams"].items()}
    else:
        p["n_rows"] = n
    # frequencies for the variable radii (counts over all tokens, the pruned ones included in the total)
    if k == "ngram":
        allg = [tuple(d[a:a + p["size"]]) for d in docs for a in range(len(d) - p["size"] + 1)]
        p["freq"] = [F(sum(1 for g in allg if g == gg), len(allg)) for gg in sorted(p["grams"], key=p["grams"].get)]
        p["freq_rows_mask"] = None
        if nullify and mask_id is not None:
            mg = tuple([mask_id] * p["size"])
            p["freq_rows_mask"] = p["grams"].get(mg)
    else:
        p["freq"] = [F(sum(1 for t in flat if t == tok), len(flat)) for tok in kept]
    if k == "timed":
        gaps = [b[1] - a[1] for d in docs for a, b in zip(d, d[1:])]
        p["delta_mean"] = F(sum(gaps), 8 * max(1, len(gaps)))     # ticks are 1/8 time units
    return p


def plan_then(case, p):
    """The plan of a later transform(Y): fitted vocabulary, n-gram rows, radii and mean gap; Y re-indexed (unseen and
    removed tokens are deleted, or replaced by the mask)."""
    t = case["then"]
    q = dict(p)
    q["docs"] = p["docs"] if t["docs"] == "same" else p["reindex"](t["docs"])
    return q


def expected_radii(p, impl_radii):
    """Per-block radius tables.  fixed: exact.  variable: the implementation's table is accepted when it agrees with
    the real-valued formula R*f^(p-1)/sum(f^p) rounded half-even (entries within 1e-6 of a tie are not judged)."""
    out, problems = [], []
    for bi, b in enumerate(p["blocks"]):
        nfreq = len(p["freq"])
        if not p["variable"]:
            tab = [b["R"]] * (nfreq + 1)
            if p["kind"] == "ngram":
                if p.get("freq_rows_mask") is not None:
                    tab[p["freq_rows_mask"]] = 0
            elif p["nullify"] and p["mask_id"] is not None:
                tab[p["mask_id"]] = 0
            out.append(tab)
            if impl_radii is not None and (bi >= len(impl_radii) or list(impl_radii[bi]) != tab):
                problems.append("fixed radius table of block %d: impl %s, expected %s (radius %d for every row%s)"
                                % (bi, str(impl_radii[bi] if bi < len(impl_radii) else None)[:120], str(tab)[:120], b["R"],
                                   ", 0 for the nullified mask" if 0 in tab and b["R"] else ""))
            continue
        f = [float(x) for x in p["freq"]]
        pw = 0.75
        base = [x ** (pw - 1) for x in f]
        s = sum(x ** pw for x in f)
        real = [b["R"] * x / s for x in base]
        real.append(min(real))
        mi = p.get("freq_rows_mask") if p["kind"] == "ngram" else (p["mask_id"] if p["nullify"] else None)
        if mi is not None and mi < len(real):
            real[mi] = 0.0
        got = list(impl_radii[bi]) if impl_radii is not None and bi < len(impl_radii) else None
        tab = []
        for j, x in enumerate(real):
            exp = 1 if 0 < x < 1 else int(round(x))
            if got is not None and j < len(got):
                tie = abs(x - math.floor(x) - 0.5) < 1e-6 or abs(x - 1) < 1e-6
                if got[j] != exp and not tie:
                    problems.append("variable radius of row %d in block %d: impl %d, formula %.6f" % (j, bi, got[j], x))
                tab.append(exp if not tie else got[j])
            else:
                tab.append(exp)
        out.append(tab)
    return out, problems

# ------------------------------------------------------------------ SPEC (pointwise, exact fractions)

def kweight(b, dist):
    if b["kind"] == "flat":
        return F(1)
    if b["kind"] == "harmonic":
        return F(1, dist)
    return b["power"] ** dist


def timed_weight(b, delta_ticks, delta_mean):
    if b["kind"] == "flat":
        return F(1)
    if delta_mean == 0:
        return None
    x = float(F(delta_ticks, 8) / delta_mean)
    return F(float(b["power"]) ** x)


class Exactness:
    """Set as MON while a SPEC is evaluated: records whether every intermediate value is a dyadic rational small
    enough for the float64 kernel stage (v64) and the float32 matrix stage (v32: multiples of 2^-10 below 2^12, so
    every partial sum of non-negative terms, in any order, fits the 24-bit significand).  IEEE operations whose exact
    result is representable do not round, so on such a trace the implementation's floats equal the exact fractions."""
    def __init__(self):
        self.ok = True

    def v64(self, x):
        d = F(x).denominator
        if d & (d - 1) or d > 2 ** 20 or abs(x) >= 2 ** 20:
            self.ok = False

    def v32(self, x):
        d = F(x).denominator
        if d & (d - 1) or d > 2 ** 10 or abs(x) >= 2 ** 12:
            self.ok = False

    def fail(self):
        self.ok = False


MON = None


def occ_contrib(M, n, row, per_block, nw):
    """per_block: list of dicts slot -> (context token, weight incl. mix).  Adds val = w/total for val > 0."""
    tot = F(1)
    if nw:
        t = sum((w for blk in per_block for _, w in blk.values()), F(0))
        if t > 0:
            tot = t
    for i, blk in enumerate(per_block):
        for ctx, w in blk.values():
            v = w / tot
            if MON is not None:
                MON.v32(v)
            if v > 0:
                M[(row, ctx + i * n)] = M.get((row, ctx + i * n), F(0)) + v
                if v.denominator > M.get("maxden", 1):
                    M["maxden"] = v.denominator          # bookkeeping for float32_exact (removed by spec)


def norm_block(b, raw):
    if MON is not None:
        if b["kind"] == "geometric" and b["power"].numerator != 1:
            MON.fail()            # pow() is only relied upon for powers of two
        for _, v in raw.values():
            MON.v64(v)
    if b["norm"]:
        s = sum((v for _, v in raw.values()), F(0))
        if s > 0:
            raw = {q: (c, v / s) for q, (c, v) in raw.items()}
    out = {q: (c, b["mix"] * v) for q, (c, v) in raw.items()}
    if MON is not None:
        for _, v in list(raw.values()) + list(out.values()):
            MON.v64(v)
    return out


def occurrences(p, radii):
    """Pointwise: every target occurrence as (row, [per block: {slot: (context token, mix-weighted kernel value)}]).
    Returns None when the definition is undefined (timed geometric kernel with mean gap 0)."""
    occs, kind = [], p["kind"]
    if kind in ("token", "ngram", "timed"):
        for d in p["docs"]:
            L = len(d)
            tok = (lambda q, d=d: d[q][0]) if kind == "timed" else (lambda q, d=d: d[q])
            if kind == "ngram":
                size = p["size"]
                anchors = [(p["grams"][tuple(d[a:a + size])], a, a + size - 1) for a in range(L - size + 1)
                           if tuple(d[a:a + size]) in p["grams"]]
            else:
                anchors = [(tok(q), q, q) for q in range(L)]
            for row, pb, pa in anchors:
                per_block = []
                for bi, b in enumerate(p["blocks"]):
                    anchor, R = (pb if b["rev"] else pa), radii[bi][row]
                    raw = {}
                    for q in range(L):
                        inw = (anchor - R <= q < anchor) if b["rev"] else (anchor < q <= anchor + R)
                        if not inw:
                            continue
                        dist = abs(q - anchor)
                        if dist <= b["off"] or (b["mask"] is not None and tok(q) == b["mask"]):
                            v = F(0)
                        elif kind == "timed":
                            v = timed_weight(b, abs(d[q][1] - d[anchor][1]), p["delta_mean"])
                            if MON is not None and b["kind"] != "flat":
                                MON.fail()
                            if v is None:
                                return None          # mean gap 0 with a geometric kernel: the definition divides by 0
                        else:
                            v = kweight(b, dist)
                        raw[q] = (tok(q), v)
                    per_block.append(norm_block(b, raw))
                occs.append((row, per_block))
    else:
        for doc in p["docs"]:
            for m, ms in enumerate(doc):
                for s, tgt in enumerate(ms):
                    per_block = []
                    for bi, b in enumerate(p["blocks"]):
                        R = radii[bi][tgt]
                        raw = {}
                        for q in range(len(doc)):
                            inw = q == m or ((m - R <= q < m) if b["rev"] else (m < q <= m + R))
                            if not inw:
                                continue
                            k = abs(q - m)
                            for s2, t in enumerate(doc[q]):
                                # (a target that is the nullified mask has no contexts: its row is zero -- D31)
                                if k < b["off"] or (b["mask"] is not None and (t == b["mask"] or tgt == b["mask"])) or (q == m and s2 == s):
                                    v = F(0)
                                else:
                                    v = F(1) if b["kind"] == "flat" else b["power"] ** k
                                raw[(q, s2)] = (t, v)
                        per_block.append(norm_block(b, raw))
                    occs.append((tgt, per_block))
    return occs


def spec(p, radii, nw):
    occs = occurrences(p, radii)
    if occs is None:
        return None
    M = {}
    for row, per_block in occs:
        occ_contrib(M, p["n"], row, per_block, nw)
    p["maxden"] = M.pop("maxden", 1)
    return M


def float32_exact(p, S):
    """Dyadic events whose every partial sum fits the 24-bit significand of the float32 accumulator."""
    d = p.get("maxden", 1)
    return d & (d - 1) == 0 and (not S or d * max(S.values()) < 2 ** 24)

# ------------------------------------------------------------------ Coq rendering

def qc(x):
    x = F(x)
    return "(qc %s %d)" % (C.z(x.numerator), x.denominator)


def nl(xs):
    return "[" + "; ".join(str(int(x)) for x in xs) + "]"


MODEL_RADIUS_MAX = 2 ** 17


def nl_radii(xs, cap):
    """Radii are `nat`s in the model: up to 2^17 the model is evaluated at the true radius (unary numbers built inside
    vm_compute by Z.to_nat); beyond, at cap = (longest sequence + 1), which gives the same windows
    (C03_window_radius_saturates / C03_multi_window_radius_saturates)."""
    def one(x):
        x = int(x)
        if x > MODEL_RADIUS_MAX:
            x = max(cap, 1)
        return str(x) if x <= 200 else "(Z.to_nat %d%%Z)" % x
    return "[" + "; ".join(one(x) for x in xs) + "]"


def coq_block(b, radii, timed_table=None, cap=1):
    radii_txt = nl_radii(radii, cap)
    mask = "None" if b["mask"] is None else "(Some %d)" % b["mask"]
    if timed_table is not None:
        g = "(fun _ => 1%Qc)" if b["kind"] == "flat" else "(table_get [%s])" % "; ".join(
            "(%d%%Z, %s)" % (k, qc(v)) for k, v in sorted(timed_table.items()))
        return "(mktblock %s %s %s %s %s %d %s)" % (C.coq_bool(b["rev"]), radii_txt, g, mask, C.coq_bool(b["norm"]), b["off"], qc(b["mix"]))
    kf = {"flat": "kf_flat", "harmonic": "kf_harmonic"}.get(b["kind"]) or "(kf_geometric %s)" % qc(b["power"])
    return "(mkblock %s %s %s %s %s %d %s)" % (C.coq_bool(b["rev"]), radii_txt, kf, mask, C.coq_bool(b["norm"]), b["off"], qc(b["mix"]))


def coq_parts(p, radii):
    """(events driver, occurrence-list function, blocks, trailing arguments) of the Coq model call for this plan."""
    kind = p["kind"]
    cap = max([len(d) for d in p["docs"]] or [0]) + 1
    if kind == "timed":
        tables = []
        for b in p["blocks"]:
            tab = {}
            if b["kind"] != "flat":
                for d in p["docs"]:
                    for a in d:
                        for c in d:
                            dt = abs(a[1] - c[1])
                            if dt not in tab:
                                tab[dt] = timed_weight(b, dt, p["delta_mean"])
            tables.append(tab)
        blocks = "[" + "; ".join(coq_block(b, radii[i], tables[i], cap) for i, b in enumerate(p["blocks"])) + "]"
        docs = "[" + "; ".join("[" + "; ".join("(%d, %d%%Z)" % (t, k) for t, k in d) + "]" for d in p["docs"]) + "]"
        return "timed_events zabsdiff 0%Z", "timed_occs zabsdiff 0%Z", blocks, docs
    blocks = "[" + "; ".join(coq_block(b, radii[i], None, cap) for i, b in enumerate(p["blocks"])) + "]"
    if kind == "token":
        return "token_events", "token_occs", blocks, "[" + "; ".join(nl(d) for d in p["docs"]) + "]"
    if kind == "ngram":
        dic = "[" + "; ".join("(%s, %d)" % (nl(g), i) for g, i in sorted(p["grams"].items(), key=lambda x: x[1])) + "]"
        return "ngram_events", "ngram_occs", blocks, "%s %d %s" % (dic, p["size"], "[" + "; ".join(nl(d) for d in p["docs"]) + "]")
    docs = "[" + "; ".join("[" + "; ".join(nl(ms) for ms in d) + "]" for d in p["docs"]) + "]"
    return "multi_events", "multi_occs", blocks, docs


def coq_events(p, radii, nw):
    ev, _, blocks, tail = coq_parts(p, radii)
    return "(%s %s %s %d %s)" % (ev, blocks, C.coq_bool(nw), p["n"], tail)


def coq_expr(p, radii, nw):
    return "show_matrix " + coq_events(p, radii, nw)


def model_matrix(val):
    return {(r, c): F(num, den) for (r, c, (num, den)) in val}

# ------------------------------------------------------------------ comparison

def is_exact(p, nw):
    if nw or p["kind"] == "timed" and any(b["kind"] != "flat" for b in p["blocks"]):
        return False
    for b in p["blocks"]:
        if b["norm"] or b["kind"] == "harmonic":
            return False
        if b["kind"] == "geometric" and b["power"] not in (F(1, 2), F(1, 4), F(1)):
            return False
    return True


def diff_matrix(expected, triples, exact):
    """expected: {(r,c): Fraction}; triples: [[r,c,float]].  Returns None or a description of the first difference."""
    got = {(r, c): v for r, c, v in triples}
    for key in sorted(set(expected) | set(got)):
        e, g = expected.get(key, F(0)), got.get(key, 0.0)
        if exact:
            if F(g) != e:
                return "cell %s: expected %s, got %r" % (key, e, g)
        else:
            ef = float(e)
            if not (abs(ef - g) <= REL * max(abs(ef), abs(g)) + ABS):
                return "cell %s: expected %.9g, got %.9g" % (key, ef, g)
    return None


def diff_events(model_events, impl_events, p, nw):
    """The appended events, in loop order: model (blk, row, col, (num, den)) vs the recorded coo_append calls."""
    if len(model_events) != len(impl_events):
        return "event lists differ in length: model %d, implementation %d" % (len(model_events), len(impl_events))
    exact = is_exact(p, nw) and max([den for _, _, _, (_, den) in model_events] or [1]) < 2 ** 24
    for k, ((blk, r, c, (num, den)), (ri, ci, vi)) in enumerate(zip(model_events, impl_events)):
        v = F(num, den)
        same = (F(vi) == v) if exact else abs(float(v) - vi) <= REL * max(abs(float(v)), abs(vi)) + ABS
        if (r, c) != (ri, ci) or not same or not (blk * p["n"] <= c < (blk + 1) * p["n"]):
            return "event %d differs: model (block %d, row %d, col %d, %s), implementation (%d, %d, %r)" % (k, blk, r, c, v, ri, ci, vi)
    return None


def nontrivial(p):
    return "error" not in p and any(len(x) > 1 for x in (p["docs"] if p["kind"] != "multi" else [[t for ms in d for t in ms] for d in p["docs"]]))


def kind_key(case, p):
    kw = case["kw"]
    big = max(listify(kw.get("window_radii", 5), 1)) >= 32768
    return "%s:%s:%s%s%s%s%s%s" % (case["kind"], listify(kw.get("kernel_functions", "flat"), 1)[0], listify(kw.get("window_functions", "fixed"), 1)[0],
                                   ":mask" if kw.get("mask_string") else (":excl" if kw.get("excluded_tokens") else ""),
                                   ":nw" if kw.get("normalize_windows", True) else "", ":R>=2^15" if big else "",
                                   "+past" if case.get("history") else "", "+then" if case.get("then") else "")


def past_note(case):
    h = case.get("history")
    return "" if not h else " [estimator with a past: %s on another corpus%s first]" % (
        h.get("how", "fit_transform"), " + transform" if h.get("transform") is not None else "")


def judge_then(ctx, case, p, radii, nw, got, model_val, stats):
    """transform(Y) with the fitted estimator = the same definition on Y re-indexed by the fitted vocabulary, with the
    fitted rows, radii and (timed) mean gap."""
    if "err" in got:
        ctx.report("transform after fit raised %s: %s%s" % (got["err"], got.get("msg", ""), past_note(case)),
                   {"stage": "oracle", "case": case, "actual": got})
        return None
    q = plan_then(case, p)
    if got["shape"] != [p["n_rows"], p["n"] * len(p["blocks"])]:
        ctx.report("transform: shape %s, expected %s" % (got["shape"], [p["n_rows"], p["n"] * len(p["blocks"])]),
                   {"stage": "oracle", "case": case})
        return None
    S = spec(q, radii, nw)
    if S is None:
        return None
    exact = is_exact(q, nw) and float32_exact(q, S)
    d = diff_matrix(S, got["triples"], exact)
    if d is not None:
        ctx.report("transform(%s) after fit differs from the windowed, kernel-weighted count definition over the fitted "
                   "vocabulary (%s): %s%s" % ("X" if case["then"]["docs"] == "same" else "Y", "exact" if exact else "rel 2e-5", d,
                                              past_note(case)),
                   {"stage": "oracle", "case": case, "expected": sorted([k[0], k[1], float(v)] for k, v in S.items()),
                    "actual": got["triples"]})
        return None
    stats["then_ok"] += 1
    if model_val is None:
        return None
    Mm = model_matrix(model_val)
    if Mm != S and not (p["kind"] == "timed" and all(abs(float(Mm.get(k, 0)) - float(S.get(k, 0))) <= 1e-12 for k in set(Mm) | set(S))):
        return "transform: model (Coq) and SPEC differ: %s vs %s" % (str(sorted(Mm.items()))[:200], str(sorted(S.items()))[:200])
    stats["then_corr"] += 1
    return None


def judge(ctx, case, res, model_val, stats, replay_mode=False, model_then=None):
    """Oracle + correspondence for one case.  Returns a correspondence-disagreement description or None."""
    p = plan_of(case)
    nw = bool(case["kw"].get("normalize_windows", True))
    ctx.count_case(case, nontrivial=nontrivial(p), kind=kind_key(case, p))
    if "error" in p:
        # no kept token / n-gram at all: nothing to count; the only demand is a Python exception (no crash, no matrix)
        stats["expected_error"] += 1
        if res.get("err") == "crash" or ("ok" in res and res["ok"]["triples"]):
            ctx.report("a corpus without any kept token / n-gram has nothing to count, got %s" % str(res)[:200],
                       {"stage": "oracle", "case": case, "actual": res})
        return None
    if "err" in res:
        ctx.report("implementation raised %s on a valid input: %s%s" % (res["err"], res.get("msg", ""), past_note(case)),
                   {"stage": "oracle", "case": case, "actual": res})
        return None
    out = res["ok"]
    if case.get("history"):
        stats["with_past"] += 1
    radii, problems = expected_radii(p, out["radii"])
    state_problems = []        # fitted attributes that differ while no matrix is (yet) affected: reported last
    for pr in problems[:1]:
        if p["variable"]:
            ctx.report("window radii differ from the window function: " + pr + past_note(case),
                       {"stage": "oracle", "case": case, "actual": out["radii"]})
        else:
            state_problems.append("window radii differ from the window function: " + pr)
    # vocabulary, rows, column blocks in the declared order
    if out["vocab"] != {str(k): v for k, v in p["vocab"].items()}:
        ctx.report("token dictionary differs: expected %s, got %s%s" % (p["vocab"], out["vocab"], past_note(case)), {"stage": "oracle", "case": case})
        return None
    if out["cols"] != p["labels"]:
        ctx.report("column blocks are not in the declared (window, orientation) order: expected %s, got %s"
                   % (str(p["labels"])[:300], str(out["cols"])[:300]), {"stage": "oracle", "case": case, "expected": p["labels"], "actual": out["cols"]})
        return None
    if out["shape"] != [p["n_rows"], p["n"] * len(p["blocks"])]:
        ctx.report("shape %s, expected %s" % (out["shape"], [p["n_rows"], p["n"] * len(p["blocks"])]), {"stage": "oracle", "case": case})
        return None
    if p["kind"] == "ngram" and out["ngrams"] != p["gram_labels"]:
        ctx.report("n-gram rows differ: expected %s, got %s" % (p["gram_labels"], out["ngrams"]), {"stage": "oracle", "case": case})
        return None
    S = spec(p, radii, nw)
    if S is None:
        stats["undefined"] += 1
        return None
    exact = is_exact(p, nw) and float32_exact(p, S)
    stats["exact" if exact else "tolerance"] += 1
    d = diff_matrix(S, out["triples"], exact)
    if d is not None:
        ctx.report("matrix differs from the windowed, kernel-weighted count definition (%s): %s%s"
                   % ("exact" if exact else "rel 2e-5", d, past_note(case)),
                   {"stage": "oracle", "case": case, "expected": sorted([k[0], k[1], float(v)] for k, v in S.items()),
                    "actual": out["triples"]})
        return None
    stats["oracle_ok"] += 1
    if p["kind"] == "timed" and case.get("history") and "delta_mean" in out and any(b["kind"] != "flat" for b in p["blocks"]):
        # the mean gap handed to the timed geometric kernel is that of the corpus being fitted
        dm = float(p["delta_mean"]) * float(case.get("unit", 1.0))
        if abs(out["delta_mean"] - dm) > 1e-7 * abs(dm) + 1e-9 * float(case.get("unit", 1.0)):
            state_problems.append("delta_mean_ = %r, the mean gap of the fitted corpus is %r" % (out["delta_mean"], dm))
    d_then = None
    if case.get("then") and "then" in out:
        nv = len(ctx.violations)
        d_then = judge_then(ctx, case, p, radii, nw, out["then"], model_then, stats)
        if len(ctx.violations) > nv:
            return None
    if state_problems:
        # the matrices of this input are as defined, but what the estimator keeps for later calls is not
        # -> reported like a correspondence disagreement (only when no property-level failure is found in the run)
        return "fitted state: " + state_problems[0] + past_note(case) + " (the matrices of this input are not affected)"
    if model_val is None:
        return d_then
    stats["corr"] += 1
    Mm = model_matrix(model_val)
    if Mm != S:
        keys = [k for k in sorted(set(Mm) | set(S)) if Mm.get(k) != S.get(k)]
        if p["kind"] == "timed" and all(abs(float(Mm.get(k, 0)) - float(S.get(k, 0))) <= 1e-12 for k in keys):
            pass
        else:
            return "model (Coq) and SPEC differ at %s: model %s, spec %s" % (keys[0], Mm.get(keys[0]), S.get(keys[0]))
    d = diff_matrix(Mm, out["triples"], exact)
    if d is not None:
        return "model (Coq) and implementation differ: " + d
    p["exact"] = exact
    return d_then


def shrink(case):
    """Greedy removal of documents / tokens while the oracle still fails (each round = one child process)."""
    def fails(cs):
        rr, _ = C.run_impl("c03", cs, {"NUMBA_DISABLE_JIT": "1"})
        out = []
        for c, r in zip(cs, rr or []):
            tmp = C.Ctx("C03", "quick", 0)
            tmp.report = lambda *a, **k: tmp.violations.append(1) if k.get("found_input", True) else None
            try:
                judge(tmp, c, r, None, {k: 0 for k in STAT_KEYS})
            except Exception:
                pass
            out.append(bool(tmp.violations))
        return out
    cur = case
    for _ in range(4):
        cands = []
        docs = cur["docs"]
        for i in range(len(docs)):
            if len(docs) > 1:
                cands.append(dict(cur, docs=docs[:i] + docs[i + 1:]))
            for j in range(len(docs[i])):
                cands.append(dict(cur, docs=docs[:i] + [docs[i][:j] + docs[i][j + 1:]] + docs[i + 1:]))
        cands = [c for c in cands if any(len(d) for d in c["docs"])][:60]
        if not cands:
            break
        f = fails(cands)
        nxt = [c for c, bad in zip(cands, f) if bad]
        if not nxt:
            break
        cur = nxt[0]
    return cur


STAT_KEYS = ["expected_error", "undefined", "exact", "tolerance", "oracle_ok", "corr", "with_past", "then_ok", "then_corr"]


N_JIT_QUICK, N_JIT_THOROUGH = 8, 160


JIT_BUDGET_S = {"quick": 150, "thorough": 1000}


def start_compiled(ex, cases, n_jit, budget=150):
    """The first n_jit cases also run compiled, one child per vectorizer kind (each distinct kernel / argument type
    signature costs seconds of numba compilation, so the volume runs interpreted)."""
    jit_idx = {}
    for i, c in enumerate(cases[:n_jit]):
        jit_idx.setdefault(c["kind"], []).append(i)
    # C.run_impl names its scratch files by (script, pid, millisecond): concurrent calls are staggered
    return jit_idx, {k: ex.submit(delayed_impl, 0.05 * (j + 1), [cases[i] for i in ix], None, budget)
                     for j, (k, ix) in enumerate(sorted(jit_idx.items()))}


def delayed_impl(delay, cases, env=None, budget=1800):
    """The compiled runs are an extra execution mode on top of the interpreted volume: they get a wall-clock budget
    (numba compilation time depends on the machine load); cases not reached within it are simply not compared
    (rc 124 = budget exhausted, recorded in evidence; any other non-zero rc is a dead child and is reported)."""
    import time
    time.sleep(delay)
    return C.run_impl("c03", cases, env, timeout=budget)


def collect_compiled(jit_idx, futs):
    jit, jit_info = {}, {}
    for k, f in futs.items():
        rr, inf = f.result()
        jit_info[k] = inf
        for j, i in enumerate(jit_idx[k]):
            if rr is not None and j < len(rr):
                jit[i] = rr[j]
            elif inf["rc"] != 124:
                jit[i] = {"err": "crash", "msg": inf["tail"][-300:]}
    return jit, jit_info


def mode_tie(case, a, b):
    """Both radius tables are acceptable values of the variable window function (they differ only at rounding ties)."""
    p = plan_of(case)
    if "error" in p or not p["variable"]:
        return False
    return not expected_radii(p, a["ok"]["radii"])[1] and not expected_radii(p, b["ok"]["radii"])[1]


def same_result(a, b):
    if ("ok" in a) != ("ok" in b):
        return False
    if "ok" not in a:
        return True
    x, y = a["ok"], b["ok"]
    if any(x[k] != y[k] for k in ("shape", "vocab", "cols", "radii", "reversals")):
        return False
    if ("then" in x) != ("then" in y) or ("then" in x and ("triples" in x["then"]) != ("triples" in y["then"])):
        return False
    tx, ty = {(r, c): v for r, c, v in x["triples"]}, {(r, c): v for r, c, v in y["triples"]}
    if "triples" in x.get("then", {}):
        tx.update({("then", r, c): v for r, c, v in x["then"]["triples"]})
        ty.update({("then", r, c): v for r, c, v in y["then"]["triples"]})
    return all(abs(tx.get(k, 0.0) - ty.get(k, 0.0)) <= REL * max(abs(tx.get(k, 0.0)), abs(ty.get(k, 0.0))) + ABS
               for k in set(tx) | set(ty))


def run(ctx, replay=None):
    C.run_gate(ctx)
    n = 400 if ctx.quick else 5000
    n_model = 310 if ctx.quick else 1330
    if replay:
        cases = [replay["case"]]
    else:
        cases = list(CORPUS) + clock_family(ctx.rng) + kernel_family(ctx.rng) + [gen_case(ctx.rng) for _ in range(n)]
    from concurrent.futures import ThreadPoolExecutor
    ex = ThreadPoolExecutor(max_workers=6)
    jit_idx, futs = start_compiled(ex, cases, N_JIT_QUICK if ctx.quick else N_JIT_THOROUGH, JIT_BUDGET_S[ctx.tier])
    # event-level correspondence (interpreted run only): small cases log every coo_append call in order
    n_ev = 0
    for c in cases:
        if n_ev >= (60 if ctx.quick else 400) and not replay:
            break
        if sum(len(t) for t in tokens_of(c)) <= 16 and c["kw"].get("n_iter", 0) == 0:
            c["log_events"] = True
            n_ev += 1
    # all cases interpreted (NUMBA_DISABLE_JIT=1: python semantics of the same source, ~ms per case)
    impl, info = C.run_impl("c03", cases, {"NUMBA_DISABLE_JIT": "1"})
    if impl is None or len(impl) != len(cases):
        done = len(impl) if impl else 0
        ctx.report("implementation child died (rc=%s) on case %d: %s" % (info["rc"], done, info["tail"][-400:]),
                   {"stage": "impl-crash", "case": cases[done] if done < len(cases) else None}, found_input=True)
        impl = (impl or []) + [{"err": "crash"}] * (len(cases) - done)
    # model evaluation (needs the variable radii, which are taken from the implementation after validation)
    exprs, idx = [], []
    for i, (c, r) in enumerate(zip(cases, impl)):
        if len(exprs) >= n_model and not replay:
            break
        p = plan_of(c)
        if "error" in p or "ok" not in r:
            continue
        if p["kind"] == "timed" and p["delta_mean"] == 0 and any(b["kind"] != "flat" for b in p["blocks"]):
            continue
        radii, _ = expected_radii(p, r["ok"]["radii"])
        exprs.append(coq_expr(p, radii, bool(c["kw"].get("normalize_windows", True))))
        idx.append(i)
        if "events" in r["ok"]:
            exprs.append("show_events " + coq_events(p, radii, bool(c["kw"].get("normalize_windows", True))))
            idx.append(("ev", i))
        if c.get("then") and "triples" in r["ok"].get("then", {}):
            exprs.append(coq_expr(plan_then(c, p), radii, bool(c["kw"].get("normalize_windows", True))))
            idx.append(("then", i))
    model = {}
    try:
        vals = C.coq_eval_sharded("C03", HEADER, exprs, shard=20, jobs=8)
        model = dict(zip(idx, vals))
    except Exception as e:
        ctx.report("model evaluation in Coq failed: %s" % str(e)[-1200:], {"stage": "correspondence", "error": str(e)[-3000:]},
                   found_input=False)
    jit, jit_info = collect_compiled(jit_idx, futs)
    ex.shutdown()
    n_mode_ties = 0
    for i, rj in sorted(jit.items()):
        if rj.get("err") == "crash":
            ctx.report("compiled-mode implementation child died: %s" % rj.get("msg", ""), {"stage": "impl-crash", "case": cases[i]})
            break
        if "ok" in rj and "ok" in impl[i] and rj["ok"]["radii"] != impl[i]["ok"]["radii"] and mode_tie(cases[i], rj, impl[i]):
            # a variable radius within 1e-6 of a rounding tie (e.g. exactly 1.5): numpy and numba round it differently;
            # both tables agree with the window function, each mode is judged on its own table
            n_mode_ties += 1
            if "events" not in impl[i].get("ok", {}):
                impl[i] = rj
        elif not same_result(rj, impl[i]):
            ctx.report("compiled and interpreted execution differ: %s vs %s" % (str(rj)[:250], str(impl[i])[:250]),
                       {"stage": "oracle", "case": cases[i], "compiled": rj, "interpreted": impl[i]})
        elif "ok" in rj:
            if "events" in impl[i].get("ok", {}):
                rj["ok"]["events"] = impl[i]["ok"]["events"]
            impl[i] = rj           # judge the compiled result where there is one
    ctx.coverage["modes"] = {"NUMBA_DISABLE_JIT=1": len(impl), "compiled": len(jit),
                             "compiled_wall_s": {k: v["wall_s"] for k, v in jit_info.items()},
                             "compiled_budget_exhausted": sorted(k for k, v in jit_info.items() if v["rc"] == 124),
                             "variable_radius_ties_rounded_differently_by_the_two_modes": n_mode_ties}
    stats = {k: 0 for k in STAT_KEYS}
    corr_bad = []
    before = len(ctx.violations)
    n_shrunk = 0
    n_ev_ok = 0
    for i, (c, r) in enumerate(zip(cases, impl)):
        nv = len(ctx.violations)
        d = judge(ctx, c, r, model.get(i), stats, model_then=model.get(("then", i)))
        if d is None and ("ev", i) in model and len(ctx.violations) == nv:
            d = diff_events(model[("ev", i)], r["ok"]["events"], plan_of(c), bool(c["kw"].get("normalize_windows", True)))
            n_ev_ok += d is None
        if d is not None:
            corr_bad.append((c, d))
        if len(ctx.violations) > nv and not replay and n_shrunk < 2 and "ok" in r:
            n_shrunk += 1
            try:
                small = shrink(c)
                if small is not c:
                    ctx.violations.pop()
                    rr, _ = C.run_impl("c03", [small], {"NUMBA_DISABLE_JIT": "1"})
                    judge(ctx, small, rr[0], None, {k: 0 for k in STAT_KEYS})
            except Exception:
                pass
    # the same events on different clocks give the same matrix (direct statement; each one is also judged above)
    groups, n_clock_pairs = {}, 0
    for c, r in zip(cases, impl):
        if "clock_group" in c and "ok" in r:
            groups.setdefault(c["clock_group"], []).append((c, r["ok"]))
    for g, members in sorted(groups.items()):
        c0, o0 = members[0]
        t0 = {(r_, c_): v for r_, c_, v in o0["triples"]}
        for c1, o1 in members[1:]:
            n_clock_pairs += 1
            t1 = {(r_, c_): v for r_, c_, v in o1["triples"]}
            bad = [k for k in sorted(set(t0) | set(t1))
                   if abs(t0.get(k, 0.0) - t1.get(k, 0.0)) > 2.5 * REL * max(abs(t0.get(k, 0.0)), abs(t1.get(k, 0.0))) + 2.5 * ABS]
            if bad and not any(v["found_input"] for v in ctx.violations[before:]):
                k = bad[0]
                ctx.report("the same timed events on two clocks give different matrices: cell %s is %.9g with timestamps "
                           "tick/8*%r+%r and %.9g with tick/8*%r+%r" % (k, t0.get(k, 0.0), c0["unit"], c0["shift"],
                                                                       t1.get(k, 0.0), c1["unit"], c1["shift"]),
                           {"stage": "oracle", "case": c1, "other_clock": {"unit": c0["unit"], "shift": c0["shift"]},
                            "actual": o1["triples"], "on_other_clock": o0["triples"]})
                break
    ctx.coverage["clocks"] = {"clock_family_cases": sum(len(m) for m in groups.values()), "groups": len(groups),
                              "matrices_compared_across_clocks": n_clock_pairs,
                              "units": sorted(set(float(c.get("unit", 1.0)) for c in cases if c["kind"] == "timed")),
                              "timed_cases_by_unit": {("%g" % u): sum(1 for c in cases if c["kind"] == "timed" and float(c.get("unit", 1.0)) == u)
                                                      for u in sorted(set(float(c.get("unit", 1.0)) for c in cases if c["kind"] == "timed"))}}
    ctx.coverage["rule"] = ("random corpora (0-6 sequences incl. empty, lengths 0-12, alphabet 1-5) x vectorizer kind x radii 0-15 "
                            "and (30% of the fixed-window cases) boundary radii 0, 1, len-1, len, len+1, 32767, 32768, 40000, "
                            "65535, 65536, 70000, 2^31-1, 2^31, 2^32+7 x orientations x fixed/variable windows x kernels x "
                            "offset (also = / > the window) / normalize / power (also 1.0) x mix weights (also 0 and 1024) x "
                            "normalize_windows x excluded/masked tokens x n-gram size 1-3 x clocks (timestamp = tick/8*unit + offset, "
                            "unit 1e-9, 1e-6, 1e-4, 1e-3, 1, 1e3, 1e6 and powers of two 2^-30 .. 2^20, offsets 0 / 1e3 / 1e6 units / "
                            "1.6e9 [units]) x power 0.25 .. 1 incl. 0.9, 0.99; in every run one event corpus on all 22 clocks for "
                            "both timed kernels and power 0.5 / 0.9 / 0.99 / default (clock family, matrices also compared with "
                            "each other); in every run each kind x kernel with kernel offset 1 / 2 x kernel normalisation on / off on "
                            "documents of 6-10 tokens (kernel family); "
                            "40% of the cases on an estimator with a past (same object fitted on another corpus -- other "
                            "vocabulary size, time scale x1/x16/x1024, runs of removed tokens, other n-grams -- and used for "
                            "transform), 30% followed by transform(X | Y with unseen tokens) judged by the same definition; "
                            "non-trivial = some document with >= 2 tokens; distinct by case hash")
    ctx.coverage["call_histories"] = {"fits_on_an_estimator_with_a_past": stats["with_past"],
                                      "later_transforms_judged": stats["then_ok"], "later_transforms_in_coq": stats["then_corr"]}
    ctx.coverage["correspondence"] = {"cases": stats["corr"], "event_lists_equal_in_order": n_ev_ok, "disagreements": len(corr_bad),
                                      "model": "Model/K02_Windows.v + K03_Cooc.v on Qc via vm_compute (event list summed by key)"}
    ctx.coverage["oracle"] = {"cases": stats["oracle_ok"], "exact": stats["exact"], "tolerance_2e-5": stats["tolerance"],
                              "expected_errors": stats["expected_error"], "undefined_mean_gap_0": stats["undefined"]}
    ctx.coverage["traces_validated_against_impl"] = stats["corr"]
    ctx.assumptions += ["float32 value rounding and summation order are outside the theorems (2e-5 relative + 1e-9 absolute, "
                        "exact comparison for flat / dyadic geometric unnormalised settings)",
                        "variable_window_radii is compared with the real-valued formula (ties within 1e-6 not judged) and then "
                        "given to model and SPEC as data",
                        "timed geometric weights power**(delta/mean gap) are computed in floats by the harness FROM THE INTEGER "
                        "TICKS and given to the Coq model as a table; a mean gap of 0 with a geometric kernel is outside the "
                        "definition (not judged); timestamps handed to the implementation are tick/8*unit + offset with "
                        "(unit, offset) restricted to pairs whose float64 rounding moves a difference by <= 2e-9 ticks",
                        "the accumulator (coo_append ... merge) is K1's: here matrix = sum of events by key",
                        "radii above 2^17 are evaluated in the Coq model at (longest sequence + 1): same windows by "
                        "C03_window_radius_saturates / C03_multi_window_radius_saturates; the SPEC oracle uses the true radius",
                        "a fixed-window radius table (_window_len_array) is compared exactly with radius R per row (0 for a "
                        "nullified mask)"]
    if corr_bad and not any(v["found_input"] for v in ctx.violations):
        c, d = corr_bad[0]
        ctx.report("model K02/K03 and implementation disagree (no property-level failure found): " + d,
                   {"stage": "correspondence", "correspondence": "Model/K03_Cooc.v <-> *_cooccurrence_vectorizer.py", "case": c},
                   found_input=False)
    C.gate_violation(ctx)
    return ctx.finish("proof")
