"""C19 — sliding windows.  Proof gate (Properties/C19.v) + correspondence of Model/K14_Sliding.v with
vectorizers/transformers/sliding_windows.py + property oracle (the documented windows, computed directly)."""
from . import common as C

HEADER = """From Coq Require Import ZArith List.
From VZ Require Import Model.K14_Sliding.
Import ListNotations.
Open Scope Z_scope.
"""


def nat(n):
    return "%d%%nat" % n


def natlist(l):
    return "[" + "; ".join(nat(x) for x in l) + "]"


def coq_form(f):
    k = f[0]
    if k == "none":
        return "SNone"
    if k == "stride":
        return "(SStride %s)" % nat(f[1])
    if k == "startstride":
        return "(SStartStride %s %s)" % (nat(f[1]), nat(f[2]))
    return "(SIndex %s)" % natlist(f[1])


def positions(width, f):
    k = f[0]
    if k == "none":
        return list(range(width))
    if k == "stride":
        return list(range(0, width, f[1]))
    if k == "startstride":
        return list(range(f[1], width, f[2]))
    return list(f[1])


def coq_case(c):
    if c["kind"] == "seqdiff":
        return "sequential_difference %s %s" % (nat(c["t"]), C.coq_list2(c["seq"]))
    ncols = len(positions(c["width"], c["sample"]))
    K = c["K"]
    if K[0] == "none":
        k = "None"
    elif K[0] == "differences":
        k = "(Some (difference_kernel %s %s %s %s))" % (nat(ncols), nat(K[1]), nat(K[2]), nat(K[3]))
    else:
        k = "(Some %s)" % C.coq_list2(K[1])
    d = len(c["seq"][0])
    return "sliding_windows %s %s %s (sample_of_form %s %s) %s %s %s" % (
        k, nat(c["width"]), nat(c["stride"]), nat(c["width"]), coq_form(c["sample"]), nat(c["pw"]),
        C.coq_list([c["pv"]] * d), C.coq_list2(c["seq"]))


def spec(c):
    """The property's own statement, evaluated directly (no slicing, exact integer ceiling)."""
    if c["kind"] == "seqdiff":
        s, t = c["seq"], c["t"]
        return [[a - b for a, b in zip(s[i + t], s[i])] for i in range(len(s) - t)]
    d = len(c["seq"][0])
    s = [[c["pv"]] * d] * c["pw"] + c["seq"] + [[c["pv"]] * d] * c["pw"]
    w, st = c["width"], c["stride"]
    n = -(-(len(s) - w + 1) // st)
    pos = positions(w, c["sample"])
    rows = []
    for i in range(n):
        win = [s[i * st + j] for j in pos]
        K = c["K"]
        if K[0] == "none":
            rows.append([x for v in win for x in v])
        elif K[0] == "matrix":
            rows.append([sum(r[j] * win[j][cc] for j in range(len(win))) for r in K[1] for cc in range(d)])
        else:
            return None  # 'differences' with arbitrary parameters: only the correspondence applies
    return rows


def gen_case(rng):
    if rng.random() < 0.2:
        t = rng.randint(1, 5)
        d = rng.choice([1, 1, 2, 3])
        L = t + rng.randint(1, 10)
        return {"kind": "seqdiff", "t": t, "prehistory": rng.choice([0, 0, 1, 2]), "univariate": d == 1 and rng.random() < 0.7,
                "as_float": rng.random() < 0.3,
                "seq": [[rng.randint(-50, 50) for _ in range(d)] for _ in range(L)]}
    width = rng.randint(1, 8)
    stride = rng.randint(1, 5)
    d = rng.choice([1, 1, 2, 3])
    pw = rng.choice([0, 0, 0, 1, 2, 3])
    L = max(1, width - 2 * pw) + rng.choice([0, 0, 1, 2, 3, 5, 8, 12]) if rng.random() < 0.8 else width + rng.randint(0, 20)
    L = max(L, width - 2 * pw, 1)
    r = rng.random()
    if r < 0.3:
        sample = ["none"]
    elif r < 0.5:
        sample = ["stride", rng.randint(1, 4)]
    elif r < 0.7:
        sample = ["startstride", rng.randint(0, width - 1), rng.randint(1, 4)]
    else:
        n = rng.choice([1, 2, 3, width, width, width + 1, rng.randint(1, width + 2)])
        idx = [rng.randint(0, width - 1) for _ in range(n)]
        if rng.random() < 0.4:
            idx = list(range(width))
            rng.shuffle(idx)
        sample = ["index", idx]
    ncols = len(positions(width, sample))
    r = rng.random()
    if r < 0.5 or ncols == 0:
        K = ["none"]
    elif r < 0.75 and ncols >= 2:
        start = rng.randint(0, ncols - 2)
        step = rng.randint(1, ncols - 1 - start)
        K = ["differences", start, step, rng.randint(1, 3)]
    else:
        K = ["matrix", [[rng.randint(-3, 3) for _ in range(ncols)] for _ in range(rng.randint(1, 3))]]
    return {"kind": "windows", "prehistory": rng.choice([0, 0, 0, 1]), "width": width, "stride": stride, "sample": sample, "K": K, "pw": pw,
            "pv": rng.randint(-2, 2), "univariate": d == 1 and rng.random() < 0.7, "as_float": rng.random() < 0.3,
            "seq": [[rng.randint(-50, 50) for _ in range(d)] for _ in range(L)]}


CORPUS = [
    # D21: integer window_sample; D22: stride>=2 differences; D27: full-width index list
    {"kind": "windows", "width": 4, "stride": 1, "sample": ["stride", 2], "K": ["none"], "pw": 0, "pv": 0,
     "univariate": True, "as_float": False, "seq": [[1], [2], [3], [4], [5], [6]]},
    {"kind": "seqdiff", "t": 2, "univariate": True, "as_float": False, "seq": [[1], [4], [9], [16], [25]]},
    {"kind": "windows", "width": 3, "stride": 1, "sample": ["index", [2, 1, 0]], "K": ["none"], "pw": 0, "pv": 0,
     "univariate": True, "as_float": False, "seq": [[1], [2], [3], [4], [5]]},
    {"kind": "windows", "width": 3, "stride": 2, "sample": ["none"], "K": ["none"], "pw": 1, "pv": -1,
     "univariate": False, "as_float": False, "seq": [[1, 2], [3, 4], [5, 6], [7, 8]]},
]


def shrink(case):
    """Greedy shrink of the sequence (one child process per round evaluates every single-removal candidate)."""
    cur = dict(case)
    for _ in range(12):
        minlen = (cur.get("t", 0) + 1) if cur["kind"] == "seqdiff" else max(1, cur["width"] - 2 * cur["pw"])
        cands = []
        for i in range(len(cur["seq"])):
            cand = dict(cur)
            cand["seq"] = cur["seq"][:i] + cur["seq"][i + 1:]
            if len(cand["seq"]) >= minlen:
                cands.append(cand)
        if not cands:
            break
        rr, _ = C.run_impl("c19", cands, {"NUMBA_DISABLE_JIT": "1"})
        nxt = None
        for cc, r in zip(cands, rr or []):
            if r.get("ok") != spec(cc):
                nxt = cc
                break
        if nxt is None:
            break
        cur = nxt
    return cur


N_JIT = 45


def evaluate(cases):
    """impl results, model (Coq) results, spec results for a list of cases.  Every SlidingWindowTransformer builds
    a fresh numba closure (≈1 s of compilation per case), so only the first N_JIT cases (corpus first) run compiled;
    all cases run with NUMBA_DISABLE_JIT=1 (python semantics of the same source)."""
    from concurrent.futures import ThreadPoolExecutor
    with ThreadPoolExecutor(max_workers=3) as ex:
        f_jit = ex.submit(C.run_impl, "c19", cases[:N_JIT])
        f_py = ex.submit(C.run_impl, "c19", cases, {"NUMBA_DISABLE_JIT": "1"})
        f_model = ex.submit(C.coq_eval_sharded, "C19", HEADER, [coq_case(c) for c in cases])
        (jit, info_jit), (impl, info), model = f_jit.result(), f_py.result(), f_model.result()
    return impl, info, jit, info_jit, model, [spec(c) for c in cases]


def run(ctx, replay=None):
    C.run_gate(ctx)
    n = 300 if ctx.quick else 4000
    cases = [replay["case"]] if replay else CORPUS + [gen_case(ctx.rng) for _ in range(n)]
    impl, info, jit, info_jit, model, specs = evaluate(cases)
    ctx.coverage["rule"] = ("random (kernel, width, stride, window_sample form, padding, 1-d/multivariate integer sequence) "
                            "cases + corpus of past failures; non-trivial = produces >= 1 window; distinct by case hash")
    ctx.assumptions += ["integer-valued inputs so that float64 results are exact and comparable with the Z model",
                        "window_sample='random' and function (callable) kernels are not modelled",
                        "index-list samples are generated within [0, width)"]
    if impl is None or len(impl) != len(cases):
        done = len(impl) if impl else 0
        ctx.report("implementation child died (rc=%s) on case %d: %s" % (info["rc"], done, info["tail"][-400:]),
                   {"stage": "impl-crash", "case": cases[done] if done < len(cases) else None}, found_input=True)
        impl = (impl or []) + [{"err": "crash"}] * (len(cases) - done)
    if jit is None or len(jit) != min(N_JIT, len(cases)):
        done = len(jit) if jit else 0
        ctx.report("compiled-mode implementation child died (rc=%s) on case %d: %s" % (info_jit["rc"], done, info_jit["tail"][-400:]),
                   {"stage": "impl-crash", "case": cases[done]}, found_input=True)
    else:
        for c, rj, rp in zip(cases, jit, impl):
            if rj.get("ok") != rp.get("ok"):
                ctx.report("compiled and interpreted execution differ: %s vs %s" % (str(rj)[:200], str(rp)[:200]),
                           {"stage": "oracle", "case": c, "compiled": rj, "interpreted": rp})
    ctx.coverage["modes"] = {"compiled": len(jit or []), "NUMBA_DISABLE_JIT=1": len(impl)}
    corr_bad, n_spec, n_corr, n_shrunk = [], 0, 0, 0
    for c, r, m, s in zip(cases, impl, model, specs):
        ctx.count_case(c, nontrivial=bool(m), kind=c["kind"] + ":" + (c.get("sample", ["-"])[0]) + ":" + (c.get("K", ["-"])[0]))
        got = r.get("ok")
        if s is not None:
            n_spec += 1
            if got != s:
                small = shrink(c) if (not replay and n_shrunk < 2) else c
                n_shrunk += 1
                ctx.report("implementation output differs from the documented windows: got %s, expected %s"
                           % (str(r)[:300], str(s)[:300]),
                           {"stage": "oracle", "case": small, "expected": spec(small), "actual": r})
                continue
        n_corr += 1
        if got != m:
            corr_bad.append((c, r, m))
    ctx.coverage["correspondence"] = {"cases": n_corr, "disagreements": len(corr_bad), "model": "Model/K14_Sliding.v via vm_compute"}
    ctx.coverage["oracle"] = {"cases": n_spec}
    ctx.coverage["traces_validated_against_impl"] = n_corr
    if corr_bad and not any(v["found_input"] for v in ctx.violations):
        c, r, m = corr_bad[0]
        ctx.report("model K14_Sliding and implementation disagree (no property-level failure found): impl %s, model %s"
                   % (str(r)[:300], str(m)[:300]),
                   {"stage": "correspondence", "correspondence": "Model/K14_Sliding.v <-> sliding_windows.py",
                    "case": c, "model": m, "actual": r}, found_input=False)
    C.gate_violation(ctx)
    return ctx.finish("proof")
