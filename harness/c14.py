"""C14 — masking keeps positions; nullifying the mask removes its contribution.
Proof gate (Properties/C14.v) + correspondence of Model/K6_Reindex.v with the four preprocess_* re-indexers and of
Model/C14_MaskKernel.v with _window_kernels.py / the one-window co-occurrence loop + property oracle on
TokenCooccurrenceVectorizer, LabelledTreeCooccurrenceVectorizer and NgramVectorizer (delete / mask / mask+nullify
against the same computation on explicitly deleted / masked inputs and against a pointwise reference)."""
import re
from fractions import Fraction
from . import common as C
from . import c05
from . import c03

HEADER = c05.HEADER + """
From VZ Require Import Model.C14_MaskKernel.
From Coq Require Import QArith.
Open Scope Z_scope.
Definition qz (q : Q) : Z * Z := (Qnum (Qred q), Zpos (Qden (Qred q))).
Definition full (r : res (list (list nat) * dict Z * list Z)) : res (list (list nat) * dict Z) :=
  match r with Ok (s, d, fr) => Ok (s, d) | Err e => Err e end.
Definition tree_labels (m : Z -> bool) (c : config Z) (docs : list (list Z)) (d0 : option (dict Z)) (mask : Z) :=
  match learn_gen Z Z.eqb Z.ltb m f32div_fl f64div_fl f64to32_fl one64_fl (need_doc2 Z c) c docs d0 with
  | Ok (d, fr) => let d' := remove_key Z Z.eqb mask d in
                  Ok (map (relabel_mask Z Z.eqb mask d') docs, add_mask Z mask d')
  | Err e => Err e
  end.
Definition kcase (k : kernel_kind) (w : list nat) (mask : option nat) (norm : bool) (off size ntok : nat)
           (s : list nat) (rev : bool) (mix : Q) (nw : bool) :=
  (map qz (kernel k w mask norm off), fixed_radii size ntok mask,
   map (fun i => window_at_index s size i rev) (seq 0 (length s)),
   map (fun e => (fst (fst e), snd (fst e), qz (snd e)))
       (doc_events k (fixed_radii size ntok mask) rev mask norm off mix nw s)).
"""

TOL_REL, TOL_ABS = 2e-5, 1e-6
MASK = "MASK"


def close(a, b):
    return abs(a - b) <= TOL_ABS + TOL_REL * max(abs(a), abs(b))


def mat_diff(A, B):
    """None when equal within tolerance, else a description of the first differing cell / shape."""
    if A is None or B is None:
        return None if A is B else "one side missing"
    if len(A) != len(B) or (A and len(A[0]) != len(B[0])):
        return "shape %dx%d vs %dx%d" % (len(A), len(A[0]) if A else 0, len(B), len(B[0]) if B else 0)
    for r, (ra, rb) in enumerate(zip(A, B)):
        for c, (x, y) in enumerate(zip(ra, rb)):
            if not close(x, y):
                return "cell [%d,%d]: %r vs %r" % (r, c, x, y)
    return None


# ------------------------------------------------------------------------------------------ pointwise reference
def base_w(kernel, d):
    return 1.0 if kernel == "flat" else 1.0 / d if kernel == "harmonic" else 0.9 ** d


def cooc_reference(seqs, nvocab, w, mask_index):
    """Windowed, kernel-weighted co-occurrence counts by the documented definition, for index sequences.
    mask_index = None: plain counts; otherwise the mask token has no window of its own and contributes weight 0 as
    a context, the zeroing taking place before any normalisation."""
    orient = {"before": ["before"], "after": ["after"], "directional": ["before", "after"]}[w["orientation"]]
    R, off = w["radius"], w.get("offset", 0)
    M = [[0.0] * (nvocab * len(orient)) for _ in range(nvocab)]
    for s in seqs:
        L = len(s)
        for p, t in enumerate(s):
            blocks = []
            r = 0 if (mask_index is not None and t == mask_index) else R
            for o in orient:
                qs = list(range(p + 1, min(p + r, L - 1) + 1)) if o == "after" else list(range(p - 1, max(p - r, 0) - 1, -1))
                ws = []
                for q in qs:
                    d = abs(q - p)
                    x = base_w(w["kernel"], d)
                    if mask_index is not None and s[q] == mask_index:
                        x = 0.0
                    if d <= off:
                        x = 0.0
                    ws.append(x)
                if w.get("normalize") and sum(ws) > 0:
                    tot = sum(ws)
                    ws = [x / tot for x in ws]
                blocks.append((qs, ws))
            total = sum(sum(ws) for _, ws in blocks) if w["normalize_windows"] else 0
            if total <= 0:
                total = 1
            for i, (qs, ws) in enumerate(blocks):
                for q, x in zip(qs, ws):
                    M[t][s[q] + i * nvocab] += x / total
    return M


# ------------------------------------------------------------------------------------------ generators
def gen_docs(rng):
    vs = rng.randint(2, 7)
    vocab = rng.sample(c05.STR_VOCAB, vs)
    weights = [rng.choice([1, 2, 3, 5]) for _ in vocab]
    docs = [rng.choices(vocab, weights, k=rng.choice([1, 2, 3, 5, 8, 12])) for _ in range(rng.choice([1, 2, 3, 4]))]
    return docs, vocab


def gen_prune(rng, docs, allow_unique=True):
    """A pruning setting that removes at least one occurring token and keeps at least one."""
    counts = {}
    for d in docs:
        for t in d:
            counts[t] = counts.get(t, 0) + 1
    toks = sorted(counts)
    for _ in range(20):
        p = {"excluded": None, "regex": None, "min_occurrences": None, "max_occurrences": None, "max_unique_tokens": None}
        r = rng.random()
        if r < 0.4:
            p["excluded"] = rng.sample(toks, rng.randint(1, max(1, len(toks) - 1))) + (["zzz"] if rng.random() < 0.3 else [])
        elif r < 0.55:
            p["regex"] = rng.choice(c05.REGEX_POOL)
        elif r < 0.75:
            p["min_occurrences"] = rng.choice(sorted(set(counts.values()))) + rng.choice([0, 1])
        elif r < 0.9 or not allow_unique:
            p["max_occurrences"] = max(1, rng.choice(sorted(set(counts.values()))) - rng.choice([0, 1]))
        else:
            p["max_unique_tokens"] = rng.randint(1, max(1, len(toks) - 1))
        kept = [t for t in toks if not ((p["excluded"] and t in p["excluded"])
                                        or (p["regex"] is not None and re.fullmatch(p["regex"], t))
                                        or (p["min_occurrences"] is not None and counts[t] < p["min_occurrences"])
                                        or (p["max_occurrences"] is not None and counts[t] > p["max_occurrences"]))]
        if p["max_unique_tokens"] is not None:
            if len(toks) <= p["max_unique_tokens"]:
                continue
            return p                                 # ties decide how many survive; at least one token is dropped
        if 0 < len(kept) < len(toks):
            return p
    return {"excluded": [toks[0]] if len(toks) > 1 else ["zzz"], "regex": None, "min_occurrences": None,
            "max_occurrences": None, "max_unique_tokens": None}


def gen_window(rng):
    return {"radius": rng.choice([1, 1, 2, 3, 5]), "orientation": rng.choice(["before", "after", "directional"]),
            "kernel": rng.choice(["flat", "harmonic", "geometric"]), "normalize": rng.random() < 0.35,
            "offset": rng.choice([0, 0, 0, 1, 2]), "normalize_windows": rng.random() < 0.5,
            "window_function": "variable" if rng.random() < 0.12 else "fixed"}


P_HISTORY = 0.4
BIG_RADII = [32767, 32768, 40000, 2 ** 31 - 1]


def boundary_window(rng, w, docs):
    """Radii at the ends of the longest sequence and beyond the int16/int32 limits; offsets at / after the window."""
    L = max(len(d) for d in docs)
    if w.get("window_function", "fixed") == "fixed" and rng.random() < 0.3:
        w["radius"] = rng.choice([0, max(L - 1, 0), L, L + 1] + BIG_RADII)
    if rng.random() < 0.15:
        R = min(w["radius"], 30)
        w["offset"] = rng.choice([R, R + 1, max(R - 1, 0)])
    return w


def gen_history(rng, c, tree=False):
    """The estimator's past: another corpus (other vocabulary size; the tokens removed in the case occur too, also in
    runs), fitted on the same object, then used for transform."""
    vocab = rng.sample(c05.STR_VOCAB, rng.choice([1, 2, 4, 7, 10]))
    removed = sorted(c["prune"].get("excluded") or [])[:2]
    pool = vocab + removed * 2
    docs = [rng.choices(pool, k=rng.choice([1, 2, 4, 8])) for _ in range(rng.choice([1, 2, 3]))]
    if removed and rng.random() < 0.6:
        docs.append([removed[0]] * 3 + [vocab[0]])
    h = {"docs": docs, "how": rng.choice(["fit", "fit_transform"]), "transform": None}
    if rng.random() < 0.6:
        h["transform"] = [rng.choices(pool + ["new1"], k=rng.randint(1, 6))]
    if tree:
        as_tree = lambda d: {"parents": [-1] + [rng.randint(0, i - 1) for i in range(1, len(d))], "labels": d}
        h["docs"] = [as_tree(d) for d in h["docs"]]
        if h["transform"] is not None:
            h["transform"] = [as_tree(d) for d in h["transform"]]
    return h


def gen_cooc(rng):
    docs, vocab = gen_docs(rng)
    if len({t for d in docs for t in d}) < 2:
        docs.append(list(vocab[:2]))
    c = {"kind": "cooc", "docs": docs, "prune": gen_prune(rng, docs), "window": boundary_window(rng, gen_window(rng), docs),
         "mask": MASK, "transform_docs": None}
    if rng.random() < 0.3:
        c["transform_docs"] = [rng.choices(vocab + ["new1", "new2"], k=rng.randint(1, 8)) for _ in range(rng.randint(1, 2))]
    if rng.random() < P_HISTORY:
        c["history"] = gen_history(rng, c)
    return c


def gen_tree(rng):
    docs, vocab = gen_docs(rng)
    if len({t for d in docs for t in d}) < 2:
        docs.append(list(vocab[:2]))
    trees = []
    for d in docs:
        if rng.random() < 0.4:
            parents = [-1] + list(range(len(d) - 1))                      # a path
        else:
            parents = [-1] + [rng.randint(0, i - 1) if rng.random() < 0.9 else -1 for i in range(1, len(d))]
        trees.append({"parents": parents, "labels": d})
    p = gen_prune(rng, docs, allow_unique=False)
    depth = max(len(d) for d in docs)
    c = {"kind": "tree", "trees": trees, "docs": docs, "prune": p, "mask": MASK,
         "window": {"radius": rng.choice([1, 2, 3, 1, 2, 3, max(depth - 1, 1), depth, depth + 1]),
                    "kernel": rng.choice(["flat", "harmonic", "geometric"]),
                    "orientation": rng.choice(["before", "after", "symmetric", "directional"])}}
    if rng.random() < 0.3:
        c["transform_trees"] = []
        for _ in range(rng.randint(1, 2)):
            lab = rng.choices(vocab + ["new1"], k=rng.randint(1, 7))
            c["transform_trees"].append({"parents": [-1] + [rng.randint(0, i - 1) for i in range(1, len(lab))], "labels": lab})
    if rng.random() < P_HISTORY:
        c["history"] = gen_history(rng, c, tree=True)
    return c


def gen_ngram(rng):
    docs, vocab = gen_docs(rng)
    if len({t for d in docs for t in d}) < 2:
        docs.append(list(vocab[:2]))
    p = gen_prune(rng, docs)
    if rng.random() < 0.7:      # token-only pruning: the n-gram stage is then unpruned
        p = {"excluded": p["excluded"] or [sorted({t for d in docs for t in d})[0]], "regex": p["regex"],
             "min_occurrences": None, "max_occurrences": None, "max_unique_tokens": None}
    c = {"kind": "ngram", "docs": docs, "prune": p, "mask": MASK,
         "ngram": {"n": rng.choice([1, 2, 2, 3]), "behaviour": rng.choice(["exact", "exact", "subgrams"])},
         "transform_docs": None}
    if rng.random() < 0.5:
        c["transform_docs"] = [rng.choices(vocab + ["new1", "new2"], k=rng.randint(0, 8)) for _ in range(rng.randint(1, 3))]
    if rng.random() < P_HISTORY:
        c["history"] = gen_history(rng, c)
    return c


FAMILY_MODES = ("delete", "mask", "nullify")


def gen_family(rng):
    """The other members of the co-occurrence family (n-gram, timed, multiset; token too) in the three modes, in the
    C03 case format: a C03-style corpus and window/kernel setting, a pruning setting that removes >= 1 and keeps >= 1
    occurring token, 50% on an estimator with a past, 30% followed by a transform (unseen tokens -> mask)."""
    kind = rng.choice(["ngram", "ngram", "timed", "multi", "token"])
    while True:
        base = c03.gen_case_plain(rng, kind)
        kw = base["kw"]
        for k in ("excluded_tokens", "mask_string", "nullify_mask"):
            kw.pop(k, None)
        cnt = {}
        for d in c03.tokens_of(base):
            for t in d:
                cnt[t] = cnt.get(t, 0) + 1
        if len(cnt) >= 2:
            break
    toks, vals = sorted(cnt), sorted(set(cnt.values()))
    if kind != "ngram" and len(vals) >= 2 and rng.random() < 0.3:     # (occurrence bounds also prune the n-gram rows)
        if rng.random() < 0.5:
            kw["min_occurrences"] = rng.choice(vals[1:])
        else:
            kw["max_occurrences"] = rng.choice(vals[:-1])
    else:
        kw["excluded_tokens"] = rng.sample(toks, rng.randint(1, len(toks) - 1)) + (["zzz"] if rng.random() < 0.2 else [])
    c03.apply_boundaries(rng, base)
    f = {"kind": "family", "base": base, "history": None, "then": None}
    if rng.random() < (0.7 if kind == "ngram" else 0.5):
        f["history"] = c03.gen_history(rng, base)
    if rng.random() < 0.3:
        f["then"] = c03.gen_then(rng, base)
    return f


def family_cases(f):
    import copy
    out = []
    for mode in FAMILY_MODES:
        c = copy.deepcopy(f["base"])
        if mode != "delete":
            c["kw"]["mask_string"] = MASK
        if mode == "nullify":
            c["kw"]["nullify_mask"] = True
        for k in ("history", "then"):
            if f.get(k):
                c[k] = copy.deepcopy(f[k])
        out.append(c)
    return out


def oracle_family(f, cases, results):
    """Every mode against the pointwise definition (c03.spec: delete = definition on the sequences without the removed
    tokens; mask = on the sequences with the mask in their place; nullify = the latter with the mask's kernel weights
    zeroed before any normalisation, no window for the mask row), plus the statements of C14 between the modes."""
    fails, outs = [], {}
    stats = {k: 0 for k in c03.STAT_KEYS}
    for mode, c, r in zip(FAMILY_MODES, cases, results):
        msgs = []
        tmp = C.Ctx("C14", "quick", 0)
        tmp.report = lambda what, replay=None, found_input=True, finding_key=None, msgs=msgs: msgs.append(what)
        tmp.count_case = lambda *a, **k: None
        c03.judge(tmp, c, r, None, stats)
        fails += ["%s mode: %s" % (mode, m) for m in msgs]
        outs[mode] = r.get("ok")
    if fails or not all(outs.values()):
        return fails, stats
    kind, kw = f["base"]["kind"], f["base"]["kw"]
    vd, vm, vn = (outs[m]["vocab"] for m in FAMILY_MODES)
    n = len(vd)
    exp = dict(vd)
    exp[MASK] = n
    if vm != exp or list(vm)[-1] != MASK:
        fails.append("mask mode: dictionary %r is not the vocabulary %r plus the mask last" % (vm, vd))
    if vn != exp or list(vn)[-1] != MASK or outs["nullify"]["mask_index"] != n:
        fails.append("nullify: dictionary / mask index wrong: %r, %r" % (vn, outs["nullify"]["mask_index"]))
    if fails:
        return fails, stats
    mask_row = n
    if kind == "ngram":
        mask_row = outs["nullify"]["ngrams"].get("_".join([MASK] * int(kw.get("ngram_size", 2))))
    for what, tr in (("nullify_mask", outs["nullify"]["triples"]),
                     ("transform, nullify_mask", outs["nullify"].get("then", {}).get("triples", []))):
        bad = [(r, c) for r, c, v in tr if c % (n + 1) == n]
        if bad:
            fails.append("%s: column(s) of the mask not zero: cells %r" % (what, bad[:4]))
        bad = [(r, c) for r, c, v in tr if r == mask_row]
        if bad:
            fails.append("%s: the mask's row %r is not zero: cells %r" % (what, mask_row, bad[:4]))
    ka = kw.get("kernel_args") or {}
    normalised = kw.get("normalize_windows", True) or any(a.get("normalize") for a in ([ka] if isinstance(ka, dict) else ka))
    if not normalised:
        a = {(r, c): v for r, c, v in outs["mask"]["triples"] if c % (n + 1) != n and r != mask_row}
        b = {(r, c): v for r, c, v in outs["nullify"]["triples"]}
        diff = [k for k in sorted(set(a) | set(b)) if not close(a.get(k, 0.0), b.get(k, 0.0))]
        if diff:
            fails.append("nullify_mask differs from the masked run with the mask row/columns removed at %r: %r vs %r"
                         % (diff[0], b.get(diff[0], 0.0), a.get(diff[0], 0.0)))
    return fails, stats


def gen_kernel(rng):
    ntok = rng.randint(1, 5)
    L = rng.choice([0, 1, 2, 3, 5, 7])
    nullify = rng.random() < 0.7
    seq = [rng.choice(list(range(ntok)) + [ntok, ntok]) for _ in range(rng.choice([1, 2, 4, 6, 9]))]
    return {"kind": "kernel", "kernel": rng.choice(["flat", "harmonic", "geometric"]),
            "power": rng.choice([[1, 2], [9, 10], [3, 4], [1, 1]]), "window": [rng.choice(list(range(ntok)) + [ntok]) for _ in range(L)],
            "mask_index": ntok if nullify else None, "normalize": rng.random() < 0.5, "offset": rng.choice([0, 0, 1, 2, 4]),
            "size": rng.choice([0, 1, 2, 3, 5, 0, 1, 2, 3, 5, len(seq), 32768, 40000]), "ntok": ntok, "seq": seq, "reverse": rng.random() < 0.5,
            "normalize_windows": rng.random() < 0.5, "events": rng.random() < 0.5}


CORPUS = [
    {"kind": "ngram", "docs": [["b", "c", "a"], ["b", "a"]], "mask": MASK, "ngram": {"n": 2, "behaviour": "exact"},
     "prune": {"excluded": ["c"], "regex": None, "min_occurrences": None, "max_occurrences": None, "max_unique_tokens": None},
     "transform_docs": [["b", "x", "a", "a"]]},                                                       # D10
    {"kind": "cooc", "docs": [["a", "b", "c", "a", "b"], ["c", "a"]], "mask": MASK, "transform_docs": [["a", "q", "b"]],
     "prune": {"excluded": ["c"], "regex": None, "min_occurrences": None, "max_occurrences": None, "max_unique_tokens": None},
     "window": {"radius": 2, "orientation": "directional", "kernel": "harmonic", "normalize": True, "offset": 0,
                "normalize_windows": True, "window_function": "fixed"}},
    {"kind": "tree", "docs": [["a", "b", "c", "a"]], "mask": MASK,
     "trees": [{"parents": [-1, 0, 1, 2], "labels": ["a", "b", "c", "a"]}],
     "prune": {"excluded": ["b"], "regex": None, "min_occurrences": None, "max_occurrences": None, "max_unique_tokens": None},
     "window": {"radius": 2, "kernel": "flat", "orientation": "directional"}},
]


# ------------------------------------------------------------------------------------------ oracles
def zero_row_cols(M, mi, width, nblocks, what):
    fails = []
    if any(abs(x) > 0 for x in M[mi]):
        fails.append("%s: the mask's row %d is not zero: %r" % (what, mi, M[mi]))
    for b in range(nblocks):
        col = mi + b * width
        bad = [r for r in range(len(M)) if abs(M[r][col]) > 0]
        if bad:
            fails.append("%s: column %d (mask, block %d) is not zero in rows %r" % (what, col, b, bad[:4]))
    return fails


def index_seqs(docs, vocab, mask_index=None):
    if mask_index is None:
        return [[vocab[t] for t in d if t in vocab] for d in docs]
    return [[vocab.get(t, mask_index) for t in d] for d in docs]


def oracle_cooc(c, g):
    fails = []
    vocab = {k: v for k, v in g["vocab"]}
    n = len(vocab)
    w = c["window"]
    nb = 2 if w["orientation"] == "directional" else 1
    occurring = {t for d in c["docs"] for t in d}
    if not (0 < n < len(occurring)):
        return []            # nothing pruned (ties under max_unique_tokens): outside the property's quantifier
    fixed = w.get("window_function", "fixed") == "fixed"
    if g["mask_dict"] != g["vocab"] + [[c["mask"], n]]:
        fails.append("mask mode: dictionary %r is not the vocabulary plus the mask last" % (g["mask_dict"],))
    if g["nullify_dict"] != g["vocab"] + [[c["mask"], n]] or g["mask_index"] != n:
        fails.append("nullify: dictionary/mask index wrong: %r, %r" % (g["nullify_dict"], g["mask_index"]))
    if fixed:
        d = mat_diff(g["delete"], g["delete_ref"]) if g["delete_ref"] is not None else None
        if d:
            fails.append("delete mode differs from the computation on explicitly deleted sequences: " + d)
        d = mat_diff(g["delete"], cooc_reference(index_seqs(c["docs"], vocab), n, w, None))
        if d:
            fails.append("delete mode differs from the windowed definition on the deleted sequences: " + d)
        d = mat_diff(g["mask"], g["mask_ref"])
        if d:
            fails.append("mask mode differs from the computation on explicitly masked sequences: " + d)
        d = mat_diff(g["mask"], cooc_reference(index_seqs(c["docs"], vocab, n), n + 1, w, None))
        if d:
            fails.append("mask mode differs from the windowed definition on the masked sequences: " + d)
    fails += zero_row_cols(g["nullify"], n, n + 1, nb, "nullify_mask")
    if fixed:
        d = mat_diff(g["nullify"], cooc_reference(index_seqs(c["docs"], vocab, n), n + 1, w, n))
        if d:
            fails.append("nullify_mask differs from the masked computation with the mask's weights zeroed: " + d)
        if not w.get("normalize") and not w["normalize_windows"]:
            ref = [[0.0 if (r == n or cc % (n + 1) == n) else x for cc, x in enumerate(row)] for r, row in enumerate(g["mask_ref"])]
            d = mat_diff(g["nullify"], ref)
            if d:
                fails.append("nullify_mask differs from the explicitly masked run with the mask row/columns removed: " + d)
        if c.get("transform_docs") is not None:
            ts = index_seqs(c["transform_docs"], vocab, n)
            d = mat_diff(g["nullify_transform"], cooc_reference(ts, n + 1, w, n))
            if d:
                fails.append("transform with nullify_mask differs from the definition: " + d)
            d = mat_diff(g["mask_transform"], cooc_reference(ts, n + 1, w, None))
            if d:
                fails.append("transform in mask mode differs from the definition on the masked sequences: " + d)
    if c.get("transform_docs") is not None:
        fails += zero_row_cols(g["nullify_transform"], n, n + 1, nb, "transform, nullify_mask")
    return fails


def oracle_tree(c, g):
    fails = []
    vocab = {k: v for k, v in g["vocab"]}
    n = len(vocab)
    occurring = {t for d in c["docs"] for t in d}
    if not (0 < n < len(occurring)):
        return []
    nb = 2 if c["window"]["orientation"] == "directional" else 1
    if g["mask_dict"] != g["vocab"] + [[c["mask"], n]]:
        fails.append("mask mode: dictionary %r is not the vocabulary plus the mask last" % (g["mask_dict"],))
    if g["nullify_dict"] != g["vocab"] + [[c["mask"], n]] or g["mask_index"] != n:
        fails.append("nullify: dictionary/mask index wrong: %r, %r" % (g["nullify_dict"], g["mask_index"]))
    if g["delete_ref"] is not None:
        d = mat_diff(g["delete"], g["delete_ref"])
        if d:
            fails.append("delete mode differs from the computation on explicitly pruned trees: " + d)
    d = mat_diff(g["mask"], g["mask_ref"])
    if d:
        fails.append("mask mode differs from the computation on explicitly relabelled trees: " + d)
    fails += zero_row_cols(g["nullify"], n, n + 1, nb, "nullify_mask")
    ref = [[0.0 if (r == n or cc % (n + 1) == n) else x for cc, x in enumerate(row)] for r, row in enumerate(g["mask_ref"])]
    d = mat_diff(g["nullify"], ref)
    if d:
        fails.append("nullify_mask differs from the relabelled run with the mask row/columns removed: " + d)
    if c.get("transform_trees") is not None and "mask_transform" in g:
        d = mat_diff(g["mask_transform"], g["mask_transform_ref"])
        if d:
            fails.append("transform in mask mode differs from the transform of explicitly relabelled trees: " + d)
        fails += zero_row_cols(g["nullify_transform"], n, n + 1, nb, "transform, nullify_mask")
        ref = [[0.0 if (r == n or cc % (n + 1) == n) else x for cc, x in enumerate(row)] for r, row in enumerate(g["mask_transform_ref"])]
        d = mat_diff(g["nullify_transform"], ref)
        if d:
            fails.append("transform with nullify_mask differs from the relabelled transform with the mask row/columns removed: " + d)
    return fails


def oracle_ngram(c, g):
    fails = []
    vocab = {k: v for k, v in g["vocab"]}
    n = len(vocab)
    if g["mask_dict"] != g["vocab"] + [[c["mask"], n]]:
        fails.append("mask mode: token dictionary %r is not the vocabulary plus the mask last" % (g["mask_dict"],))
    if isinstance(g["delete_ref"], list):
        if g["delete_cols"] != g["delete_ref_cols"] or mat_diff(g["delete"], g["delete_ref"]):
            fails.append("delete mode differs from the n-grams of the explicitly deleted sequences")
    if g["mask_cols"] != g["mask_ref_cols"] or mat_diff(g["mask"], g["mask_ref"]):
        fails.append("mask mode differs from the n-grams of the explicitly masked sequences (positions not preserved): "
                     "%r vs %r" % (g["mask_cols"][:5], g["mask_ref_cols"][:5]))
    d = mat_diff(g["mask"], g["mask_fit_then_transform"])
    if d:
        fails.append("mask mode: fit(X).transform(X) differs from fit_transform(X): " + d)
    if c.get("transform_docs") is not None:
        d = mat_diff(g["mask_transform"], g["mask_transform_ref"])
        if d:
            fails.append("mask mode: transform(Y) differs from the n-grams of the explicitly masked Y: " + d)
    return fails


# ------------------------------------------------------------------------------------------ Coq side
def coq_kernel_case(c):
    k = {"flat": "Flat", "harmonic": "Harmonic"}.get(c["kernel"]) or "(Geometric (%d # %d)%%Q)" % tuple(c["power"])
    nat = lambda x: "%d%%nat" % x if x <= 200 else "(Z.to_nat %d)" % x
    nl = lambda l: "[" + "; ".join(nat(x) for x in l) + "]"
    mask = "None" if c["mask_index"] is None else "(Some %s)" % nat(c["mask_index"])
    return "kcase %s %s %s %s %s %s %s %s %s (1 # 1)%%Q %s" % (
        k, nl(c["window"]), mask, C.coq_bool(c["normalize"]), nat(c["offset"]), nat(c["size"]), nat(c["ntok"]),
        nl(c["seq"]), C.coq_bool(c["reverse"]), C.coq_bool(c["normalize_windows"]))


def compare_kernel(c, g, m):
    ws, radii, wins, evs = m
    mw = [float(Fraction(a, b)) for a, b in ws]
    if len(mw) != len(g["weights"]) or any(abs(x - y) > 1e-12 + 1e-9 * abs(x) for x, y in zip(mw, g["weights"])):
        return "kernel weights: impl %r, model %r" % (g["weights"], mw)
    if list(radii) != g["radii"]:
        return "radii: impl %r, model %r" % (g["radii"], list(radii))
    if [list(x) for x in wins] != g["windows"]:
        return "windows: impl %r, model %r" % (g["windows"], wins)
    if c.get("events"):
        n1 = c["ntok"] + 1
        M = [[0.0] * n1 for _ in range(n1)]
        for r, cc, (a, b) in evs:
            M[r][cc] += float(Fraction(a, b))
        got = [[x - y for x, y in zip(ra, rb)] for ra, rb in zip(g["matrix"], g["filler"])]
        d = mat_diff(got, M)
        if d:
            return "one-window co-occurrence matrix vs summed model events: " + d
    return None


def reindex_cases(rng, n):
    """C05-style cases restricted to the re-indexing entry points; the model output includes the sequences."""
    out = []
    while len(out) < n:
        c = c05.gen_case(rng)
        if c["entry"] not in ("preprocess", "timed", "multi", "tree") or c05.spec(c).get("error"):
            continue
        if c["entry"] == "tree" and c["mask"] is None:
            continue
        c["shuffle_seed"] = None
        out.append(c)
    return out


def coq_reindex_case(c):
    rk = c05.ranks(c)
    docs = C.coq_list2([[rk[t] for t in d] for d in c["docs"]])
    d0 = "None" if c.get("dict") is None else "(Some %s)" % C.coq_list(
        c["dict"], lambda kv: "(%s, %d%%nat)" % (C.z(rk[kv[0]]), kv[1]))
    m = c05.coq_matches(c, rk)
    if c["entry"] == "tree":
        return "tree_labels %s %s %s %s %s" % (m, c05.coq_cfg(c, rk, tree=True), docs, d0, C.z(rk[c["mask"]]))
    mask = "None" if c.get("mask") is None else "(Some %s)" % C.z(rk[c["mask"]])
    return "full (preprocess_fl %s %s %s %s %s)" % (m, c05.coq_cfg(c, rk), docs, d0, mask)


def compare_reindex(c, g, m):
    toks = c05.case_tokens(c)
    if "err" in g or m[0] == "Err":
        return None if ("err" in g and m[0] == "Err") else "exception mismatch: impl %r, model %r" % (g.get("err"), m)
    seqs, d = m[1]
    md = [[toks[t], i] for t, i in d]
    if c05.canon(g["dict"]) != c05.canon(md):
        return "dictionary: impl %r, model %r" % (g["dict"], md)
    if c["entry"] == "tree":
        ms = [[toks[t] for t in s] for s in seqs]
        return None if g["labels"] == ms else "tree labels: impl %r, model %r" % (g["labels"], ms)
    gs = g["seqs"] if "seqs" in g else [[x for ms_ in doc for x in ms_] for doc in g["mseqs"]]
    ms = [list(s) for s in seqs]
    if gs != ms:
        return "re-indexed sequences: impl %r, model %r" % (gs, ms)
    if "mseqs" in g and c.get("mask") is not None:
        if [[len(x) for x in doc] for doc in g["mseqs"]] != [[len(x) for x in doc] for doc in c["multi_docs"]]:
            return "multiset sizes changed in mask mode"
    if "times" in g and c.get("mask") is not None:
        if g["times"] != [[float(i) for i in range(len(doc))] for doc in c["docs"]]:
            return "timestamps changed in mask mode"
    return None


def positions_oracle(c, g):
    """The property, directly on the re-indexed output (no model): delete = map idx . filter, mask = same length."""
    if "err" in g or "dict" not in g:
        return []
    d = {k: v for k, v in g["dict"]}
    mask = c.get("mask")
    if c["entry"] == "tree":
        exp = [[t if (t in d and t != mask) else mask for t in doc] for doc in c["docs"]]
        return [] if g["labels"] == exp else ["tree labels not replaced in place: %r vs %r" % (g["labels"], exp)]
    gs = g["seqs"] if "seqs" in g else [[x for ms_ in doc for x in ms_] for doc in g["mseqs"]]
    if mask is None:
        exp = [[d[t] for t in doc if t in d] for doc in c["docs"]]
        return [] if gs == exp else ["delete mode: %r, expected %r" % (gs, exp)]
    body = {k: v for k, v in d.items() if k != mask}
    exp = [[body.get(t, d[mask]) for t in doc] for doc in c["docs"]]
    fails = [] if gs == exp else ["mask mode: positions not preserved: %r, expected %r" % (gs, exp)]
    if list(d)[-1] != mask or (c.get("dict") is None and d[mask] != len(body)):
        fails.append("mask entry not last / index not the vocabulary size: %r" % (g["dict"],))
    return fails


def run(ctx, replay=None):
    C.run_gate(ctx)
    rng = ctx.rng
    ctx.coverage["rule"] = ("random corpora x pruning settings that remove >= 1 token (excluded tokens, regex, min/max "
                            "occurrences, max_unique_tokens) x mask None | mask | mask+nullify x radius (also 0, len-1, len, "
                            "len+1, 32767, 32768, 40000, 2^31-1) / orientation / kernel / normalisation / offset (also = / > "
                            "the window); trees: paths and random forests, radius up to depth+1, transform of other trees; "
                            "kernels called directly (window sizes up to 40000); the n-gram, timed, multiset (and token) "
                            "co-occurrence vectorizers in the three modes against the pointwise definition (C03 case format); "
                            "40-50% of the estimator-level cases on an estimator with a past (same object fitted on another "
                            "corpus with runs of removed tokens and used for transform); "
                            "non-trivial = at least one token pruned and one kept")
    ctx.assumptions += ["matrices compared with tolerance 1e-6 + 2e-5 relative (float32 accumulation)",
                        "equality with explicitly deleted/masked runs only for window_functions='fixed' (variable "
                        "radii depend on the frequency table, which differs between the two runs); zero row/columns "
                        "are checked for both", "n_iter = 0, epsilon = 0; mix_weights = 1 except in the family stream",
                        "the family stream (n-gram / timed / multiset co-occurrence) runs interpreted (NUMBA_DISABLE_JIT=1: python "
                        "semantics of the same source); the compiled drivers are exercised by C03",
                        "geometric kernel compared at power 0.9 (oracle) and rational powers (model)"]
    if replay:
        rc = replay["case"]
        groups = {"oracle": [rc] if rc.get("kind") in ("cooc", "tree", "ngram") else [],
                  "kernel": [rc] if rc.get("kind") == "kernel" else [],
                  "reindex": [rc] if rc.get("kind") == "vocab" else [],
                  "family": [rc] if rc.get("kind") == "family" else []}
    else:
        no, nk, nr, nf = (70, 150, 250, 160) if ctx.quick else (900, 2500, 4000, 2000)
        oc = CORPUS + [(gen_cooc if i % 10 < 5 else gen_tree if i % 10 < 7 else gen_ngram)(rng) for i in range(no)]
        groups = {"oracle": oc, "kernel": [gen_kernel(rng) for _ in range(nk)], "reindex": reindex_cases(rng, nr),
                  "family": [gen_family(rng) for _ in range(nf)]}
    fam_cases = [c for f in groups["family"] for c in family_cases(f)]
    from concurrent.futures import ThreadPoolExecutor
    with ThreadPoolExecutor(max_workers=5) as ex:
        f_or = ex.submit(C.run_impl, "c14", groups["oracle"]) if groups["oracle"] else None
        f_k = ex.submit(C.run_impl, "c14", groups["kernel"]) if groups["kernel"] else None
        f_r = ex.submit(C.run_impl, "c05", {"mode": "cases", "cases": groups["reindex"]}) if groups["reindex"] else None
        f_f = ex.submit(c03.delayed_impl, 0.3, fam_cases, {"NUMBA_DISABLE_JIT": "1"}) if fam_cases else None
        f_mk = ex.submit(C.coq_eval_sharded, "C14k", HEADER, [coq_kernel_case(c) for c in groups["kernel"]], 200)
        f_mr = ex.submit(C.coq_eval_sharded, "C14r", HEADER, [coq_reindex_case(c) for c in groups["reindex"]], 250)
        res = {"oracle": f_or.result() if f_or else ([], {}), "kernel": f_k.result() if f_k else ([], {}),
               "reindex": f_r.result() if f_r else ([], {})}
        fam_res, fam_info = f_f.result() if f_f else ([], {})
        mk, mr = f_mk.result(), f_mr.result()
    if fam_res is None or len(fam_res) != len(fam_cases):
        done = len(fam_res) if fam_res else 0
        ctx.report("implementation child (family) died (rc=%s) on case %d: %s" % (fam_info.get("rc"), done, fam_info.get("tail", "")[-400:]),
                   {"stage": "impl-crash", "case": groups["family"][done // 3] if done // 3 < len(groups["family"]) else None}, found_input=True)
        fam_res = (fam_res or []) + [{"err": "crash"}] * (len(fam_cases) - done)
    for name in res:
        got, info = res[name]
        if got is None or len(got) != len(groups[name]):
            done = len(got) if got else 0
            ctx.report("implementation child (%s) died (rc=%s) on case %d: %s" % (name, info.get("rc"), done, info.get("tail", "")[-400:]),
                       {"stage": "impl-crash", "case": groups[name][done] if done < len(groups[name]) else None}, found_input=True)
            res[name] = ((got or []) + [{"err": "crash"}] * (len(groups[name]) - done), info)
    n_or = 0
    for c, g in zip(groups["oracle"], res["oracle"][0]):
        kind = c["kind"] + ":" + (c.get("window", {}).get("orientation") or c.get("ngram", {}).get("behaviour", "")) + \
            (":variable" if c.get("window", {}).get("window_function") == "variable" else "")
        if "err" in g and ((g["err"] == "ValueError" and "empty" in g.get("msg", "")) or
                           (c["kind"] == "ngram" and g["err"] in ("ZeroDivisionError", "AssertionError"))):
            # every token pruned (ties under max_unique_tokens) / no n-gram left for an occurrence bound of the
            # second stage: no vocabulary to mask — outside the property's quantifier
            ctx.count_case(c, nontrivial=False, kind=kind + ":empty")
            continue
        if "err" in g:
            ctx.count_case(c, nontrivial=False, kind=kind + ":error")
            ctx.report("%s raised %s: %s" % (c["kind"], g["err"], g.get("msg", "")),
                       {"stage": "oracle", "case": c, "actual": g})
            continue
        nvoc = len(g["vocab"])
        ctx.count_case(c, nontrivial=0 < nvoc < len({t for d in c["docs"] for t in d}), kind=kind)
        fails = {"cooc": oracle_cooc, "tree": oracle_tree, "ngram": oracle_ngram}[c["kind"]](c, g)
        n_or += 1
        if fails:
            ctx.report("%s: %s" % (c["kind"], "; ".join(fails[:3])), {"stage": "oracle", "case": c, "failures": fails,
                                                                      "actual": {k: g[k] for k in g if k.endswith("dict") or k == "vocab"}})
    fam_stats = {k: 0 for k in c03.STAT_KEYS}
    for j, f in enumerate(groups["family"]):
        cs, rs = fam_cases[3 * j:3 * j + 3], fam_res[3 * j:3 * j + 3]
        fails, st = oracle_family(f, cs, rs)
        for k in st:
            fam_stats[k] += st[k]
        ctx.count_case(f, nontrivial=all("ok" in r for r in rs),
                       kind="family:%s%s%s" % (f["base"]["kind"], "+past" if f.get("history") else "", "+then" if f.get("then") else ""))
        n_or += 1
        if fails:
            ctx.report("co-occurrence family (%s)%s: %s" % (f["base"]["kind"], c03.past_note(cs[0]), "; ".join(fails[:3])),
                       {"stage": "oracle", "case": f, "failures": fails, "as_c03_cases": cs})
    ctx.coverage["family"] = {"families": len(groups["family"]), "child_wall_s": fam_info.get("wall_s"), "fits_on_an_estimator_with_a_past": fam_stats["with_past"],
                              "matrices_equal_to_the_pointwise_definition": fam_stats["oracle_ok"],
                              "later_transforms_judged": fam_stats["then_ok"], "no_kept_token_or_ngram": fam_stats["expected_error"]}
    ctx.coverage["call_histories"] = {"token/tree/NgramVectorizer cases with a past": sum(1 for c in groups["oracle"] if c.get("history")),
                                      "family cases with a past": sum(1 for f in groups["family"] if f.get("history"))}
    corr_bad, n_corr = [], 0
    for c, g, m in zip(groups["kernel"], res["kernel"][0], mk):
        ctx.count_case(c, nontrivial=bool(c["window"]) or bool(c["seq"]), kind="kernel:" + c["kernel"] + (":nullify" if c["mask_index"] is not None else ""))
        n_corr += 1
        if "err" in g:
            corr_bad.append((c, g, "implementation raised %s" % g["err"]))
            continue
        d = compare_kernel(c, g, m)
        if d:
            corr_bad.append((c, g, d))
        elif c["mask_index"] is not None:
            # property at the weight level: masked contexts weigh 0
            bad = [j for j, t in enumerate(c["window"]) if t == c["mask_index"] and g["weights"][j] != 0.0]
            if bad:
                ctx.report("kernel weight of a masked context is not zero at positions %r" % bad, {"stage": "oracle", "case": c, "actual": g})
    for c, g, m in zip(groups["reindex"], res["reindex"][0], mr):
        removed = ("dict" in g) and len([k for k, _ in g["dict"] if k != c.get("mask")]) < len({t for d in c["docs"] for t in d})
        ctx.count_case(c, nontrivial=bool(removed), kind="reindex:" + c["entry"] + (":mask" if c.get("mask") is not None else ":delete"))
        fails = positions_oracle(c, g)
        n_or += 1
        if fails:
            ctx.report("re-indexing (%s): %s" % (c["entry"], "; ".join(fails[:2])), {"stage": "oracle", "case": c, "actual": g})
            continue
        n_corr += 1
        d = compare_reindex(c, g, m)
        if d:
            corr_bad.append((c, g, d))
    ctx.coverage["correspondence"] = {"cases": n_corr, "disagreements": len(corr_bad),
                                      "model": "Model/K6_Reindex.v, Model/C14_MaskKernel.v via vm_compute",
                                      "compared": "re-indexed sequences / labels and final dictionary of the four preprocess_* "
                                                  "functions; kernel weights (1e-9), radii, windows, one-window matrices"}
    ctx.coverage["oracle"] = {"cases": n_or}
    ctx.coverage["traces_validated_against_impl"] = n_corr
    if corr_bad and not any(v["found_input"] for v in ctx.violations):
        c, g, d = corr_bad[0]
        ctx.report("model and implementation disagree (no property-level failure found): %s" % d,
                   {"stage": "correspondence", "correspondence": "Model/K6_Reindex.v, C14_MaskKernel.v <-> preprocessing.py, _window_kernels.py",
                    "case": c, "actual": g}, found_input=False)
    C.gate_violation(ctx)
    return ctx.finish("proof")
