"""C09 — byte-pair encodings are lossless, reproducible, within budget.
Proof gate (Properties/C09.v) + correspondence of Model/K8_BPE.v with vectorizers/mixed_gram_vectorizer.py (the model's
training skeleton is driven by the implementation's own code_list_ as its pair-selection oracle) + property oracle
(the statement of C09 evaluated directly on the implementation's outputs)."""
import itertools
from . import common as C

HEADER = """From Coq Require Import ZArith List.
From VZ Require Import Model.K8_BPE Model.K8_BPE_select.
Import ListNotations.
Open Scope Z_scope.
Fixpoint all_strings_len (alpha : list Z) (n : nat) : list (list Z) :=
  match n with O => [[]] | S n' => flat_map (fun c => map (cons c) (all_strings_len alpha n')) alpha end.
Definition all_strings (alpha : list Z) (n : nat) : list (list Z) := flat_map (all_strings_len alpha) (seq 0 (S n)).
Definition enc_all (t : trained) (X : list (list Z)) := mapM (bpe_encode (t_merges t) (t_mcc t)) X.
Definition on {A B} (r : res A) (f : A -> B) : res B := match r with Ok a => Ok (f a) | Err s => Err s end.
Definition view (t : trained) (X Xn : list (list Z)) :=
  let codes := unique_codes (t_enc t) in
  let eX := enc_all t X in
  let eN := enc_all t Xn in
  (t_tokens t, t_merges t, t_enc t, t_mcc t, (eX, eN),
   (codes, matrix_fit (t_enc t), on eX (matrix_transform codes), on eN (matrix_transform codes)),
   (tokens_out (t_tokens t) (t_mcc t) (t_enc t), bind eX (tokens_out (t_tokens t) (t_mcc t)),
    bind eN (tokens_out (t_tokens t) (t_mcc t))),
   mapM (bpe_decode (t_tokens t) (t_mcc t)) (t_enc t)).
Definition train_of (CL : list (Z * Z)) (X : list (list Z)) (V MCC0 : Z) :=
  bpe_train _ (replay_init CL) replay_step X V MCC0.
Definition fit_case CL X V MCC0 Xn := on (train_of CL X V MCC0) (fun t => view t X Xn).
Definition exh_case CL X V MCC0 alpha n := bind (train_of CL X V MCC0) (fun t => enc_all t (all_strings alpha n)).
Definition kernel_case l a b c :=
  (contract_pair_arr l a b c, contract a b c l, cacp l a b c (count_pairs [l; [a; b; a; b]])).
(* the whole of bpe_train, pair selection included (no input from the implementation) *)
Definition full_case MINTOK X V MCC0 :=
  on (bpe_train _ (impl_init MINTOK) impl_step X V MCC0) (fun t => (t_tokens t, t_merges t, t_enc t, t_mcc t)).
"""

NAMES_LIMIT = {"ascii": 127, "common": 2047, "bmp": 65535, "unicode": 1114111}


def mcc_value(m):
    return NAMES_LIMIT[m] if isinstance(m, str) else m


def all_strings(alpha, n):
    return [list(t) for k in range(n + 1) for t in itertools.product(alpha, repeat=k)]


def pairs(cl):
    return "[" + "; ".join("(%s, %s)" % (C.z(a), C.z(b)) for a, b in cl) + "]"


# ------------------------------------------------------------------ the property's statement, in Python
def clamp(s, mcc):
    return [c if c <= mcc else 0 for c in s]


def tokstr(c, tokens, mcc):
    if c <= mcc:
        if not 0 <= c <= 0x10FFFF:
            raise ValueError("chr")
        return [c]
    k = c - mcc - 1
    if k >= len(tokens):
        raise IndexError("token")
    return list(tokens[k])


def decode(seq, tokens, mcc):
    return [x for c in seq for x in tokstr(c, tokens, mcc)]


def counts_row(seq, cols):
    d = {}
    for c in seq:
        if c in cols:
            d[cols[c]] = d.get(cols[c], 0) + 1
    return sorted([j, n] for j, n in d.items())


def contract_spec(l, a, b, c):
    out, i = [], 0
    while i < len(l):
        if i + 1 < len(l) and l[i] == a and l[i + 1] == b:
            out.append(c)
            i += 2
        else:
            out.append(l[i])
            i += 1
    return out


def has_repeated_pair(X):
    d = {}
    for s in X:
        for i in range(len(s) - 1):
            d[(s[i], s[i + 1])] = d.get((s[i], s[i + 1]), 0) + 1
    return any(v >= 2 for v in d.values())


def oracle(case, r, Xn):
    """Failures of the property itself on the implementation's outputs: list of (what, index of the new string or None)."""
    bad = []
    for rt in ("sequences", "tokens", "matrix"):
        for k, v in r[rt].items():
            if isinstance(v, dict) and "err" in v:
                bad.append(("%s/%s raised %s: %s" % (rt, k, v["err"], v.get("msg", "")[:120]), None))
    if bad:
        return bad
    sq = r["sequences"]
    tokens, cl, mcc = sq["tokens_"], sq["code_list_"], sq["max_char_code_"]
    for rt in ("tokens", "matrix"):
        if (r[rt]["tokens_"], r[rt]["code_list_"], r[rt]["max_char_code_"]) != (tokens, cl, mcc):
            bad.append(("fitted model differs between return_type=sequences and %s" % rt, None))
    if mcc < max([mcc_value(case["mcc"])] + [c for s in case["X"] for c in s]) or \
            mcc != max([mcc_value(case["mcc"])] + [c for s in case["X"] for c in s]):
        bad.append(("max_char_code_ = %d is not max(max_char_code, training code points)" % mcc, None))
    if len(tokens) > case["vocab"] or len(tokens) != len(cl):
        bad.append(("%d tokens learned, max_vocab_size=%d, %d pairs" % (len(tokens), case["vocab"], len(cl)), None))
    for i, (a, b) in enumerate(cl):
        try:
            ok = a < mcc + 1 + i and b < mcc + 1 + i and tokens[i] == tokstr(a, tokens, mcc) + tokstr(b, tokens, mcc)
        except Exception:
            ok = False
        if not ok:
            bad.append(("token %d = %r is not the concatenation of its pair %r" % (i, tokens[i], (a, b)), None))

    def lossless(name, seqs, strs, new):
        for i, (e, s) in enumerate(zip(seqs, strs)):
            try:
                d = decode(e, tokens, mcc)
            except Exception as ex:
                d = "undecodable: %r" % ex
            if d != clamp(s, mcc):
                bad.append(("%s: string %r encodes to %r which decodes to %r" % (name, s, e, d), i if new else None))
        if len(seqs) != len(strs):
            bad.append(("%s: %d encodings for %d strings" % (name, len(seqs), len(strs)), None))

    ft, tt = sq["fit_transform"]["ok"], sq["transform_train"]["ok"]
    lossless("fit_transform", ft, case["X"], False)
    lossless("transform(training strings)", tt, case["X"], False)
    if ft != tt:
        i = [k for k in range(min(len(ft), len(tt))) if ft[k] != tt[k]][:1]
        bad.append(("transform re-encodes the training strings differently from fit_transform (string %s): %r vs %r"
                    % (i, [ft[k] for k in i], [tt[k] for k in i]), None))
    views = [("fit_transform", ft, "fit_transform", False), ("transform(training strings)", tt, "transform_train", False)]
    if Xn:
        tn = sq["transform_new"]["ok"]
        lossless("transform", tn, Xn, True)
        views.append(("transform", tn, "transform_new", True))
    if sq["decoded_fit"].get("ok") != [list(s) for s in case["X"]]:
        bad.append(("bpe_decode(fit_transform encodings) != training strings", None))
    if Xn and sq.get("decoded_new", {}).get("ok") != [clamp(s, mcc) for s in Xn]:
        bad.append(("bpe_decode(transform encodings) != clamped strings", None))
    cols = {c: j for c, j in r["matrix"]["columns"]}
    used = sorted({c for e in ft for c in e})
    if sorted(cols) != used or sorted(cols.values()) != list(range(len(used))):
        bad.append(("column_label_dictionary_ %r is not a numbering of the codes used by the training encodings %r"
                    % (r["matrix"]["columns"], used), None))
    for name, seqs, key, new in views:
        tk = r["tokens"][key]["ok"]
        for i, e in enumerate(seqs):
            try:
                want = [tokstr(c, tokens, mcc) for c in e]
            except Exception:
                continue            # already reported by lossless
            if i >= len(tk) or tk[i] != want:
                bad.append(("%s 'tokens' row %d is not the code strings of the 'sequences' row" % (name, i), i if new else None))
        m = r["matrix"][key]["ok"]
        if m["shape"] != [len(seqs), len(cols)]:
            bad.append(("%s 'matrix' shape %r, expected %r" % (name, m["shape"], [len(seqs), len(cols)]), None))
        for i, e in enumerate(seqs):
            if i >= len(m["rows"]) or m["rows"][i] != counts_row(e, cols):
                bad.append(("%s 'matrix' row %d = %r is not the code counts %r of the 'sequences' row"
                            % (name, i, m["rows"][i] if i < len(m["rows"]) else None, counts_row(e, cols)),
                            i if new else None))
    return bad


def kernel_oracle(c, r):
    """one contraction preserves the decoding: reading the new code as its pair gives the input back (only when the
    new code does not already occur in the input, otherwise the reading is ambiguous)"""
    a, b = c["pair"]
    bad = []
    if c["code"] in c["codes"]:
        return bad
    for k in ("contract_pair", "contract_and_count_pairs"):
        out = r[k].get("ok")
        back = None if out is None else [y for x in out for y in ([a, b] if x == c["code"] else [x])]
        if back != c["codes"]:
            bad.append("%s(%r, pair=%r, new_code=%r) = %s does not decode to its input"
                       % (k, c["codes"], c["pair"], c["code"], str(r[k])[:200]))
    return bad


def sel_sound(case, cl, mcc):
    """Hypothesis of C09_train_wf, checked on the implementation's choices: each learned pair occurs (adjacent) in the
    encodings current at the time it is chosen."""
    enc = [list(s) for s in case["X"]]
    for i, (a, b) in enumerate(cl):
        if not any(e[k] == a and e[k + 1] == b for e in enc for k in range(len(e) - 1)):
            return False
        enc = [contract_spec(e, a, b, mcc + 1 + i) for e in enc]
    return True


# ------------------------------------------------------------------ generators
ALPHAS = [[97, 98], [97, 98, 99], [97], [97, 98, 99, 100], [97, 233, 20013], [128512, 97, 98], [0, 1, 2],
          [120, 121, 122, 32], [65, 66]]
UNSEEN = [99, 122, 48, 233, 300, 301, 2047, 2048, 20013, 65535, 65536, 128512, 1114111, 0, 127, 128]
MCCS = [0, 0, 0, 50, 98, 99, 100, "ascii", 300, "common", "bmp", "unicode", 20013, 128511]
LENS = [0, 0, 1, 1, 2, 2, 3, 4, 5, 6, 8, 10, 14]


def gen_string(rng, alpha):
    n = rng.choice(LENS)
    r = rng.random()
    if r < 0.35:
        return [rng.choice(alpha) for _ in range(n)]
    if r < 0.7:
        motif = [rng.choice(alpha) for _ in range(rng.randint(1, 3))]
        return (motif * (n // len(motif) + 1))[:n]
    return [rng.choice(alpha)] * n


def gen_fit(rng):
    alpha = rng.choice(ALPHAS)
    for _ in range(100):
        X = [gen_string(rng, alpha) for _ in range(rng.randint(1, 5))]
        # bpe_train raises ValueError unless some pair of adjacent characters occurs twice in the corpus (np.max of an
        # empty array / chr(-1)): such corpora are not fittable, they go to the malformed stream (gen_nofit)
        if has_repeated_pair(X):
            break
    else:
        X = [[alpha[0]] * 4]
    pool = alpha + [rng.choice(UNSEEN) for _ in range(2)]
    Xn = [gen_string(rng, pool if rng.random() < 0.6 else alpha) for _ in range(rng.randint(1, 6))]
    if rng.random() < 0.5:
        Xn += [[], [rng.choice(pool)], [rng.choice(alpha)] * 2]
    return {"kind": "fit", "prehistory": rng.random() < 0.4, "X": X, "Xnew": Xn, "vocab": rng.choice([1, 1, 2, 2, 3, 4, 5, 8, 10000]),
            "mintok": rng.choice([1, 1, 1, 2, 3, 5]), "mcc": rng.choice(MCCS)}


def gen_nofit(rng):
    X = rng.choice([[[97, 98, 99], [100, 101]], [[97], [], [98]], [[]], [[97, 98]], [[97], [97]], [[97, 98, 99, 100]]])
    return {"kind": "nofit", "X": X, "Xnew": [], "vocab": rng.choice([1, 3, 10000]), "mintok": 1, "mcc": rng.choice([0, "ascii"])}


def gen_kernel(rng):
    alpha = rng.choice([[1, 2], [1, 2, 3], [1]])
    n = rng.choice([0, 1, 1, 2, 2, 3, 3, 4, 5, 6, 7, 9])
    l = [rng.choice(alpha) for _ in range(n)]
    a, b = rng.choice(alpha), rng.choice(alpha)
    return {"kind": "kernel", "codes": l, "pair": [a, b], "code": rng.choice([9, 3, 1, 0, -1])}


CORPUS = [
    # D8: the last learned pair must be contracted in the fit_transform encodings (vocab reached)
    {"kind": "fit", "X": [[97, 98, 97, 98]], "Xnew": [[97, 98]], "vocab": 1, "mintok": 1, "mcc": 0},
    {"kind": "fit", "X": [[97, 98] * 3 + [32] + [97, 98] * 3], "Xnew": [[97], []], "vocab": 2, "mintok": 1, "mcc": 0},
    # D14: one-character and empty strings, in training and at transform
    {"kind": "fit", "X": [[97] * 8, [97], []], "Xnew": [[97], [], [98], [97, 97]], "vocab": 10000, "mintok": 1, "mcc": 0},
    # D5: unseen characters / codes with return_type='matrix'; a string collapsing to one code
    {"kind": "fit", "X": [[97, 98] * 4, [97, 98] * 4], "Xnew": [[122, 122, 97, 98], [97, 98], [97, 98] * 4, [300]],
     "vocab": 10, "mintok": 1, "mcc": 0},
    {"kind": "fit", "X": [[97, 98, 233, 97, 98, 233]], "Xnew": [[233, 234, 97, 98, 233]], "vocab": 5, "mintok": 1, "mcc": "ascii"},
    {"kind": "kernel", "codes": [], "pair": [1, 2], "code": 9},
    {"kind": "kernel", "codes": [1], "pair": [1, 2], "code": 9},
    {"kind": "kernel", "codes": [1, 1, 1], "pair": [1, 1], "code": 9},
    {"kind": "nofit", "X": [[97, 98, 99]], "Xnew": [], "vocab": 3, "mintok": 1, "mcc": 0},
]


def exhaustive_cases(rng, maxlen):
    abc = [97, 98, 99]
    fixed = [
        ([[97, 98, 99] * 3, [97, 97, 98, 98, 99, 99, 97, 98, 97, 98], [99, 97, 98, 99, 97, 98]], 10000, 0, abc),
        ([[97] * 8, [97]], 10000, 0, abc),                     # b, c are above max_char_code_ = 97: clamped to 0
        ([[97, 98] * 4, [97, 98] * 4], 3, 0, abc),             # training strings collapse to one code
        ([[97, 98, 97, 98]], 1, 0, abc),                       # vocabulary budget reached by the first pair
        ([[97, 98, 98, 97] * 3, [98, 98, 98, 98]], 4, 300, [97, 98, 400]),
    ]
    out = []
    for X, v, m, alpha in fixed:
        out.append({"kind": "exh", "X": X, "vocab": v, "mintok": 1, "mcc": m, "alpha": alpha, "maxlen": maxlen, "Xnew": []})
    for _ in range(2):
        X = [[rng.choice(abc) for _ in range(rng.randint(4, 14))] for _ in range(rng.randint(2, 4))] + [[97, 98, 97, 98]]
        out.append({"kind": "exh", "X": X, "vocab": rng.choice([2, 3, 6, 10000]), "mintok": 1, "mcc": rng.choice([0, 98, 200]),
                    "alpha": abc, "maxlen": maxlen, "Xnew": []})
    return out


# ------------------------------------------------------------------ model rendering / comparison
def coq_case(c, r):
    if c["kind"] == "kernel":
        return "kernel_case %s %s %s %s" % (C.coq_list(c["codes"]), C.z(c["pair"][0]), C.z(c["pair"][1]), C.z(c["code"]))
    cl = []
    if r and "code_list_" in r.get("sequences", {}):
        cl = r["sequences"]["code_list_"]
    args = "%s %s %s %s" % (pairs(cl), C.coq_list2(c["X"]), C.z(c["vocab"]), C.z(mcc_value(c["mcc"])))
    if c["kind"] == "exh":
        return "exh_case %s %s %d%%nat" % (args, C.coq_list(c["alpha"]), c["maxlen"])
    return "fit_case %s %s" % (args, C.coq_list2(c["Xnew"]))


def coq_full(c):
    return "full_case %s %s %s %s" % (C.z(c["mintok"]), C.coq_list2(c["X"]), C.z(c["vocab"]), C.z(mcc_value(c["mcc"])))


def full_correspondence(case, r, m):
    """the model of the whole training (selection included) against the fitted attributes"""
    ok, v = unres(m)
    sq = r.get("sequences", {})
    impl_ok = "ok" in sq.get("fit_transform", {})
    if not ok or not impl_ok:
        return [("fit (full training model)", sq.get("fit_transform"), m)] if ok != impl_ok else []
    toks, ms, enc, mcc = v
    diffs = []
    for name, a, b in [("code_list_ (full training model)", sq["code_list_"], [[x, y] for x, y in ms]),
                       ("tokens_ (full training model)", sq["tokens_"], toks),
                       ("fit_transform sequences (full training model)", sq["fit_transform"]["ok"], enc),
                       ("max_char_code_ (full training model)", sq["max_char_code_"], mcc)]:
        if a != b:
            diffs.append((name, a, b))
    return diffs


def unres(v):
    """("Ok", x) -> (True, x); ("Err", n) -> (False, n)"""
    return (v[0] == "Ok", v[1])


def mat_model(v):
    ok, m = unres(v)
    if not ok:
        return {"err": m}
    nr, nc, rows = m
    return {"shape": [nr, nc], "rows": [[[j, n] for j, n in row] for row in rows]}


def mat_impl(v):
    if "ok" not in v:
        return {"err": v.get("err")}
    return {"shape": v["ok"]["shape"], "rows": v["ok"]["rows"]}


def seq_impl(v):
    return v["ok"] if "ok" in v else {"err": v.get("err")}


def res_model(v):
    ok, x = unres(v)
    return x if ok else {"err": x}


def correspondence(case, r, m):
    """model value m vs implementation result r: list of differing fields."""
    diffs = []
    if case["kind"] == "kernel":
        arr, spec, full = m
        for k in ("contract_pair", "contract_and_count_pairs"):
            if seq_impl(r[k]) != res_model(arr):
                diffs.append((k, seq_impl(r[k]), res_model(arr)))
        if res_model(arr) != spec:
            diffs.append(("contract_pair_arr vs contract (spec)", res_model(arr), spec))
        okf, vf = unres(full)
        want = {"err": vf} if not okf else [vf[0], [[a, b, n] for a, b, n in vf[1]]]
        got = [r["contract_and_count_pairs"].get("ok"), r["cacp_dict"].get("ok")] if "ok" in r["contract_and_count_pairs"] else {"err": "raised"}
        if got != want and not (isinstance(got, dict) and isinstance(want, dict)):
            diffs.append(("contract_and_count_pairs (array, pair_counts)", got, want))
        return diffs
    ok, v = unres(m)
    sq = r.get("sequences", {})
    impl_ok = "ok" in sq.get("fit_transform", {})
    if not ok or not impl_ok:
        if ok != impl_ok:
            diffs.append(("fit", sq.get("fit_transform"), m))
        return diffs
    if case["kind"] == "exh":
        if seq_impl(sq["transform_new"]) != v:
            tn = seq_impl(sq["transform_new"])
            k = [i for i in range(len(v)) if not isinstance(tn, list) or i >= len(tn) or tn[i] != v[i]][:1]
            diffs.append(("transform sequences (exhaustive) first differing index %s" % k, None, None))
        return diffs
    toks, ms, enc, mcc, (eX, eN), (codes, mfit, mtX, mtN), (kfit, kX, kN), dec = v
    pairs_ = [[a, b] for a, b in ms]
    for name, a, b in [
        ("tokens_", sq["tokens_"], toks), ("code_list_", sq["code_list_"], pairs_), ("max_char_code_", sq["max_char_code_"], mcc),
        ("fit_transform sequences", seq_impl(sq["fit_transform"]), enc),
        ("transform(train) sequences", seq_impl(sq["transform_train"]), res_model(eX)),
        ("bpe_decode(fit_transform)", seq_impl(sq["decoded_fit"]), res_model(dec)),
        ("columns", [c for c, _ in r["matrix"]["columns"]], codes),
        ("fit_transform matrix", mat_impl(r["matrix"]["fit_transform"]), mat_model(mfit)),
        ("transform(train) matrix", mat_impl(r["matrix"]["transform_train"]), mat_model(mtX)),
        ("fit_transform tokens", seq_impl(r["tokens"]["fit_transform"]), res_model(kfit)),
        ("transform(train) tokens", seq_impl(r["tokens"]["transform_train"]), res_model(kX)),
    ] + ([("transform(new) sequences", seq_impl(sq["transform_new"]), res_model(eN)),
          ("transform(new) matrix", mat_impl(r["matrix"]["transform_new"]), mat_model(mtN)),
          ("transform(new) tokens", seq_impl(r["tokens"]["transform_new"]), res_model(kN))] if case["Xnew"] else []):
        if a != b:
            diffs.append((name, a, b))
    return diffs


def expand(case):
    """the strings transform is applied to"""
    return all_strings(case["alpha"], case["maxlen"]) if case["kind"] == "exh" else case["Xnew"]


def impl_payload(cases):
    out = []
    for c in cases:
        if c["kind"] == "exh":
            c = dict(c, Xnew=expand(c))
        out.append(c)
    return out


def run(ctx, replay=None):
    from concurrent.futures import ThreadPoolExecutor
    C.run_gate(ctx)
    quick = ctx.quick
    if replay:
        cases = [replay["case"]]
        exh = [c for c in cases if c["kind"] == "exh"]
    else:
        # a fit case costs about 0.4 s in the compiled child (9 estimator calls): this bounds the thorough count
        n_fit, n_ker, n_no = (140, 120, 8) if quick else (800, 800, 30)
        exh = exhaustive_cases(ctx.rng, 7 if quick else 9)
        cases = CORPUS + exh + [gen_fit(ctx.rng) for _ in range(n_fit)] + [gen_kernel(ctx.rng) for _ in range(n_ker)] + \
            [gen_nofit(ctx.rng) for _ in range(n_no)]
    ctx.coverage["rule"] = ("fit: random training corpus (with a repeated pair) x max_vocab_size x min_token_occurrence x "
                            "max_char_code x new strings incl. unseen characters, all three return types, fit_transform and "
                            "transform; exh: transform of ALL strings over a 3-letter alphabet up to the length bound for 7 "
                            "fitted models; kernel: contract_pair / contract_and_count_pairs on raw arrays; nofit: unfittable "
                            "corpora (only 'raises an exception'). non-trivial = at least one merge applied")
    ctx.assumptions += [
        "training corpora contain a pair of adjacent characters occurring at least twice (bpe_train raises ValueError otherwise)",
        "transform is called with a non-empty list of strings (numba cannot type an empty reflected list)",
        "code points are below 2^31 and never surrogates; the pair-selection heuristic is an oracle of the model: the "
        "implementation's code_list_ is replayed, and the theorem hypothesis (the chosen pair occurs in the current encodings) "
        "is checked on it",
    ]
    payload = impl_payload(cases)
    # interpreted / bounds-checked runs: everything except the large exhaustive sets (one smaller exhaustive set instead)
    small = []
    for c in cases:
        if c["kind"] == "exh":
            if c is exh[0]:
                small.append(dict(c, maxlen=min(c["maxlen"], 6)))
        else:
            small.append(c)
    with ThreadPoolExecutor(max_workers=3) as ex:
        f_jit = ex.submit(staggered, 0, "c09", payload)
        f_py = ex.submit(staggered, 1, "c09", impl_payload(small), {"NUMBA_DISABLE_JIT": "1"})
        f_bc = ex.submit(staggered, 2, "c09", impl_payload(small), {"NUMBA_BOUNDSCHECK": "1"})
        (impl, info), (ipy, info_py), (ibc, info_bc) = f_jit.result(), f_py.result(), f_bc.result()
    if impl is None or len(impl) != len(cases):
        done = len(impl) if impl else 0
        ctx.report("implementation child died (rc=%s) on case %d: %s" % (info["rc"], done, info["tail"][-400:]),
                   {"stage": "impl-crash", "case": cases[min(done, len(cases) - 1)]}, found_input=True)
        impl = (impl or []) + [None] * (len(cases) - done)
    other_modes = (("NUMBA_DISABLE_JIT=1", ipy, info_py), ("NUMBA_BOUNDSCHECK=1", ibc, info_bc))
    ctx.coverage["modes"] = {"compiled": len(cases), "NUMBA_DISABLE_JIT=1": len(ipy or []), "NUMBA_BOUNDSCHECK=1": len(ibc or [])}
    import time
    t_coq = time.time()
    model = C.coq_eval_sharded("C09", HEADER, [coq_case(c, r) for c, r in zip(cases, impl)], shard=60)
    trainable = [k for k, c in enumerate(cases) if c["kind"] != "kernel"]
    full = dict(zip(trainable, C.coq_eval_sharded("C09full", HEADER, [coq_full(cases[k]) for k in trainable], shard=100)))
    ctx.coverage["wall_s"] = {"compiled": info["wall_s"], "NUMBA_DISABLE_JIT=1": info_py["wall_s"],
                              "NUMBA_BOUNDSCHECK=1": info_bc["wall_s"], "coq_model": round(time.time() - t_coq, 1)}
    n_corr = n_or = n_strings = n_sound = 0
    corr_bad = []
    for k_case, (c, r, m) in enumerate(zip(cases, impl, model)):
        if r is None:
            continue
        kind = c["kind"]
        if kind == "kernel":
            ctx.count_case(c, nontrivial=len(c["codes"]) >= 2, kind="kernel:len%d" % min(len(c["codes"]), 3))
            for what in kernel_oracle(c, r):
                ctx.report(what, {"stage": "oracle", "case": c})
        elif kind == "nofit":
            ctx.count_case(c, nontrivial=False, kind="nofit")
            raised = all("err" in r[rt]["fit_transform"] for rt in ("sequences", "tokens", "matrix"))
            if not raised and not has_repeated_pair(c["X"]):
                pass   # fitting such a corpus without an exception would be fine for the property; nothing to demand
        else:
            Xn = expand(c)
            n_strings += len(Xn) + len(c["X"])
            if "err" in r or "sequences" not in r:
                ctx.report("implementation failed on a valid case: %s" % str(r)[:300], {"stage": "oracle", "case": c})
                continue
            bad = oracle(c, r, Xn)
            n_or += 1
            sq = r["sequences"]
            nontriv = "ok" in sq["fit_transform"] and any(x > sq["max_char_code_"] for e in sq["fit_transform"]["ok"] for x in e)
            if kind == "exh":
                ctx.dist("exh:strings", len(Xn))
                ctx.count_case(c, nontrivial=True, kind="exh:model")
                ctx.coverage["evaluations"] += len(Xn)
            else:
                ctx.count_case(c, nontrivial=nontriv, kind="fit:vocab%s:%s" % (c["vocab"] if c["vocab"] < 10 else "big",
                                                                               "unseen" if any(x > sq.get("max_char_code_", 0) for s in Xn for x in s) else "seen"))
                for s in c["X"] + Xn:
                    ctx.dist("len%d" % min(len(s), 3) + ("+" if len(s) >= 3 else ""))
            for what, i in bad[:2]:
                ctx.report(what, {"stage": "oracle", "case": shrink_to(c, i), "fitted": {k: sq.get(k) for k in ("tokens_", "code_list_", "max_char_code_")}})
            if bad:
                continue
            if "code_list_" in sq:
                n_sound += 1
                if not sel_sound(c, sq["code_list_"], sq["max_char_code_"]):
                    ctx.report("a learned pair does not occur in the encodings current when it was chosen (hypothesis sel_sound of "
                               "C09_train_wf): code_list_=%r" % sq["code_list_"], {"stage": "assumption", "case": c}, found_input=False)
        n_corr += 1
        d = correspondence(c, r, m)
        if k_case in full:
            d += full_correspondence(c, r, full[k_case])
        if d:
            corr_bad.append((c, d))
    # the other execution modes: a result identical to the compiled one inherits its verdict; a different one is judged
    # by the property oracle on its own (a mere difference between modes is C10's business, not a C09 failure)
    mode_diffs = 0
    for name, other, inf in other_modes:
        if other is None or len(other) != len(small):
            done = len(other) if other else 0
            ctx.report("%s child died (rc=%s) on case %d: %s" % (name, inf["rc"], done, inf["tail"][-400:]),
                       {"stage": "impl-crash", "mode": name, "case": small[min(done, len(small) - 1)]}, found_input=True)
            continue
        ref = {id(c): r for c, r in zip(cases, impl)}
        for c, ro in zip(small, other):
            if c["kind"] == "nofit" or ro is None:
                continue
            rj = ref.get(id(c))
            if rj is not None and strip(rj) == strip(ro):
                continue
            mode_diffs += c["kind"] != "exh"
            if c["kind"] == "kernel":
                for what in kernel_oracle(c, ro):
                    ctx.report("[%s] %s" % (name, what), {"stage": "oracle", "mode": name, "case": c})
            elif "sequences" in ro:
                for what, i in oracle(c, ro, expand(c))[:1]:
                    ctx.report("[%s] %s" % (name, what), {"stage": "oracle", "mode": name, "case": shrink_to(c, i)})
    ctx.coverage["mode_differences_not_violating"] = mode_diffs
    ctx.coverage["correspondence"] = {"cases": n_corr, "disagreements": len(corr_bad), "model": "Model/K8_BPE.v via vm_compute",
                                      "exhaustive": True, "exhaustive_bound": "all strings over 3 letters up to length %d, %d fitted models"
                                      % (exh[0]["maxlen"] if exh else 0, len(exh))}
    ctx.coverage["oracle"] = {"cases": n_or, "strings_encoded": n_strings, "sel_sound_checked": n_sound}
    ctx.coverage["traces_validated_against_impl"] = n_corr
    if corr_bad and not any(v["found_input"] for v in ctx.violations):
        c, d = corr_bad[0]
        ctx.report("model K8_BPE and implementation disagree (no property-level failure found) on %s: impl %s, model %s"
                   % (d[0][0], str(d[0][1])[:300], str(d[0][2])[:300]),
                   {"stage": "correspondence", "correspondence": "Model/K8_BPE.v <-> mixed_gram_vectorizer.py (BPE)",
                    "case": c if c["kind"] != "exh" else dict(c), "field": d[0][0]}, found_input=False)
    C.gate_violation(ctx)
    return ctx.finish("proof")


def staggered(k, *args):
    """common.run_impl names its scratch files by pid and millisecond: concurrent calls must not start together"""
    import time
    time.sleep(0.3 * k)
    return C.run_impl(*args)


def strip(r):
    """drop tracebacks/messages so that results of two execution modes can be compared"""
    if isinstance(r, dict):
        return {k: strip(v) for k, v in r.items() if k not in ("tb", "msg")}
    if isinstance(r, list):
        return [strip(x) for x in r]
    return r


def shrink_to(case, i):
    """restrict the transform input to the failing string"""
    if i is None:
        return case if case["kind"] != "exh" else dict(case, kind="fit", Xnew=[])
    Xn = expand(case)
    c = dict(case, kind="fit", Xnew=[Xn[i]])
    c.pop("alpha", None)
    c.pop("maxlen", None)
    return c
