"""C04 — co-occurrence results do not depend on threads, buffer sizes or data volume.

Stages
  proof gate      Properties/C04.v (Print Assumptions per theorem, hygiene)
  state level     Model/K01_CooAcc.v (vm_compute) vs the real numba kernels of vectorizers/coo_utils.py driven directly
                  on a CooArray, one child process per COO_QUICKSORT_LIMIT value (overridden before the first numba
                  compilation); after EVERY op the observation (ind, depth, capacity, |min|, min[:depth+1], digest of the
                  live row/col/val/key entries) is compared, at the end the complete live entries; the property oracle
                  (sum by key of the events = live entries, keys strictly increasing, row/col of each key) is evaluated
                  on the implementation's final state independently of the model
                  long pure runs (300-900 events: one or two cells at limit < capacity = deep level stacks; all keys
                  distinct = repeated coo_increase_mem of both arrays; few keys at capacity <= limit = depth <= 3 for ever;
                  alternating blocks) with driver-shaped |min| exercise the region of C04_acc_total_volume beyond
                  C04_acc_total, and the consequences of its invariant (level counter <= 4*(F+1), F <= 2*#events/limit,
                  F = 0 while capacity <= limit) are evaluated on the implementation's trace; at limit 64 a few runs of
                  2000-2300 events with |min| = 4 on a buffer allocated at most `limit` long lie beyond that theorem, inside
                  C04_acc_total_driver (Proofs/K01_CooAcc_keys.v): there F = 0 (level counter <= 4, depth <= 3) is demanded
                  through every growth cap -> cap' with cap' <= limit + ceil(0.95 * cap), and after EVERY op of every
                  state-level case the set of live keys must be the set before it (plus the appended key): key preservation
  real threshold  the same kernels at the library's own COO_QUICKSORT_LIMIT on generated streams, oracle only
  API level       Token / TimedToken / MultiSet / Ngram co-occurrence vectorizers x n_threads x coo_initial_memory x
                  NUMBA_NUM_THREADS x corpus sizes x {fit_transform, fit(small).transform(50x larger)}: compared with
                  an exact pure-Python count of the windowed definition (flat kernel: integers) and with the same
                  vectorizer run with n_threads=1 and default memory
A dead child (abort, segfault) is a violation attributed to the case in flight."""
import json
import os
import subprocess
import threading
import time
from concurrent.futures import ThreadPoolExecutor

from . import common as C
from .impl import c04_gen as G

HEADER = """From Coq Require Import ZArith List.
From VZ Require Import Model.K01_CooAcc.
Import ListNotations.
Open Scope Z_scope.
"""

LIMITS = [1, 2, 3, 4, 5, 8, 16, 64]


# ------------------------------------------------------------------------------------------ state level
def ceil_log2(n):
    k, p = 0, 1
    while p < n:
        p *= 2
        k += 1
    return k


def gen_state_case(rng, L):
    r = rng.random()
    if r < 0.7:
        cap = rng.randint(20, 70)
    elif r < 0.85:
        cap = rng.choice([20, 21, 39, 40, 41, 60, 61, 80, 100, 128, 129])
    else:
        cap = max(20, rng.choice([L, L + 1, L + 2, 2 * L - 1, 2 * L, 2 * L + 1, 3 * L, 3 * L + 1, L + 19, L + 20, L + 21]))
    mlen = 2 * ceil_log2(cap) + rng.choice([0, 0, 0, 0, 1, 2, 5])
    nk = rng.choice([1, 2, 3, 6, 20, 60])
    nev = rng.choice([0, 1, 2, rng.randint(0, 40), rng.randint(0, 160), rng.randint(60, 160)])
    ops = []
    for _ in range(nev):
        rr, cc = rng.randrange(nk), rng.randrange(nk)
        ops.append(["a", rr, cc, rng.randint(1, 3), cc + (nk + 1) * rr])
        x = rng.random()
        if x < 0.01:
            ops.append(["s"])
        elif x < 0.02:
            ops += [["s"], ["m"]]
    ops += [["s"], ["m"]]
    return {"limit": L, "cap": cap, "mlen": mlen, "nk": nk, "ops": ops}


# ---- data volume (Proofs/K01_CooAcc_volume.v): long pure runs (appends, then the drivers' final pair) that leave the
# ---- region of C04_acc_total (2 * #events + 2 < 2^(|min| - 1)) but stay inside C04_acc_total_volume / _few_keys
def grow_min_size(n):
    return int(round(1.5 * (n + 2)))          # python's round is half-to-even, like np.round


def grow_size(L, n):
    return max(int(round(1.5 * n)), L + 1)


def driver_mlen(fuel, L, n, mlen):
    """driver_mlen of Proofs/K01_CooAcc_keys.v: |min| at the first growth after which a flush may skip merge_all."""
    while fuel > 0:
        n2, m2 = grow_size(L, n), grow_min_size(mlen)
        if not n2 <= L + (19 * n + 19) // 20:
            return m2
        fuel, n, mlen = fuel - 1, n2, m2
    return mlen


def proved_region(c):
    """Which array-level theorems cover the run `appends; sum; merge_all` of this case (None if it is not a pure run)."""
    ops = c["ops"]
    if [o[0] for o in ops[-2:]] != ["s", "m"] or any(o[0] != "a" for o in ops[:-2]):
        return None
    L, cap, mlen = c["limit"], c["cap"], c["mlen"]
    nev = len(ops) - 2
    keys = {o[4] for o in ops[:-2]}
    out = []
    if 2 * nev + 2 < 2 ** (mlen - 1):
        out.append("C04_acc_total")
    M = grow_min_size(mlen) if cap <= L else mlen
    if mlen >= 4 and 8 * nev + 6 * L < L * 2 ** (M - 1):
        out.append("C04_acc_total_volume")
    if mlen >= 4 and 20 <= cap <= L and 20 * len(keys) < 19 * cap:
        out.append("C04_acc_total_few_keys")
    if mlen >= 4 and 20 <= cap <= L and 8 * nev + 6 * L < L * 2 ** (driver_mlen(8, L, cap, mlen) - 1):
        out.append("C04_acc_total_driver")
    return out


def volume_budget(L, cap, mlen):
    """Largest event count allowed by C04_acc_total or C04_acc_total_volume."""
    M = grow_min_size(mlen) if cap <= L else mlen
    new = (L * 2 ** (M - 1) - 6 * L - 1) // 8 if mlen >= 4 else 0
    old = (2 ** (mlen - 1) - 3) // 2
    return max(old, new)


def gen_volume_case(rng, L):
    # a buffer at most `limit` long needs limit >= 20 (capacity >= 20): the compact regime exists at limit 64 only
    shape = rng.choice(["deep", "growth", "growth", "mixed", "compact", "compact"] if L >= 20 else
                       ["deep", "deep", "growth", "growth", "mixed"])
    if shape == "compact":
        cap = rng.choice([20, 21, rng.randint(20, L), L - 1, L])
    elif L >= 20 and shape == "growth" and rng.random() < 0.6:
        cap = rng.choice([20, 32, rng.randint(20, L), L])            # starts at most `limit` long, grows past it
    else:
        cap = max(20, rng.choice([L + 1, L + 2, L + rng.randint(3, 40), 2 * L + rng.randint(0, 9), 32, 33]))
        if cap <= L:
            cap = L + 1 + rng.randint(0, 20)
    mlen = 2 * ceil_log2(cap) + rng.choice([0, 0, 0, 1])             # as the drivers allocate it (+ rarely a spare slot)
    budget = volume_budget(L, cap, mlen)
    old = (2 ** (mlen - 1) - 3) // 2                                   # what C04_acc_total covers
    if budget > old and rng.random() < 0.7:
        nev = min(budget, old + rng.randint(1, 400), 1300)            # just beyond C04_acc_total
    else:
        nev = min(budget, rng.choice([rng.randint(260, 420), rng.randint(300, 700), rng.randint(500, 900)]))
    evs = []
    if shape == "deep":                  # one or two cells: `ind` stays tiny, no flush reaches the merge_all test
        nk = rng.choice([1, 1, 2])
        for _ in range(nev):
            cc = rng.randrange(nk)
            evs.append((0, cc, rng.randint(1, 3), cc))
    elif shape == "growth":              # (almost) all keys distinct: flushes consume the buffer, it grows repeatedly
        mul = nev + 1
        dup = rng.choice([0.0, 0.0, 0.1])
        for i in range(nev):
            k = rng.randrange(i + 1) if rng.random() < dup else i
            evs.append((k // 37, k % 37, rng.randint(1, 3), k % 37 + 38 * (k // 37)))
    elif shape == "compact":             # fewer distinct keys than 0.95 * capacity, capacity <= limit: never grows
        nkeys = rng.choice([1, 2, (19 * cap - 1) // 20, rng.randint(1, (19 * cap - 1) // 20)])
        for _ in range(nev):
            k = rng.randrange(nkeys)
            evs.append((k // 7, k % 7, rng.randint(1, 3), k % 7 + 8 * (k // 7)))
    else:                                # blocks of fresh keys alternate with blocks of repeats of a few keys
        i, fresh = 0, 0
        while i < nev:
            blk = rng.randint(1, 3 * L + 5)
            rep = rng.random() < 0.5
            for _ in range(min(blk, nev - i)):
                if rep:
                    k = rng.randrange(rng.choice([1, 2, 5]))
                else:
                    k, fresh = 10 + fresh, fresh + 1
                evs.append((k // 37, k % 37, rng.randint(1, 3), k % 37 + 38 * (k // 37)))
                i += 1
    ops = [["a", r, cc, v, k] for (r, cc, v, k) in evs] + [["s"], ["m"]]
    c = {"limit": L, "cap": cap, "mlen": mlen, "nk": len({e[3] for e in evs}), "ops": ops, "vol": shape}
    assert proved_region(c), (L, cap, mlen, nev, shape)
    return c


def gen_driver_case(rng, L):
    """A pure run beyond C04_acc_total_volume, inside C04_acc_total_driver: buffer allocated at most `limit` long, the
    shortest admissible min stack (|min| = 4: depth must stay <= 3), more events than 8*n + 6*L < L*2^(grow_min_size(4)-1)
    allows; a few hundred distinct keys, so that the buffer grows several times and then keeps cycling over them."""
    assert L >= 20
    cap, mlen = rng.choice([20, 32, rng.randint(20, L), L]), 4
    budget = (L * 2 ** (grow_min_size(mlen) - 1) - 6 * L - 1) // 8
    nev = budget + rng.randint(1, 300)
    nkeys = rng.choice([rng.randint(60, 130), rng.randint(130, 400)])
    fresh = list(range(nkeys))
    rng.shuffle(fresh)
    evs = []
    for i in range(nev):
        k = fresh[i] if i < nkeys and rng.random() < 0.8 else fresh[rng.randrange(min(i + 1, nkeys))]
        evs.append((k // 37, k % 37, rng.randint(1, 3), k % 37 + 38 * (k // 37)))
    ops = [["a", r, cc, v, k] for (r, cc, v, k) in evs] + [["s"], ["m"]]
    c = {"limit": L, "cap": cap, "mlen": mlen, "nk": len({e[3] for e in evs}), "ops": ops, "vol": "driver"}
    region = proved_region(c)
    assert region == ["C04_acc_total_driver"], (L, cap, mlen, nev, region)
    return c


def volume_invariant(c, obs):
    """Consequences of the invariant VInv of Proofs/K01_CooAcc_volume.v on a pure run inside its region, evaluated on
    the observations after every op: level counter = sum of 2^j over the occupied levels j < depth,
    F = #flushes not followed by merge_all <= 2 * #events / limit, counter <= 4 * (F + 1), 2^(depth-1) <= 4 * (F + 1);
    while capacity <= limit: F = 0, i.e. counter <= 4 and depth <= 3.  (After the final coo_sum_duplicates, before
    merge_all, one more unit.)  With key preservation (regime_k of Proofs/K01_CooAcc_keys.v): F = 0 also after every growth
    cap -> cap' with cap' <= limit + ceil(0.95 * cap), for a buffer that started at most `limit` long.
    Returns (problem | None, max depth, max counter, #ops in the F = 0 regime beyond capacity <= limit)."""
    L = c["limit"]
    E, maxd, maxc, safe_ops = 0, 0, 0, 0
    safe, cap_prev = c["cap"] <= L, c["cap"]
    for j, (o, ob) in enumerate(zip(c["ops"], obs)):
        ind, depth, cap, mlen, mv = ob[0], ob[1], ob[2], ob[3], ob[4]
        if o[0] == "a":
            E += 1
        if cap != cap_prev:
            safe = safe and cap <= L + (19 * cap_prev + 19) // 20
            cap_prev = cap
        cnt = sum(2 ** q for q in range(depth) if mv[q] > 0)
        F = 0 if safe else (2 * E) // L
        safe_ops += safe and cap > L
        bound = 4 * (F + 1) + (1 if o[0] == "s" else 0)
        maxd, maxc = max(maxd, depth), max(maxc, cnt)
        if cnt > bound or (depth > 0 and 2 ** (depth - 1) > bound) or not (depth < mlen):
            return ("after op %d: level counter %d, depth %d, |min| %d, capacity %d; bound 4*(F+1) = %d with F <= %d (%d events, limit %d)"
                    % (j, cnt, depth, mlen, cap, bound, F, E, L)), maxd, maxc, safe_ops
    return None, maxd, maxc, safe_ops


STATE_CORPUS = [
    # D1: last run of a sort window whose key equals the stale slot above it (key 0 on a zeroed buffer)
    {"limit": 4, "cap": 20, "mlen": 10, "nk": 1, "ops": [["a", 0, 0, 1, 0]] * 3 + [["s"], ["m"]]},
    # carry with a shared key (walk-through `+=` -> `=` in a merge loop)
    {"limit": 2, "cap": 24, "mlen": 10, "nk": 2,
     "ops": [["a", 0, 0, 1, 0], ["a", 0, 1, 1, 1], ["a", 0, 0, 2, 0], ["a", 0, 1, 1, 1], ["a", 0, 0, 3, 0], ["s"], ["m"]]},
    # growth on the `ind == cap - 1` path with all keys distinct
    {"limit": 64, "cap": 20, "mlen": 10, "nk": 60,
     "ops": [["a", i // 7, i % 7, 1, i % 7 + 61 * (i // 7)] for i in range(45)] + [["s"], ["m"]]},
]


def coq_op(o):
    if o[0] == "a":
        return "OpAppend (%s, %s, %s, %s)" % tuple(C.z(x) for x in o[1:5])
    return "OpSum" if o[0] == "s" else "OpMergeAll"


def coq_state_case(c):
    return "trace_final %d %d %d [%s]" % (c["limit"], c["cap"], c["mlen"], "; ".join(coq_op(o) for o in c["ops"]))


def state_oracle(case, final):
    """The property's own statement on the implementation's final live entries (no model involved)."""
    exp, rc = {}, {}
    for o in case["ops"]:
        if o[0] == "a":
            exp[o[4]] = exp.get(o[4], 0) + o[3]
            rc[o[4]] = (o[1], o[2])
    got = {}
    for (r, c, v, k) in final:
        got[k] = got.get(k, 0) + v
    keys = [e[3] for e in final]
    problems = []
    if got != exp:
        lost = {k: (exp.get(k, 0), got.get(k, 0)) for k in set(exp) | set(got) if exp.get(k, 0) != got.get(k, 0)}
        problems.append("sum by key differs (key: (expected, got)): %s" % str(dict(sorted(lost.items())[:6])))
    if any(a >= b for a, b in zip(keys, keys[1:])):
        problems.append("live keys not strictly increasing: %s" % keys[:20])
    bad = [(r, c, k) for (r, c, v, k) in final if rc.get(k) != (r, c)]
    if bad:
        problems.append("row/col of a live entry are not those of its key: %s" % bad[:4])
    return problems


_child_lock = threading.Lock()
_child_no = [0]


def run_child(payload, env_extra, timeout):
    """C.run_impl with file names and numba cache directories that are unique per concurrent child."""
    with _child_lock:
        _child_no[0] += 1
        no = _child_no[0]
    d = C.os_makedirs(os.path.join(C.WORK, "impl"))
    tag = "c04_%d_%d" % (os.getpid(), no)
    fin, fout = os.path.join(d, tag + ".in.json"), os.path.join(d, tag + ".out.json")
    json.dump(payload, open(fin, "w"))
    env = C.impl_env(env_extra)
    env["NUMBA_CACHE_DIR"] = C.os_makedirs(os.path.join(C.WORK, "numba_cache_%s" % tag))
    t0 = time.time()
    try:
        p = subprocess.run(["timeout", "-k", "10", str(timeout), C.PY, os.path.join(C.VERIF, "harness", "impl", "c04.py"), fin, fout],
                           cwd=C.REPO, env=env, stdout=subprocess.PIPE, stderr=subprocess.STDOUT, text=True)
        rc, out = p.returncode, p.stdout
    finally:
        subprocess.run(["rm", "-rf", env["NUMBA_CACHE_DIR"]])
    info = {"rc": rc, "wall_s": round(time.time() - t0, 2), "tail": out[-2000:]}
    res = None
    if os.path.exists(fout):
        try:
            res = json.load(open(fout))
        except Exception as e:
            info["parse_error"] = repr(e)
        os.remove(fout)
    os.remove(fin)
    return res, info


def run_children(script_mode, jobs, ctx, what):
    """jobs: list of (tag, payload_extra, env_extra, cases).  Runs one child per job (restarting after a death on the
    remaining cases), returns {tag: [result | None]} and reports dead children."""
    prog_dir = C.os_makedirs(os.path.join(C.WORK, "impl"))

    def one(job):
        tag, extra, env, cases = job
        out = [None] * len(cases)
        start, deaths = 0, []
        for attempt in range(4):
            if start >= len(cases):
                break
            prog = os.path.join(prog_dir, "c04_%s_%d_%s_%d.jsonl" % (script_mode, os.getpid(), tag, attempt))
            if os.path.exists(prog):
                os.remove(prog)
            payload = dict(extra)
            payload.update({"mode": script_mode, "progress": prog, "cases": cases[start:]})
            res, info = run_child(payload, env, 1500)
            done = []
            if os.path.exists(prog):
                for line in open(prog):
                    try:
                        done.append(json.loads(line))
                    except ValueError:
                        break
                os.remove(prog)
            if res is not None and len(res) == len(cases) - start:
                done = res
            for i, r in enumerate(done):
                out[start + i] = r
            if len(done) == len(cases) - start:
                break
            deaths.append((start + len(done), info))
            start += len(done) + 1
        return tag, out, deaths

    results, all_deaths = {}, []
    with ThreadPoolExecutor(max_workers=max(1, len(jobs))) as ex:
        for tag, out, deaths in ex.map(one, jobs):
            results[tag] = out
            all_deaths += [(tag, i, info) for i, info in deaths]
    return results, all_deaths


# ------------------------------------------------------------------------------------------ API level: exact counts
def blocks_of(params):
    out = []
    for i, (R, o) in enumerate(zip(params["radii"], params["orientations"])):
        if o == "directional":
            out += [(i, R, True), (i, R, False)]
        else:
            out.append((i, R, o == "before"))
    return out


def col_label(i, rev, tok):
    return ("pre_" if rev else "post_") + str(i) + "_" + str(tok)


def spec_counts(kind, docs, fit_docs, params):
    """Exact count of the windowed definition with the flat kernel, fixed radii, no window normalisation.
    Returns ({(row_label, col_label): count}, set of row labels, number of columns)."""
    blocks = blocks_of(params)
    if kind == "timed":
        docs = [[t for (t, _) in d] for d in docs]
        fit_docs = None if fit_docs is None else [[t for (t, _) in d] for d in fit_docs]
    cnt = {}
    if kind == "multi":
        src = fit_docs if fit_docs is not None else docs
        vocab = {t for d in src for m in d for t in m}
        docs = [[[t for t in m if t in vocab] for m in d] for d in docs]
        for d in docs:
            n = len(d)
            for di, m in enumerate(d):
                for wi, target in enumerate(m):
                    for b, (i, R, rev) in enumerate(blocks):
                        rng_ = range(max(0, di - R), di + 1) if rev else range(di, min(n, di + R + 1))
                        for dj in rng_:
                            for wj, ctx_tok in enumerate(d[dj]):
                                if dj == di and wj == wi:
                                    continue
                                key = (target, b, ctx_tok)
                                cnt[key] = cnt.get(key, 0) + 1
        rows = {str(t) for t in vocab}
    else:
        src = fit_docs if fit_docs is not None else docs
        vocab = {t for d in src for t in d}
        docs = [[t for t in d if t in vocab] for d in docs]
        if kind == "ngram":
            n = params["ngram_size"]
            src_f = [[t for t in d if t in vocab] for d in src]
            grams = {tuple(d[a:a + n]) for d in src_f for a in range(len(d) - n + 1)}
            for d in docs:
                L = len(d)
                for w in range(n - 1, L):
                    g = tuple(d[w - n + 1:w + 1])
                    if g not in grams:
                        continue
                    a = w - n + 1
                    for b, (i, R, rev) in enumerate(blocks):
                        rng_ = range(max(0, a - R), a) if rev else range(w + 1, min(L, w + R + 1))
                        for q in rng_:
                            key = (g, b, d[q])
                            cnt[key] = cnt.get(key, 0) + 1
            rows = {"_".join(str(t) for t in g) for g in grams}
        else:
            for d in docs:
                L = len(d)
                for p, target in enumerate(d):
                    for b, (i, R, rev) in enumerate(blocks):
                        rng_ = range(max(0, p - R), p) if rev else range(p + 1, min(L, p + R + 1))
                        for q in rng_:
                            key = (target, b, d[q])
                            cnt[key] = cnt.get(key, 0) + 1
            rows = {str(t) for t in vocab}
    out = {}
    for (r, b, c), v in cnt.items():
        i, R, rev = blocks[b]
        rl = "_".join(str(t) for t in r) if isinstance(r, tuple) else str(r)
        out[(rl, col_label(i, rev, c))] = v
    return out, rows, len(vocab) * len(blocks)


def api_result_dict(r):
    if "npz" in r:
        import numpy as np
        z = np.load(r["npz"])
        rows, cols, vals = z["rows"].tolist(), z["cols"].tolist(), z["vals"].tolist()
        os.remove(r["npz"])
    else:
        rows, cols, vals = r["rows"], r["cols"], r["vals"]
    rl, cl = r["row_labels"], r["col_labels"]
    return {(rl[a], cl[b]): v for a, b, v in zip(rows, cols, vals) if v != 0}


def diff_dicts(exp, got, limit=5):
    if exp == got:
        return 0, []
    ks = sorted(k for k in set(exp) | set(got) if exp.get(k, 0) != got.get(k, 0))
    return len(ks), [(k, exp.get(k, 0), got.get(k, 0)) for k in ks[:limit]]


def corpus_spec(rng, kind, size):
    """size: tiny (a handful of events), small, medium, large (forces several growth steps / sort windows)."""
    lo = 1 if kind in ("timed", "multi") else 0   # the timed/multiset pre-processing cannot represent an empty document
    seed = rng.randrange(10 ** 9)
    if size == "tiny":
        return {"seed": seed, "n_docs": rng.randint(1, 3), "len": [max(lo, 1), 4], "vocab": rng.randint(1, 3)}
    if size == "small":
        return {"seed": seed, "n_docs": rng.randint(2, 9), "len": [lo, 14], "vocab": rng.randint(2, 8)}
    if size == "medium":
        nd = rng.randint(4, 10) if kind == "multi" else rng.randint(20, 60)
        return {"seed": seed, "n_docs": nd, "len": [lo, 60], "vocab": rng.randint(20, 60)}
    if kind == "multi":
        return {"seed": seed, "n_docs": 2, "len": [9000, 14000], "vocab": 330, "msize": [1, 3]}
    if kind == "ngram":
        return {"seed": seed, "n_docs": 40, "len": [2000, 4000], "vocab": 48}
    return {"seed": seed, "n_docs": 40, "len": [2000, 4000], "vocab": 380}


ORIENTATION_SHAPES = [["directional"], ["directional"], ["after"], ["before"], ["before", "after"], ["after", "after"]]


def gen_params(rng, kind, size):
    """One or two windows, i.e. 1 or 2 column blocks: every further block count costs a numba recompilation of the
    driver (~5 s per vectorizer and child)."""
    if size == "large":
        p = {"radii": [2], "orientations": ["directional"]}
    else:
        o = rng.choice(ORIENTATION_SHAPES)
        p = {"radii": [rng.choice([1, 2, 3, 5]) for _ in o], "orientations": list(o)}
    p["ngram_size"] = rng.choice([2, 2, 3]) if size != "large" else 2
    return p


N_THREADS = [1, 2, 3, 7, 16]
MEMS = ["1k", "2k", "20k", None]
NNT = ["1", "4", "16"]


def gen_api_groups(ctx):
    """A group = one (kind, corpus, fit corpus, params); its variants = (n_threads, mem) settings.  Variant 0 is
    always the reference (n_threads=1, default memory)."""
    rng = ctx.rng
    groups = []
    kinds = ["token", "timed", "multi", "ngram"]
    # (size, breadth of the (n_threads, memory) matrix for fit_transform, breadth for fit(small).transform(50x))
    plan = [("tiny", "full", "some"), ("small", "full", "full"), ("medium", "some", "some"), ("large", "few", None)]
    if not ctx.quick:
        plan = [("tiny", "full", "full"), ("small", "full", "full"), ("small", "full", "full"), ("medium", "full", "full"),
                ("medium", "some", "some"), ("large", "some", None), ("large", "few", None)]
    for kind in kinds:
        for size, breadth_ft, breadth_tr in plan:
            for transform in ([False, True] if breadth_tr else [False]):
                breadth = breadth_tr if transform else breadth_ft
                corpus = corpus_spec(rng, kind, size)
                params = gen_params(rng, kind, size)
                if kind == "ngram":      # at least one n-gram must exist, otherwise fit rightly refuses the corpus
                    corpus["len"] = [max(corpus["len"][0], params["ngram_size"]), max(corpus["len"][1], params["ngram_size"])]
                fit = None
                if transform:
                    # fit on a small corpus, transform a corpus about 50x larger over the same alphabet
                    fit = dict(corpus)
                    fit["seed"] = rng.randrange(10 ** 9)
                    corpus = dict(corpus)
                    corpus["n_docs"] = corpus["n_docs"] * 50
                full = [(nt, mem) for nt in N_THREADS for mem in MEMS]
                if breadth == "full":
                    variants = full
                elif breadth == "some":
                    variants = rng.sample(full, 8)
                else:
                    variants = [(1, "1k"), (2, "1k"), (3, "2k"), (16, "20k"), (7, None)]
                variants = [(1, None)] + [v for v in variants if v != (1, None)]
                if size == "large" and kind == "multi":
                    # every document gets its own default-memory buffers (hundreds of MB): keep the reference only
                    variants = [v for v in variants if v[1] is not None or v == (1, None)]
                groups.append({"kind": kind, "size": size, "corpus": corpus, "fit_corpus": fit, "params": params,
                               "variants": variants})
    return groups


API_CORPUS = [
    # D23 (base and multiset override): tiny fit, many threads, larger transform
    {"kind": "token", "size": "corpus", "corpus": {"docs": [[0, 1, 2, 0, 1, 2]] * 30}, "fit_corpus": {"docs": [[0, 1, 2]]},
     "params": {"radii": [1], "orientations": ["directional"], "ngram_size": 2}, "variants": [(1, None), (16, None), (16, "1k")]},
    {"kind": "multi", "size": "corpus", "corpus": {"seed": 1, "n_docs": 6, "len": [1, 12], "vocab": 5}, "fit_corpus": None,
     "params": {"radii": [2], "orientations": ["directional"], "ngram_size": 2}, "variants": [(1, None), (2, "1k"), (16, "1k")]},
    # D1: single-token vocabulary
    {"kind": "token", "size": "corpus", "corpus": {"docs": [[0, 0, 0]]}, "fit_corpus": None,
     "params": {"radii": [2], "orientations": ["directional"], "ngram_size": 2}, "variants": [(1, None), (2, "1k")]},
    # D12: the multiset driver must keep the grown buffer
    {"kind": "multi", "size": "corpus", "corpus": {"seed": 5, "n_docs": 1, "len": [60, 60], "vocab": 12}, "fit_corpus": None,
     "params": {"radii": [2], "orientations": ["directional"], "ngram_size": 2}, "variants": [(1, None), (1, "1k")]},
]


def corpora_of(g):
    docs = G.corpus_for(g["kind"], g["corpus"])
    fit = None if g["fit_corpus"] is None else G.corpus_for(g["kind"], g["fit_corpus"])
    return docs, fit


def api_case(g, v):
    return {"kind": g["kind"], "corpus": g["corpus"], "fit_corpus": g["fit_corpus"], "params": g["params"],
            "n_threads": v[0], "mem": v[1]}


def timed_ok(g):
    """The timed pre-processing turns a document without any known token into a 1-d array that its numba list cannot
    hold (not a C04 matter): such transform cases are not generated."""
    if g["kind"] not in ("timed", "multi") or g["fit_corpus"] is None:
        return True
    docs, fit = corpora_of(g)
    if g["kind"] == "timed":
        vocab = {t for d in fit for (t, _) in d}
        return all(any(t in vocab for (t, _) in d) for d in docs)
    return True


def shrink_api(g, v, nnt):
    """One round: smaller corpora with the same settings, evaluated in one child; the smallest still failing wins."""
    if "docs" in g["corpus"]:
        return g
    cands = []
    for f in (64, 16, 4, 2):
        c = dict(g["corpus"])
        c["n_docs"] = max(1, c["n_docs"] // f)
        gg = dict(g)
        gg["corpus"] = c
        cands.append(gg)
        c2 = dict(c)
        c2["len"] = [min(c["len"][0], 3), max(3, c["len"][1] // f)]
        gg2 = dict(g)
        gg2["corpus"] = c2
        cands.append(gg2)
    cands = [c for c in cands if timed_ok(c)]
    cases = [api_case(c, v) for c in cands]
    results, deaths = run_children("api", [("shrink", {}, {"NUMBA_NUM_THREADS": nnt}, cases)], None, "shrink")
    dead = {i for (_, i, _) in deaths}
    for i, (c, r) in enumerate(zip(cands, results["shrink"])):
        if i in dead:
            return c
        if r is None or "err" in r:
            continue
        docs, fit = corpora_of(c)
        exp, _, _ = spec_counts(c["kind"], docs, fit, c["params"])
        if diff_dicts(exp, api_result_dict(r))[0]:
            return c
    return g


# ------------------------------------------------------------------------------------------ the check
def run(ctx, replay=None):
    C.run_gate(ctx)
    ctx.coverage["rule"] = ("state level: random op sequences (appends with small key alphabets, occasional explicit "
                            "coo_sum_duplicates / merge_all_sum_duplicates, the drivers' final pair) per COO_QUICKSORT_LIMIT "
                            "and capacity; API level: vectorizer x corpus x (n_threads, coo_initial_memory, NUMBA_NUM_THREADS); "
                            "non-trivial = at least one event; distinct by case hash")
    ctx.assumptions += [
        "integer-valued events (float32 sums exact below 2^24) so that all comparisons are exact",
        "flat kernel, fixed window radii, normalize_windows=False at API level (integer counts); other kernels are C03's",
        "numpy's unstable argsort is modelled by a stable sort: only the live entries are compared (the stale region is "
        "irrelevant under the repaired flush rule)",
        "the state-level generator stays inside the region of C04_acc_total or C04_acc_total_volume / _few_keys / _driver "
        "(capacity >= 20, |min| >= 2*ceil(log2 cap), event budget per sort window); a case on which the model predicts an "
        "out-of-bounds access is reported as a correspondence failure",
        "OS thread interleavings are whatever the machine produces (thread counts are explicit)",
        "timed/multiset corpora contain no empty document (their pre-processing cannot represent one)",
        "harness memoises vectorizers.utils.make_tuple_converter per n-gram size in the child (compilation time only)",
    ]
    if replay:
        return run_replay(ctx, replay)
    t0 = time.time()
    n_state = 130 if ctx.quick else 700
    state_cases = {L: [dict(c, limit=L) for c in STATE_CORPUS if c["limit"] == L] for L in LIMITS}
    for L in LIMITS:
        state_cases[L] += [gen_state_case(ctx.rng, L) for _ in range(n_state)]
    # below limit 5 the volume budget at |min| = 10..14 is inside C04_acc_total's: fewer long runs there
    n_vol = {1: 2, 2: 2, 3: 2, 4: 3, 5: 7, 8: 7, 16: 8, 64: 9}
    for L in LIMITS:
        state_cases[L] += [gen_volume_case(ctx.rng, L) for _ in range(n_vol.get(L, 4) * (1 if ctx.quick else 4))]
    # beyond C04_acc_total_volume, inside C04_acc_total_driver (needs 20 <= capacity <= limit: limit 64 only)
    state_cases[64] += [gen_driver_case(ctx.rng, 64) for _ in range(2 if ctx.quick else 8)]
    groups = API_CORPUS + [g for g in gen_api_groups(ctx) if timed_ok(g)]
    big_cases = []
    if not ctx.quick:
        for j in range(4):
            nr = ctx.rng.choice([300, 500])
            big_cases.append({"cap": ctx.rng.choice([32, 40000, 65537, 200000, 1000000]),
                              "events": {"seed": ctx.rng.randrange(10 ** 9), "nr": nr, "nc": nr, "n": ctx.rng.randint(210000, 320000)}})
        big_cases.append({"cap": 4000000, "events": {"seed": ctx.rng.randrange(10 ** 9), "nr": 40, "nc": 40, "n": 600000}})
        big_cases.append({"cap": 3000000, "events": {"seed": ctx.rng.randrange(10 ** 9), "nr": 1000, "nc": 1000, "n": 700000}})

    norm_cases = gen_norm_cases(ctx)
    with ThreadPoolExecutor(max_workers=5) as ex:
        f_norm = ex.submit(timed, "norm_child", C.run_impl, "c04_norm", norm_cases, {"NUMBA_NUM_THREADS": "4"}, 1500)
        f_model = ex.submit(timed, "model_eval", eval_model, state_cases)
        f_state = ex.submit(timed, "state_children", run_children, "state",
                            [("L%d" % L, {"limit": L}, {}, state_cases[L]) for L in LIMITS], ctx, "state")
        f_api = ex.submit(timed, "api_children", run_api_stage, ctx, groups)
        f_big = ex.submit(timed, "big_children", run_children, "big", [("big", {"limit": None}, {}, big_cases)], ctx, "big") if big_cases else None
        model = f_model.result()
        state_res, state_deaths = f_state.result()
        api_out = f_api.result()
        big_out = f_big.result() if f_big else None
        norm_out = f_norm.result()
    check_norm(ctx, norm_cases, *norm_out)
    TIMES["gate"] = ctx.gate.get("wall_s")
    timed("check_state", check_state, ctx, state_cases, model, state_res, state_deaths)
    if big_out:
        timed("check_big", check_big, ctx, big_cases, *big_out)
    timed("check_api", check_api, ctx, groups, *api_out)
    TIMES["search_total"] = round(time.time() - t0, 1)
    ctx.coverage["wall_breakdown_s"] = TIMES
    cleanup()
    C.gate_violation(ctx)
    return ctx.finish("proof")


TIMES = {}


def gen_norm_cases(ctx):
    """transform of thousands of sequences WITH post-processing (epsilon > 0 and / or n_iter > 0): see impl/c04_norm.py"""
    rng = ctx.rng
    out = []
    for k in range(2 if ctx.quick else 8):
        out.append({"seed": rng.randrange(10 ** 9), "vocab": rng.choice([4, 5, 6]),
                    "n_docs": rng.choice([4097, 5000, 9000]) if k % 2 == 0 else rng.choice([8193, 9000, 12500]),
                    "radius": rng.choice([1, 2]), "orientation": rng.choice(["after", "before", "directional"]),
                    "kernel": rng.choice(["flat", "geometric"]), "normalize_windows": rng.random() < 0.5,
                    "n_iter": [1, 0, 2][k % 3], "epsilon": [0.05, 0.2, 0.0][k % 3], "n_threads": rng.choice([1, 3, 7]),
                    "cls": "TokenCooccurrenceVectorizer" if k % 2 == 0 else "TimedTokenCooccurrenceVectorizer"})
    return out


def check_norm(ctx, cases, res, info):
    res = res or []
    if len(res) != len(cases):
        ctx.report("implementation child died (rc=%s) in the large-transform stream: %s" % (info["rc"], info["tail"][-300:]),
                   {"stage": "impl-crash", "case": cases[len(res)] if len(res) < len(cases) else None}, found_input=True)
    n_ok = 0
    for c, r in zip(cases, res):
        ctx.count_case(dict(c, stage="norm"), nontrivial=bool(r.get("nnz")), kind="norm:%s:n_iter=%d:eps=%s" % (c["cls"][:5], c["n_iter"], c["epsilon"]))
        if "err" in r:
            ctx.report("transform of %d sequences raised %s: %s" % (c["n_docs"], r["err"], r["msg"]), {"stage": "oracle", "case": dict(c, stage="norm")})
        elif r["shape"] != r["ref_shape"] or r["worst_rel"] > 2e-5:
            ctx.report("transform of %d sequences with n_iter=%d, epsilon=%s differs from the one-pass matrix of the same corpus and "
                       "vocabulary: %s (relative %.3g); max column sum %.6g" % (c["n_docs"], c["n_iter"], c["epsilon"], r["where"],
                                                                               r["worst_rel"], r["max_colsum"]),
                       {"stage": "oracle", "case": dict(c, stage="norm"), "result": r})
        else:
            n_ok += 1
    ctx.coverage["large_transform_with_postprocessing"] = {"cases": len(cases), "ok": n_ok}


def timed(name, f, *a):
    t0 = time.time()
    r = f(*a)
    TIMES[name] = round(time.time() - t0, 1)
    return r


def cleanup():
    d = os.path.join(C.WORK, "impl")
    if os.path.isdir(d):
        for f in os.listdir(d):
            if f.startswith("c04_") and ("_%d_" % os.getpid()) in f:
                try:
                    os.remove(os.path.join(d, f))
                except OSError:
                    pass


def eval_model(state_cases):
    exprs, index = [], []
    for L in LIMITS:
        for i, c in enumerate(state_cases[L]):
            exprs.append(coq_state_case(c))
            index.append((L, i))
    vals = C.coq_eval_sharded("C04", HEADER, exprs, shard=120, jobs=8)
    out = {L: [None] * len(state_cases[L]) for L in LIMITS}
    for (L, i), v in zip(index, vals):
        out[L][i] = v
    return out


def model_obs(v):
    obs, fault, final = v
    return [[o[0], o[1], o[2], o[3], list(o[4]), o[5]] for o in obs], fault, [list(e) for e in final]


def check_state(ctx, state_cases, model, state_res, deaths):
    n_cmp, n_ops, bad_corr, n_fault, failures = 0, 0, [], 0, []
    vol = {"pure_runs_in_volume_region": 0, "beyond_C04_acc_total": 0, "few_keys_region": 0, "invariant_checked_ops": 0,
           "max_depth": 0, "max_level_counter": 0, "max_events": 0, "grown_twice_or_more": 0, "by_shape": {},
           "driver_region_beyond_volume": 0, "ops_with_F0_demanded_at_capacity_above_limit": 0, "key_sets_checked_ops": 0}
    dead = {(tag, i): info for (tag, i, info) in deaths}
    for L in LIMITS:
        tag = "L%d" % L
        for i, c in enumerate(state_cases[L]):
            nev = sum(1 for o in c["ops"] if o[0] == "a")
            ctx.count_case(c, nontrivial=nev > 0, kind="state:L=%d:cap%s:%s" % (
                L, "<=L" if c["cap"] <= L else ("<=2L" if c["cap"] <= 2 * L else ">2L"),
                ("volume-" + c["vol"]) if "vol" in c else "nk=%d" % c["nk"]))
            m_obs, m_fault, m_final = model_obs(model[L][i])
            r = state_res[tag][i]
            if (tag, i) in dead:
                info = dead[(tag, i)]
                ctx.report("accumulator child died (rc=%s) while running this op sequence at COO_QUICKSORT_LIMIT=%d: %s"
                           % (info["rc"], L, info["tail"][-300:]), {"stage": "state", "case": c}, found_input=True)
                continue
            if r is None:
                continue
            if "err" in r:
                ctx.report("accumulator kernels raised %s: %s" % (r["err"], r.get("msg", "")),
                           {"stage": "state", "case": c, "actual": r}, found_input=True)
                continue
            # property oracle on the implementation alone
            problems = state_oracle(c, r["final"])
            if not r.get("wellformed", True):
                problems.append("the four data arrays differ in length or a value is not integral")
            if problems:
                failures.append((len(c["ops"]), L, c, problems, r["final"]))
                continue
            if m_fault is not None:
                n_fault += 1
                bad_corr.append((c, "model predicts an out-of-bounds access %s after %d ops; implementation state %s"
                                 % (m_fault, len(m_obs), r["obs"][len(m_obs)] if len(m_obs) < len(r["obs"]) else None)))
                continue
            n_cmp += 1
            n_ops += len(m_obs)
            for j, (a, b) in enumerate(zip(m_obs, r["obs"])):
                if a != b:
                    bad_corr.append((c, "state after op %d (%s) differs: model (ind, depth, cap, |min|, min[:depth+1], digest) = %s, "
                                        "implementation = %s" % (j, c["ops"][j], a, b)))
                    break
            else:
                if m_final != r["final"]:
                    bad_corr.append((c, "final live entries differ: model %s implementation %s" % (m_final[:8], r["final"][:8])))
                region = proved_region(c) or []
                # key preservation (C04_keys_preserved_*), evaluated by the child on the implementation after every op
                vol["key_sets_checked_ops"] += len(r["obs"])
                if r.get("keys_problem"):
                    kp = r["keys_problem"]
                    bad_corr.append((c, "the set of live keys is not preserved by op %d (%s): lost %s, invented %s "
                                        "(C04_keys_preserved_sum_duplicates / _merge_all, Proofs/K01_CooAcc_keys.v)"
                                     % (kp[0], c["ops"][kp[0]], kp[1], kp[2])))
                if set(region) & {"C04_acc_total_volume", "C04_acc_total_few_keys", "C04_acc_total_driver"}:
                    # the strengthened invariant, evaluated on the implementation's own trace
                    problem, maxd, maxc, safe_ops = volume_invariant(c, r["obs"])
                    vol["pure_runs_in_volume_region"] += 1
                    vol["beyond_C04_acc_total"] += "C04_acc_total" not in region
                    vol["driver_region_beyond_volume"] += region == ["C04_acc_total_driver"]
                    vol["ops_with_F0_demanded_at_capacity_above_limit"] += safe_ops
                    vol["few_keys_region"] += "C04_acc_total_few_keys" in region
                    vol["invariant_checked_ops"] += len(r["obs"])
                    vol["max_depth"], vol["max_level_counter"] = max(vol["max_depth"], maxd), max(vol["max_level_counter"], maxc)
                    vol["max_events"] = max(vol["max_events"], nev)
                    vol["grown_twice_or_more"] += len({ob[2] for ob in r["obs"]}) >= 3
                    if "vol" in c:
                        vol["by_shape"][c["vol"]] = vol["by_shape"].get(c["vol"], 0) + 1
                    if problem:
                        bad_corr.append((c, "the invariant VInv of Proofs/K01_CooAcc_volume.v (level counter <= 4*(F+1), "
                                            "limit*F <= 2*#events; F = 0 in the regime of Proofs/K01_CooAcc_keys.v) does not "
                                            "hold on the implementation's trace " + problem))
    failures.sort(key=lambda f: f[0])          # the shortest failing op sequences first
    for (_, L, c, problems, final) in failures:
        ctx.report("accumulator loses/duplicates/mis-credits events at COO_QUICKSORT_LIMIT=%d, capacity %d, %d ops: %s"
                   % (L, c["cap"], len(c["ops"]), "; ".join(problems)),
                   {"stage": "state", "case": c, "actual_final": final}, found_input=True)
    ctx.coverage["correspondence"] = {"model": "Model/K01_CooAcc.v via vm_compute", "cases": n_cmp, "ops_compared": n_ops,
                                      "disagreements": len(bad_corr), "limits": LIMITS}
    ctx.coverage["traces_validated_against_impl"] = n_cmp
    ctx.coverage["volume"] = vol
    if bad_corr and not any(v["found_input"] for v in ctx.violations):
        c, what = bad_corr[0]
        ctx.report("model K01_CooAcc and coo_utils.py disagree (no property-level failure found): " + what,
                   {"stage": "state", "correspondence": "Model/K01_CooAcc.v <-> vectorizers/coo_utils.py", "case": c},
                   found_input=False)


def check_big(ctx, big_cases, results, deaths):
    dead = {i: info for (_, i, info) in deaths}
    n = 0
    for i, c in enumerate(big_cases):
        ctx.count_case(c, nontrivial=True, kind="state:real-threshold")
        if i in dead:
            ctx.report("accumulator child died (rc=%s) at the library's own threshold: %s" % (dead[i]["rc"], dead[i]["tail"][-300:]),
                       {"stage": "big", "case": c}, found_input=True)
            continue
        r = results["big"][i]
        if r is None:
            continue
        if "err" in r:
            ctx.report("accumulator kernels raised %s: %s" % (r["err"], r.get("msg", "")), {"stage": "big", "case": c}, found_input=True)
            continue
        evs = G.gen_events(c["events"])
        fake = {"ops": [["a", a, b, v, k] for (a, b, v, k) in evs]}
        problems = state_oracle(fake, list(zip(r["rows"], r["cols"], r["vals"], r["keys"])))
        if not r["integral"]:
            problems.append("non-integral value")
        n += 1
        if problems:
            ctx.report("accumulator at the real COO_QUICKSORT_LIMIT (capacity %d, %d events): %s"
                       % (c["cap"], len(evs), "; ".join(problems)), {"stage": "big", "case": c}, found_input=True)
    ctx.coverage["oracle"]["real_threshold_direct_runs"] = n


def run_api_stage(ctx, groups):
    """One child per vectorizer (numba compilation, 10-25 s per vectorizer, dominates).  Thorough tier: one child per
    (NUMBA_NUM_THREADS, vectorizer), the pool size set through the environment.  Quick tier: one child per vectorizer
    started with NUMBA_NUM_THREADS=16, the pool size of each case set with numba.set_num_threads (same thread pool
    semantics, a third of the compilations)."""
    jobs = []
    kinds = ("token", "timed", "multi", "ngram")
    per_kind = {k: ([], []) for k in kinds}
    for nnt in NNT:
        for kind in kinds:
            cases, index = ([], []) if not ctx.quick else per_kind[kind]
            for gi, g in enumerate(groups):
                if g["kind"] != kind:
                    continue
                vs = g["variants"]
                if nnt != "4":                       # the reference and every third variant under the other pool sizes
                    k = {"1": 0, "16": 1}[nnt]
                    vs = vs[:1] + vs[1:][k::3]
                    if ctx.quick and g["size"] == "large":
                        vs = vs[:2]
                for v in vs:
                    c = api_case(g, v)
                    if ctx.quick:
                        c["set_threads"] = int(nnt)
                    cases.append(c)
                    index.append((gi, v, nnt))
            if not ctx.quick:
                jobs.append(("nnt%s_%s" % (nnt, kind), {}, {"NUMBA_NUM_THREADS": nnt}, cases, index))
    if ctx.quick:
        for kind in kinds:
            jobs.append(("nnt_%s" % kind, {}, {"NUMBA_NUM_THREADS": "16"}, per_kind[kind][0], per_kind[kind][1]))
    specs = {}

    def all_specs():
        for gi, g in enumerate(groups):
            docs, fit = corpora_of(g)
            specs[gi] = spec_counts(g["kind"], docs, fit, g["params"])
    th = threading.Thread(target=all_specs)
    th.start()
    results, deaths = run_children("api", [j[:4] for j in jobs], ctx, "api")
    th.join()
    return jobs, results, deaths, specs


def check_api(ctx, groups, jobs, results, deaths, specs):
    dead = {(tag, i): info for (tag, i, info) in deaths}
    n_cmp, n_ref, n_shrunk = 0, 0, 0
    events_hist = {}
    for (tag, _, env, cases, index) in jobs:
        ref = {}
        for i, ((gi, v, nnt), case) in enumerate(zip(index, cases)):
            g = groups[gi]
            if gi not in specs:
                docs, fit = corpora_of(g)
                specs[gi] = spec_counts(g["kind"], docs, fit, g["params"])
            exp, rows, ncols = specs[gi]
            nev = sum(exp.values())
            bucket = "<1e2" if nev < 100 else "<1e4" if nev < 10 ** 4 else "<1e5" if nev < 10 ** 5 else ">=1e5"
            ctx.count_case({"case": case, "nnt": nnt}, nontrivial=nev > 0,
                           kind="api:%s:%s:%s:events%s" % (g["kind"], "transform" if g["fit_corpus"] else "fit_transform",
                                                          "nt=%d,mem=%s" % (v[0], v[1]), bucket))
            replay = {"stage": "api", "case": dict(case, numba_num_threads=nnt)}
            if (tag, i) in dead:
                info = dead[(tag, i)]
                ctx.report("vectorizer child died (rc=%s, NUMBA_NUM_THREADS=%s) on %s n_threads=%s coo_initial_memory=%s: %s"
                           % (info["rc"], nnt, g["kind"], v[0], v[1], info["tail"][-300:]), replay, found_input=True)
                continue
            r = results[tag][i]
            if r is None:
                continue
            if "err" in r:
                ctx.report("%s vectorizer raised %s (n_threads=%s, coo_initial_memory=%s): %s"
                           % (g["kind"], r["err"], v[0], v[1], r.get("msg", "")), dict(replay, actual=r), found_input=True)
                continue
            got = api_result_dict(r)
            n_cmp += 1
            nbad, sample = diff_dicts(exp, got)
            shape_ok = r["shape"] == [len(rows), ncols] and set(r["row_labels"]) == rows and r["integral"]
            if nbad or not shape_ok:
                gg = g
                if n_shrunk < 2:
                    n_shrunk += 1
                    gg = shrink_api(g, v, nnt)
                docs, fit = corpora_of(gg)
                e2, _, _ = spec_counts(gg["kind"], docs, fit, gg["params"])
                ctx.report("%s co-occurrence matrix differs from the exact windowed count with n_threads=%s, coo_initial_memory=%s, "
                           "NUMBA_NUM_THREADS=%s (%s): %d cells differ, e.g. (cell, expected, got) %s; shape %s expected %s"
                           % (g["kind"], v[0], v[1], nnt, "fit(small).transform(large)" if g["fit_corpus"] else "fit_transform",
                              nbad, sample, r["shape"], [len(rows), ncols]),
                           {"stage": "api", "case": dict(api_case(gg, v), numba_num_threads=nnt),
                            "expected_total": sum(e2.values())}, found_input=True)
                continue
            if v == (1, None):
                ref[(gi, nnt)] = got
            elif (gi, nnt) in ref:
                n_ref += 1
                nb, sm = diff_dicts(ref[(gi, nnt)], got)
                if nb:
                    ctx.report("%s matrix with n_threads=%s, coo_initial_memory=%s differs from the n_threads=1/default-memory run: %s"
                               % (g["kind"], v[0], v[1], sm), replay, found_input=True)
    ctx.coverage["oracle"].update({"api_runs_vs_exact_count": n_cmp, "api_runs_vs_reference_run": n_ref,
                                   "groups": len(groups), "numba_num_threads": NNT})


# ------------------------------------------------------------------------------------------ replay
def run_replay(ctx, replay):
    c = replay["case"]
    stage = replay.get("stage")
    if stage == "state":
        L = c["limit"]
        model = C.coq_eval("C04r", HEADER, [coq_state_case(c)])
        res, deaths = run_children("state", [("L%d" % L, {"limit": L}, {}, [c])], ctx, "state")
        sc = {l: ([c] if l == L else []) for l in LIMITS + ([L] if L not in LIMITS else [])}
        md = {l: ([model[0]] if l == L else []) for l in sc}
        rs = {("L%d" % l): (res["L%d" % L] if l == L else []) for l in sc}
        if L not in LIMITS:
            LIMITS.append(L)
        check_state(ctx, sc, md, rs, deaths)
        print("model:", model_obs(model[0])[0][-1:], "impl:", (res["L%d" % L][0] or {}).get("obs", [None])[-1:])
    elif stage == "big":
        out = run_children("big", [("big", {"limit": None}, {}, [c])], ctx, "big")
        check_big(ctx, [c], *out)
    elif stage == "api":
        nnt = str(c.get("numba_num_threads", "4"))
        g = {"kind": c["kind"], "size": "replay", "corpus": c["corpus"], "fit_corpus": c.get("fit_corpus"),
             "params": c["params"], "variants": [(1, None), (c["n_threads"], c["mem"])]}
        if (c["n_threads"], c["mem"]) == (1, None):
            g["variants"] = [(1, None)]
        cases = [api_case(g, v) for v in g["variants"]]
        index = [(0, v, nnt) for v in g["variants"]]
        results, deaths = run_children("api", [("nnt" + nnt, {}, {"NUMBA_NUM_THREADS": nnt}, cases)], ctx, "api")
        check_api(ctx, [g], [("nnt" + nnt, {}, {"NUMBA_NUM_THREADS": nnt}, cases, index)], results, deaths, {})
    else:
        print("replay of stage %r: nothing to execute (proof gate only)" % stage)
    C.gate_violation(ctx)
    return ctx.finish("proof")
